"""Shared plumbing for every check: obligations, findings, known findings, evidence, exit codes.

Exit codes (DESIGN.md section 1):
  0  every obligation of the claimed clauses was discharged (KNOWN-FINDING lines may be printed)
  1  at least one finding that known_findings.json does not list  -> VIOLATION line(s)
  2  ANALYSIS-ERROR: an anchor vanished, a floor was not reached, or a construct at an anchor
     is outside the enumerated idioms.  Never a silent pass, never a VIOLATION line.
"""
from __future__ import annotations

import ast
import hashlib
import json
import os
import sys
import time
from dataclasses import dataclass, field
from typing import Any, Dict, List, Optional

VERIF = os.path.dirname(os.path.dirname(os.path.abspath(__file__)))
REPO = os.environ.get("FV_REPO", "/repo")
EVIDENCE_DIR = os.environ.get("FV_EVIDENCE_DIR", os.path.join(VERIF, "evidence"))
REPLAY_DIR = os.environ.get("FV_REPLAY_DIR", os.path.join(VERIF, "replay"))
KNOWN = os.path.join(VERIF, "known_findings.json")


class AnalysisError(Exception):
    """The analyser cannot evaluate a construct that reaches an obligation, or an anchor is gone."""


@dataclass
class Obligation:
    rule: str
    where: str      # file:qualified function[:line]
    fact: str       # the two facts compared / what was established
    ok: bool


@dataclass
class Finding:
    rule: str
    file: str
    func: str
    construct: str  # stable key of the construct (no line numbers)
    msg: str
    line: Optional[int] = None

    def key(self):
        return (self.rule, self.file, self.func, self.construct)

    def where(self):
        return f"{self.file}:{self.line if self.line is not None else '?'} ({self.func})"

    def __str__(self):
        return f"[{self.rule}] {self.where()}: {self.msg}"


@dataclass
class Ctx:
    prop: str
    tier: str = "quick"
    repo: str = REPO
    obligations: List[Obligation] = field(default_factory=list)
    findings: List[Finding] = field(default_factory=list)
    errors: List[str] = field(default_factory=list)
    floors: Dict[str, Any] = field(default_factory=dict)
    analysed: Dict[str, str] = field(default_factory=dict)   # relpath -> sha256
    functions: List[str] = field(default_factory=list)
    notes: List[str] = field(default_factory=list)
    extra: Dict[str, Any] = field(default_factory=dict)
    rules: Dict[str, str] = field(default_factory=dict)      # rule id -> one-line statement
    t0: float = field(default_factory=time.time)

    # ---- files
    def path(self, rel):
        return os.path.join(self.repo, rel)

    def read(self, rel) -> str:
        p = self.path(rel)
        if not os.path.exists(p):
            raise AnalysisError(f"anchor file missing: {rel}")
        src = open(p, encoding="utf-8").read()
        self.analysed[rel] = hashlib.sha256(src.encode()).hexdigest()
        return src

    def parse(self, rel) -> ast.Module:
        try:
            tree = ast.parse(self.read(rel), filename=rel)
        except SyntaxError as e:
            raise AnalysisError(f"{rel} does not parse: {e}")
        from . import normast
        if os.environ.get("FV_CANON", "1") != "0":
            normast.canon_module(tree)
        if rel.startswith("py/formak/") and rel.endswith(".py"):
            name = rel[len("py/formak/"):-3].replace("/", ".")
            normast.SIBLINGS[name] = tree
            if name == "common":
                pass
            elif "common" not in normast.SIBLINGS and rel != "py/formak/common.py":
                try:
                    self.parse("py/formak/common.py")       # the usual home of shared helpers
                except AnalysisError:
                    pass
        return tree

    # ---- recording
    def rule(self, rid, text):
        self.rules[rid] = text

    def oblige(self, rule, where, fact, ok, *, file=None, func=None, construct=None, msg=None, line=None):
        self.obligations.append(Obligation(rule, where, fact, bool(ok)))
        if not ok:
            self.find(rule, file or where.split(":")[0], func or "", construct or fact, msg or fact, line)

    def find(self, rule, file, func, construct, msg, line=None):
        f = Finding(rule, file, func, construct, msg, line)
        if not any(g.key() == f.key() for g in self.findings):
            self.findings.append(f)

    def error(self, msg):
        if msg not in self.errors:
            self.errors.append(msg)

    def floor(self, rule, count, minimum, what=""):
        """vacuity guard: fewer instances than confirmed by reading => ANALYSIS-ERROR."""
        self.floors[rule] = {"count": count, "floor": minimum, "what": what}
        if count < minimum:
            self.error(f"floor not reached for {rule}: matched {count} instance(s), at least {minimum} expected ({what})")

    def note(self, msg):
        self.notes.append(msg)


def load_known():
    if not os.path.exists(KNOWN):
        return {"known": [], "fixed": []}
    return json.load(open(KNOWN))


def is_known(kf, prop, f: Finding):
    for k in kf.get("known", []):
        if k.get("property") != prop:
            continue
        if k.get("rule") == f.rule and k.get("file") == f.file and k.get("function") == f.func \
                and k.get("construct") == f.construct:
            return k
    return None


def finish(ctx: Ctx, *, level="other", explanation="", trusted_base=(), assumptions=(), samples=None,
           checker_cmd=None) -> int:
    """print the report, write evidence, return the exit code."""
    kf = load_known()
    seed = int(os.environ.get("VERIF_SEED", "0") or 0)
    new, known = [], []
    for f in ctx.findings:
        k = is_known(kf, ctx.prop, f)
        (known if k else new).append(f)
    discharged = sum(1 for o in ctx.obligations if o.ok)
    print(f"== {ctx.prop} [{ctx.tier}] repo={ctx.repo}")
    print(f"   analysed {len(ctx.analysed)} file(s), {len(ctx.functions)} function(s); "
          f"{len(ctx.obligations)} obligation(s), {discharged} discharged")
    for r, fl in sorted(ctx.floors.items()):
        print(f"   rule {r}: {fl['count']} instance(s) (floor {fl['floor']}) {fl['what']}")
    for n in ctx.notes:
        print(f"   note: {n}")
    for f in known:
        print(f"KNOWN-FINDING: property={ctx.prop} {f}")
    code = 0
    if ctx.errors:
        for e in ctx.errors:
            print(f"ANALYSIS-ERROR property={ctx.prop} {e}")
        code = 2
    replay = None
    if new:
        os.makedirs(REPLAY_DIR, exist_ok=True)
        replay = os.path.join(REPLAY_DIR, f"{ctx.prop}.json")
        json.dump({"property": ctx.prop, "repo": ctx.repo, "tier": ctx.tier,
                   "violations": [dict(rule=f.rule, file=f.file, line=f.line, function=f.func,
                                       construct=f.construct, message=f.msg, rule_text=ctx.rules.get(f.rule, ""))
                                  for f in new]}, open(replay, "w"), indent=1)
        for f in new:
            print(f"   {f}")
        if ctx.errors and os.environ.get("FV_ERRORS_DOMINATE", "0") == "1":
            # part of the code could not be analysed (un-enumerated idiom, vanished anchor): contradictions derived next to such a gap are not
            # reliable enough to raise an alarm -- the run is reported as analysis-broken (exit 2), with the candidate findings listed above
            print(f"   ({len(new)} candidate finding(s) above are NOT reported as violations: the analysis is incomplete)")
        else:
            print(f"VIOLATION property={ctx.prop} replay={replay}")
            code = 1
    if ctx.tier == "thorough" and code == 0 and os.environ.get("FV_SELFTEST", "1") != "0":
        from . import selftest
        results, problems = selftest.run(ctx)
        ctx.extra["selftest"] = {"cases": results,
                                 "summary": {k: sum(1 for r in results if r["result"] == k) for k in sorted({r["result"] for r in results})}}
        print(f"   selftest: {len(results)} case(s): " + ", ".join(f"{k}={v}" for k, v in ctx.extra["selftest"]["summary"].items()))
        for p in problems:
            print(f"ANALYSIS-ERROR property={ctx.prop} selftest {p}")
            ctx.errors.append("selftest " + p)
        if problems:
            code = 2
    wall = time.time() - ctx.t0
    if samples is None:
        samples = [dict(rule=o.rule, where=o.where, fact=o.fact, ok=o.ok) for o in ctx.obligations[:12]]
    cov = {
        "explanation": explanation or "static analysis of the current source; see rules",
        "rules": ctx.rules,
        "obligations": len(ctx.obligations),
        "discharged": discharged,
        "rule_instances": ctx.floors,
        "samples": samples,
        "files_analysed": ctx.analysed,
        "functions_analysed": ctx.functions[:200],
        "trusted_base": list(trusted_base),
        "checker_cmd": checker_cmd or " ".join(sys.argv),
        "known_findings_reported": [str(f) for f in known],
        "analysis_errors": ctx.errors,
        "notes": ctx.notes[:50],
    }
    cov.update(ctx.extra)
    ev = {
        "property_id": ctx.prop,
        "tier": ctx.tier,
        "seed": seed,
        "level": level,
        "coverage": cov,
        "assumptions": list(assumptions),
        "wall_s": round(wall, 3),
        "violations": len(new),
    }
    if os.environ.get("FV_NO_EVIDENCE") != "1":
        os.makedirs(EVIDENCE_DIR, exist_ok=True)
        tmp = os.path.join(EVIDENCE_DIR, f".{ctx.prop}.json.tmp")
        json.dump(ev, open(tmp, "w"), indent=1, default=str)
        os.replace(tmp, os.path.join(EVIDENCE_DIR, f"{ctx.prop}.json"))
    print(f"   verdict: {'HOLDS' if code == 0 else ('VIOLATION' if code == 1 else 'ANALYSIS-ERROR')}  ({wall:.2f}s)")
    return code


# ---------------------------------------------------------------------------- small AST helpers
def find_class(mod: ast.Module, name) -> Optional[ast.ClassDef]:
    for n in mod.body:
        if isinstance(n, ast.ClassDef) and n.name == name:
            return n
    return None


def own_walk(fn):
    """nodes of fn's own scope: nested function / lambda / class bodies are not entered (their returns / yields are not fn's)"""
    import ast as _ast
    stack = list(reversed(fn.body)) if hasattr(fn, "body") and isinstance(fn.body, list) else [fn]
    while stack:
        n = stack.pop()
        yield n
        if isinstance(n, (_ast.FunctionDef, _ast.AsyncFunctionDef, _ast.Lambda, _ast.ClassDef)):
            continue
        stack.extend(reversed(list(_ast.iter_child_nodes(n))))


def find_func(scope, name) -> Optional[ast.FunctionDef]:
    for n in scope.body:
        if isinstance(n, (ast.FunctionDef, ast.AsyncFunctionDef)) and n.name == name:
            return n
    return None


def bind_call(call: ast.Call, fn, skip_first=False):
    """{parameter name: argument expression} of `call` against fn's signature; None when the call cannot be bound statically (star args,
    unknown keyword, too many positionals)"""
    if fn is None or any(isinstance(a, ast.Starred) for a in call.args) or any(k.arg is None for k in call.keywords):
        return None
    params = [a.arg for a in fn.args.posonlyargs + fn.args.args][1 if skip_first else 0:]
    allowed = set(params) | {a.arg for a in fn.args.kwonlyargs}
    if len(call.args) > len(params):
        return None
    out = dict(zip(params, call.args))
    for k in call.keywords:
        if k.arg in out or (k.arg not in allowed and fn.args.kwarg is None):
            return None
        out[k.arg] = k.value
    return out


def find_func_imported(ctx, mod: ast.Module, name: str):
    """the module-level function `name` of `mod`, or -- when `mod` only imports it (`from formak.X import name [as name]`) -- the definition in
    that sibling module.  -> (FunctionDef | None, repo-relative file of the definition | None)"""
    fn = find_func(mod, name)
    if fn is not None:
        return fn, None
    for n in mod.body:
        if isinstance(n, ast.ImportFrom) and n.module and n.module.split(".")[0] == "formak" and len(n.module.split(".")) > 1:
            for a in n.names:
                if (a.asname or a.name) == name:
                    rel = "py/formak/" + "/".join(n.module.split(".")[1:]) + ".py"
                    try:
                        other = ctx.parse(rel)
                    except AnalysisError:
                        return None, None
                    return find_func(other, a.name), rel
    return None, None


def need(x, what):
    if x is None:
        raise AnalysisError(f"anchor missing: {what}")
    return x


def norm(node) -> str:
    """normalised text of a node (position-free), used as construct key."""
    try:
        return ast.unparse(node)
    except Exception:
        return type(node).__name__


def walk_no_nested_funcs(node):
    """ast.walk that does not descend into nested function/class definitions (but yields them)."""
    todo = list(ast.iter_child_nodes(node))
    while todo:
        n = todo.pop(0)
        yield n
        if isinstance(n, (ast.FunctionDef, ast.AsyncFunctionDef, ast.ClassDef, ast.Lambda)):
            continue
        todo.extend(ast.iter_child_nodes(n))
