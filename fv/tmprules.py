"""TMP rules (C08, C01, C02): the temporaries protocol of python.BasicBlock and cpp.BasicBlock.

A small symbolic evaluator over list-valued terms evaluates `_compile` / `execute` / `compile` and compares
the resulting terms -- after def-use inlining and for both settings of the CSE flag -- with the protocol:

  TMP-1  python: prefix entry i is (T[i], lambdify(ARGS + T[:i], [simplify] P[i].expr)) for i in range(len(P)), where
         (P, B) = cse(EXPRS, symbols=<fresh names>) and T = [p[0] for p in P]; each body entry is
         lambdify(ARGS + T, [simplify] b) for b in B, in order          (CSE off: P = [], B = EXPRS)
  TMP-2  python execute: prefix walked in list order, each value stored under str(<its own symbol>) and passed, with all
         earlier ones, by keyword to later prefixes; then every body callable gets (*args, **kwargs, **temporaries)
  TMP-3  cpp compile: every prefix entry is yielded as `double <sym> = ccode([simplify] expr)` in cse order before the
         first target; targets are re-zipped with B in the order they were split from the statements
  TMP-4  the CSE flag gates only cse() and simplify(); TRUST-SIG: cse / simplify / lambdify / ccode are called with the
         trusted signatures only (no option that leaves the value-preserving contract, e.g. simplify(inverse=True))
"""
from __future__ import annotations

import ast
from typing import Any, Dict, List, Optional

from . import core

TRUSTED_KW = {
    "cse": {"symbols"},
    "simplify": set(),
    "lambdify": {"modules", "cse"},
    "ccode": set(),
    "diff": set(),
}


class T:
    """term constructors (plain tuples)"""


def show(t):
    if isinstance(t, tuple):
        if not t:
            return "()"
        if not isinstance(t[0], str):
            return "(" + ", ".join(show(x) for x in t) + ")"
        return t[0] + ("(" + ", ".join(show(x) for x in t[1:]) + ")" if len(t) > 1 else "")
    if isinstance(t, list):
        return "[" + ", ".join(show(x) for x in t) + "]"
    return str(t)


class Eval:
    helpers: Dict[str, ast.FunctionDef] = {}      # module-level single-return helper functions (inlined at their call sites)
    namedtuples: Dict[str, tuple] = {}            # module-level namedtuple classes: a construction is a tuple, a field read an item
    methods: Dict[str, ast.FunctionDef] = {}      # the analysed class's other methods: `self.m(...)` is inlined (a generator method is fused into the loop that consumes it)

    def __init__(self, ctx, rel, qual, flag: bool, self_attrs=None):
        self.ctx, self.rel, self.qual, self.flag = ctx, rel, qual, flag
        self.env: Dict[str, Any] = {}
        self.attrs: Dict[str, Any] = dict(self_attrs or {})
        self.yields: List[Any] = []
        self.loop_ids = 0
        self.problems: List[str] = []
        self.flag_uses: List[str] = []
        self.calls: List[ast.Call] = []
        self.lambdify_modules: List[Any] = []
        self.local_funcs: Dict[str, ast.FunctionDef] = {}
        self.depth = 0
        self.inlined_methods = set()
        self.returned = False

    # ---- expressions
    def ev(self, n) -> Any:
        if isinstance(n, ast.Name):
            if n.id in self.env:
                return self.env[n.id]
            return ("NAME", n.id)
        if isinstance(n, ast.Constant):
            return ("CONST", repr(n.value))
        if isinstance(n, ast.Attribute):
            if isinstance(n.value, ast.Name) and n.value.id == "self":
                if n.attr in self.attrs:
                    return self.attrs[n.attr]
                return ("SELF", n.attr)
            b = self.ev(n.value)
            if b == ("SELF", "_config") or b == ("CFG",):
                return ("CFGFIELD", n.attr)
            idxs = {f.index(n.attr) for f in self.namedtuples.values() if n.attr in f}
            if len(idxs) == 1 and b[0] not in ("NAME", "SELF", "CFG"):
                return self.item(b, idxs.pop())
            return ("ATTR", b, n.attr)
        if isinstance(n, (ast.List, ast.Tuple)):
            if not n.elts:
                return ("EMPTY",)
            return ("TUPLE",) + tuple(self.ev(e) for e in n.elts)
        if isinstance(n, ast.Dict) and not n.keys:
            return ("EMPTYDICT",)
        if isinstance(n, ast.BinOp) and isinstance(n.op, ast.Add):
            return self.concat(self.ev(n.left), self.ev(n.right))
        if isinstance(n, ast.Subscript):
            b = self.ev(n.value)
            if isinstance(n.slice, ast.Slice):
                lo = self.ev(n.slice.lower) if n.slice.lower else None
                hi = self.ev(n.slice.upper) if n.slice.upper else None
                if n.slice.step is not None:
                    return ("STEPSLICE", b, ast.unparse(n.slice))
                if lo is None and hi is None:
                    return b
                return ("SLICE", b, lo, hi)
            i = self.ev(n.slice)
            if i[0] == "CONST" and b[0] == "TUPLE":
                try:
                    return b[1 + int(i[1])]
                except Exception:
                    pass
            if i[0] == "CONST":
                return self.item(b, int(i[1])) if i[1].lstrip("-").isdigit() else ("ITEM", b, i[1])
            return self.idx(b, i)
        if isinstance(n, ast.IfExp):
            c = self.cond(n.test)
            if c is True:
                return self.ev(n.body)
            if c is False:
                return self.ev(n.orelse)
            return ("IFEXP", ast.unparse(n.test), self.ev(n.body), self.ev(n.orelse))
        if isinstance(n, ast.ListComp) or isinstance(n, ast.GeneratorExp):
            return self.comp(n)
        if isinstance(n, ast.Call):
            return self.call(n)
        if isinstance(n, ast.Starred):
            return ("STAR", self.ev(n.value))
        if isinstance(n, ast.JoinedStr):
            return ("FSTR", ast.unparse(n))
        return ("OTHER", ast.unparse(n))

    def concat(self, a, b):
        if a == ("EMPTY",):
            return b
        if b == ("EMPTY",):
            return a
        if b[0] == "SLICE" and b[2] is None and b[3] is not None and b[3][0] == "CONST" and b[3][1] == "0":
            return a
        return ("CONCAT", a, b)

    def item(self, b, k):
        if b[0] == "TUPLE" and 0 <= k < len(b) - 1:
            return b[1 + k]
        if b[0] == "CSE" and k in (0, 1):
            return ("CSE.P" if k == 0 else "CSE.B", b[1])
        if b[0] == "IDX" and b[1][0] == "FIRSTS" and False:
            pass
        return ("ITEM", b, k)

    def idx(self, b, i):
        # T[i] with T = [p[0] for p in P]  ==  P[i][0]
        if b[0] == "MAPITEM":
            return ("ITEM", ("IDX", b[1], i), b[2])
        if b[0] == "GEN":
            return self.subst_I(b[2], i)
        return ("IDX", b, i)

    def subst_I(self, term, i):
        if term == ("I",):
            return i
        if isinstance(term, tuple):
            return tuple(self.subst_I(x, i) if isinstance(x, tuple) else x for x in term)
        return term

    def domain_of(self, src):
        """(domain term, element term builder) of an iterable term"""
        if src[0] == "RANGE":
            n = src[1]
            if n[0] == "LEN":
                base = n[1]
                if base[0] == "MAPITEM":
                    base = base[1]
                return ("DOM", base), (lambda I: I)
            return ("RANGEDOM", n), (lambda I: I)
        if src[0] == "ENUM":
            return ("DOM", src[1]), (lambda I: ("TUPLE", I, self.idx(src[1], I)))
        if src[0] == "ZIP":
            return ("ZIPDOM",) + tuple(src[1:]), (lambda I: ("TUPLE",) + tuple(self.idx(x, I) for x in src[1:]))
        return ("DOM", src), (lambda I: self.idx(src, I))

    def gen(self, dom, body):
        """canonical list term: [body(I) for I in dom]"""
        I = ("I",)
        if dom == ("DOM", ("EMPTY",)):
            return ("EMPTY",)
        if dom[0] == "DOM":
            X = dom[1]
            if body == ("IDX", X, I):
                return X
            if body[0] == "ITEM" and body[1] == ("IDX", X, I):
                return ("MAPITEM", X, body[2])
        return ("GEN", dom, body)

    def comp(self, n):
        if len(n.generators) != 1 or n.generators[0].ifs:
            return ("OTHER", ast.unparse(n))
        g = n.generators[0]
        src = self.ev(g.iter)
        saved = dict(self.env)
        self.loop_ids += 1
        I = ("I", self.loop_ids)
        dom, elem = self.domain_of(src)
        self.bind(g.target, elem(I))
        body = self.ev(n.elt)
        self.env = saved
        return self.gen(dom, self.abstract_elem(body, I))

    def abstract_elem(self, term, el):
        if term == el:
            return ("I",)
        if isinstance(term, tuple):
            return tuple(self.abstract_elem(x, el) if isinstance(x, tuple) else x for x in term)
        return term

    def bind(self, target, v):
        if isinstance(target, ast.Name):
            self.env[target.id] = v
        elif isinstance(target, (ast.Tuple, ast.List)):
            for k, t in enumerate(target.elts):
                self.bind(t, self.item(v, k))
        else:
            self.problems.append(f"binding target {ast.unparse(target)} not understood")

    def fname(self, f):
        if isinstance(f, ast.Name):
            return f.id
        if isinstance(f, ast.Attribute):
            return f.attr
        return None

    def call(self, n: ast.Call):
        self.calls.append(n)
        name = self.fname(n.func)
        args = [self.ev(a) for a in n.args]
        if isinstance(n.func, ast.Name) and n.func.id in self.namedtuples and n.func.id not in self.env:
            fields = self.namedtuples[n.func.id]
            vals = list(args) + [None] * (len(fields) - len(args))
            for k in n.keywords:
                if k.arg in fields:
                    vals[fields.index(k.arg)] = self.ev(k.value)
            if all(v is not None for v in vals) and len(vals) == len(fields):
                return ("TUPLE",) + tuple(vals)
        if name == "cse" and isinstance(n.func, ast.Name):
            return ("CSE", args[0] if args else ("?",))
        if name == "simplify" and isinstance(n.func, ast.Name):
            return ("SIMPLIFY", args[0]) if args else ("?",)
        if name == "lambdify" and isinstance(n.func, ast.Name):
            mods = next((self.ev(k.value) for k in n.keywords if k.arg == "modules"), args[2] if len(args) > 2 else ("DEFAULT-MODULES",))
            self.lambdify_modules.append((mods, n.lineno))
            return ("LAMBDIFY", args[0] if args else ("?",), args[1] if len(args) > 1 else ("?",))
        if isinstance(n.func, ast.Name) and n.func.id in self.local_funcs:
            return self.inline(self.local_funcs[n.func.id], n, args, closure=True)
        if isinstance(n.func, ast.Attribute) and isinstance(n.func.value, ast.Name) and n.func.value.id == "self" and n.func.attr in self.methods \
                and self.depth < 4:
            h = self.methods[n.func.attr]
            self.inlined_methods.add(h.name)
            if any(isinstance(x, (ast.Yield, ast.YieldFrom)) for x in ast.walk(h)):
                return ("GENCALL", h.name, tuple(args), tuple((k.arg, self.ev(k.value)) for k in n.keywords))
            return self.inline(h, n, args, method=True)
        if isinstance(n.func, ast.Name) and n.func.id in self.helpers and n.func.id not in self.env:
            # inline a module-level helper whose body is a single `return <expr>`
            h = self.helpers[n.func.id]
            params = [a.arg for a in h.args.args + h.args.kwonlyargs]
            bound = {}
            for p, a in zip([a.arg for a in h.args.args], args):
                bound[p] = a
            for k in n.keywords:
                if k.arg in params:
                    bound[k.arg] = self.ev(k.value)
            defaults = dict(zip([a.arg for a in h.args.args][len(h.args.args) - len(h.args.defaults):], h.args.defaults))
            defaults.update({a.arg: d for a, d in zip(h.args.kwonlyargs, h.args.kw_defaults) if d is not None})
            saved = self.env
            self.env = dict(saved)
            for p in params:
                self.env[p] = bound[p] if p in bound else (self.ev(defaults[p]) if p in defaults else ("MISSING", p))
            ret = h.body[-1]
            out = self.ev(ret.value) if isinstance(ret, ast.Return) and ret.value is not None else ("OTHER", "helper")
            self.env = saved
            return out
        if name == "ccode" and isinstance(n.func, ast.Name):
            return ("CCODE", args[0]) if args else ("?",)
        if name in ("list", "tuple") and isinstance(n.func, ast.Name) and len(args) == 1:
            return args[0]
        if name == "len" and isinstance(n.func, ast.Name) and len(args) == 1:
            return ("LEN", args[0])
        if name == "range" and isinstance(n.func, ast.Name) and len(args) == 1:
            return ("RANGE", args[0])
        if name == "enumerate" and isinstance(n.func, ast.Name) and len(args) == 1:
            return ("ENUM", args[0])
        if name == "zip" and isinstance(n.func, ast.Name):
            return ("ZIP",) + tuple(args)
        if name == "str" and isinstance(n.func, ast.Name) and len(args) == 1:
            return ("STR", args[0])
        if name in ("sorted", "reversed", "filter", "set") and isinstance(n.func, ast.Name):
            return ("REORDER", name, args[0] if args else ("?",))
        if name == "MemberDeclaration":
            kw = {k.arg: self.ev(k.value) for k in n.keywords}
            vals = args + [kw.get("value")] if "value" in kw else args
            return ("MEMBER",) + tuple(vals)
        if isinstance(n.func, ast.Attribute) and not (isinstance(n.func.value, ast.Name) and n.func.value.id == "self"):
            # a field of a namedtuple entry that holds a callable (`entry.impl(...)`)
            callee0 = self.ev(n.func)
            if callee0[0] in ("ITEM", "IDX"):
                kws = [("KW", k.arg, self.ev(k.value)) for k in n.keywords]
                return ("APPLY", callee0, tuple(args), tuple(kws))
        if isinstance(n.func, ast.Name) and n.func.id in self.env or (isinstance(n.func, ast.Subscript)):
            callee = self.ev(n.func)
            star = [a for a in args if a[0] == "STAR"]
            kws = [("KW", k.arg, self.ev(k.value)) for k in n.keywords]
            return ("APPLY", callee, tuple(args), tuple(kws))
        return ("CALL", ast.unparse(n.func), tuple(args))

    def sub_eval(self, closure=False):
        sub = Eval(self.ctx, self.rel, self.qual, self.flag, self.attrs)
        sub.attrs = self.attrs
        sub.env = dict(self.env) if closure else {}
        sub.local_funcs = dict(self.local_funcs)
        sub.loop_ids = self.loop_ids + 100
        sub.depth = self.depth + 1
        sub.inlined_methods = self.inlined_methods
        sub.loopctx, sub.stores, sub.appends = [], [], {}
        return sub

    def absorb(self, sub):
        self.problems += sub.problems
        self.flag_uses += sub.flag_uses
        self.calls += sub.calls
        self.lambdify_modules += sub.lambdify_modules
        self.loop_ids = max(self.loop_ids, sub.loop_ids)

    def inline(self, h: ast.FunctionDef, n: ast.Call, args, closure=False, method=False):
        """evaluate a local closure (or helper / method of the same class) body with its parameters bound; straight-line code, flag branches and
        one return reached"""
        pos = [a.arg for a in h.args.posonlyargs + h.args.args]
        if method and pos:
            pos = pos[1:]
        params = pos + [a.arg for a in h.args.kwonlyargs]
        if h.args.vararg or h.args.kwarg or len(args) > len(pos):
            return ("OTHER", ast.unparse(n))
        bound = dict(zip(pos, args))
        for k in n.keywords:
            if k.arg in params:
                bound[k.arg] = self.ev(k.value)
        defaults = dict(zip(pos[len(pos) - len(h.args.defaults):], h.args.defaults))
        defaults.update({a.arg: d for a, d in zip(h.args.kwonlyargs, h.args.kw_defaults) if d is not None})
        sub = self.sub_eval(closure)
        for p_ in params:
            sub.env[p_] = bound[p_] if p_ in bound else (self.ev(defaults[p_]) if p_ in defaults else ("MISSING", p_))
        sub.block(h.body)
        self.absorb(sub)
        rets = [y for y in sub.yields if y[0] == "RETURN"]
        if len(rets) != 1 or rets[0][2] or sub.stores or sub.appends:
            self.problems.append(f"local function {h.name} is not straight-line code with one return")
            return ("OTHER", ast.unparse(n))
        return rets[0][1]

    def cond(self, test) -> Optional[bool]:
        t = self.ev(test)
        if t == ("CFGFIELD", "common_subexpression_elimination"):
            self.flag_uses.append(ast.unparse(test))
            return self.flag
        if isinstance(test, ast.UnaryOp) and isinstance(test.op, ast.Not):
            c = self.cond(test.operand)
            return None if c is None else (not c)
        return None

    # ---- statements
    def block(self, stmts):
        for s in stmts:
            if self.returned:
                return
            self.stmt(s)

    def stmt(self, s):
        if isinstance(s, ast.Assign):
            v = self.ev(s.value)
            for t in s.targets:
                self.assign(t, v)
        elif isinstance(s, ast.AnnAssign) and s.value is not None:
            self.assign(s.target, self.ev(s.value))
        elif isinstance(s, ast.If):
            c = self.cond(s.test)
            if c is True:
                self.block(s.body)
            elif c is False:
                self.block(s.orelse)
            else:
                self.problems.append(f"branch on `{ast.unparse(s.test)}` (not the CSE flag) in the temporaries protocol")
                self.block(s.body)
        elif isinstance(s, ast.For):
            self.loop(s)
        elif isinstance(s, ast.Expr):
            v = s.value
            if isinstance(v, ast.Yield):
                self.yields.append(("YIELD", self.ev(v.value) if v.value else None, tuple(self.loopctx)))
            elif isinstance(v, ast.YieldFrom):
                self.yields.append(("YIELDFROM", self.ev(v.value), tuple(self.loopctx)))
            elif isinstance(v, ast.Call):
                self.exprcall(v)
            elif isinstance(v, ast.Constant):
                pass
        elif isinstance(s, (ast.Assert, ast.Pass)):
            pass
        elif isinstance(s, ast.FunctionDef):
            self.local_funcs[s.name] = s
        elif isinstance(s, ast.Return):
            self.yields.append(("RETURN", self.ev(s.value) if s.value else None, tuple(self.loopctx)))
            if not self.loopctx:
                self.returned = True
        else:
            self.problems.append(f"statement {type(s).__name__} not understood in the temporaries protocol")

    loopctx: List[Any] = []

    def assign(self, t, v):
        if isinstance(t, ast.Name):
            self.env[t.id] = v
        elif isinstance(t, (ast.Tuple, ast.List)):
            if v[0] == "CSE" and len(t.elts) == 2:
                self.bind(t.elts[0], ("CSE.P", v[1]))
                self.bind(t.elts[1], ("CSE.B", v[1]))
            else:
                self.bind(t, v)
        elif isinstance(t, ast.Attribute) and isinstance(t.value, ast.Name) and t.value.id == "self":
            self.attrs[t.attr] = v
        elif isinstance(t, ast.Subscript):
            base = self.ev(t.value)
            key = self.ev(t.slice)
            self.stores.append((base, key, v, tuple(self.loopctx)))
        else:
            self.problems.append(f"assignment target {ast.unparse(t)} not understood")

    stores: List[Any] = []

    def exprcall(self, c: ast.Call):
        if isinstance(c.func, ast.Attribute) and c.func.attr == "append" and len(c.args) == 1:
            base = c.func.value
            v = self.ev(c.args[0])
            key = ast.unparse(base)
            self.appends.setdefault(key, []).append((v, tuple(self.loopctx)))
            return
        self.ev(c)

    appends: Dict[str, Any] = {}

    def _snapshot(self):
        import copy as _c
        return (dict(self.env), dict(self.attrs), {k: list(v) for k, v in self.appends.items()}, list(self.stores), list(self.yields), list(self.problems),
                list(self.flag_uses), list(self.calls), list(self.lambdify_modules), self.loop_ids, dict(self.local_funcs))

    def _restore(self, snap):
        (self.env, attrs, self.appends, self.stores, self.yields, self.problems, self.flag_uses, self.calls, self.lambdify_modules, self.loop_ids,
         self.local_funcs) = (dict(snap[0]), snap[1], {k: list(v) for k, v in snap[2].items()}, list(snap[3]), list(snap[4]), list(snap[5]), list(snap[6]),
                              list(snap[7]), list(snap[8]), snap[9], dict(snap[10]))
        self.attrs.clear()
        self.attrs.update(attrs)

    def _accumulator(self, s: ast.For):
        """`acc.append(v)` as the LAST statement of the loop body, acc a list that exists before the loop and is read in the body:
        -> the key of acc, else None"""
        if not s.body or s.orelse:
            return None
        last = s.body[-1]
        if not (isinstance(last, ast.Expr) and isinstance(last.value, ast.Call) and isinstance(last.value.func, ast.Attribute)
                and last.value.func.attr == "append" and len(last.value.args) == 1 and not last.value.keywords):
            return None
        key = ast.unparse(last.value.func.value)
        if self.list_value(key) is None:
            return None
        reads = sum(1 for st in s.body[:-1] for x in ast.walk(st) if isinstance(x, (ast.Name, ast.Attribute)) and ast.unparse(x) == key)
        others = sum(1 for st in s.body[:-1] for x in ast.walk(st) if isinstance(x, ast.Call) and isinstance(x.func, ast.Attribute)
                     and ast.unparse(x.func.value) == key and x.func.attr in ("append", "extend", "insert", "pop", "remove", "clear", "sort", "reverse"))
        return key if reads and not others else None

    def loop(self, s: ast.For):
        src = self.ev(s.iter)
        if src[0] == "GENCALL":
            return self.fuse(s, src)
        self.loop_ids += 1
        lid = self.loop_ids
        I = ("I", lid)
        dom, elem = self.domain_of(src)
        if src[0] == "RANGE":
            ctx = ("FOR-RANGE", src[1], lid)
        elif src[0] == "ENUM":
            ctx = ("FOR-RANGE", ("LEN", src[1]), lid)
        else:
            ctx = ("FOR-EACH", src, lid)
        acc = self._accumulator(s) if not self.loopctx else None
        if acc is not None:
            # pass 1: what is appended per iteration (acc read as its value before the loop); pass 2: acc read as init + entries[:I]
            init = self.list_value(acc)
            snap = self._snapshot()
            self.bind(s.target, elem(I))
            self.loopctx = self.loopctx + [ctx]
            self.block(s.body)
            self.loopctx = self.loopctx[:-1]
            new = self.appends.get(acc, [])[len(snap[2].get(acc, [])):]
            self._restore(snap)
            self.loop_ids = lid
            if len(new) != 1 or new[0][1] != (ctx,):
                self.problems.append(f"the list `{acc}` is extended conditionally / more than once per iteration of `for {ast.unparse(s.target)} in {ast.unparse(s.iter)}`")
                acc = None
            else:
                entries = self.gen(dom, self.abstract_elem(new[0][0], I))
                self.set_list(acc, self.concat(init, ("SLICE", entries, None, I)))
        before = {k: len(v) for k, v in self.appends.items()}
        self.bind(s.target, elem(I))
        self.loopctx = self.loopctx + [ctx]
        self.block(s.body)
        self.loopctx = self.loopctx[:-1]
        if acc is not None:
            self.appends[acc] = self.appends.get(acc, [])[:before.get(acc, 0)]
            self.set_list(acc, self.concat(init, entries))
        # a list that was empty before the loop and receives exactly one unconditional append per iteration is [entry(I) for I in dom]
        if not self.loopctx:
            for key, lst in self.appends.items():
                new = lst[before.get(key, 0):]
                if len(new) == 1 and new[0][1] == (ctx,) and self.list_value(key) == ("EMPTY",):
                    self.set_list(key, self.gen(dom, self.abstract_elem(new[0][0], I)))

    def fuse(self, s: ast.For, src):
        """`for x in self.gen_method(...)`: the consumer's body runs once per yield site of the producer, under the producer's loops"""
        h = self.methods[src[1]]
        pos = [a.arg for a in h.args.posonlyargs + h.args.args][1:]
        sub = self.sub_eval()
        bound = dict(zip(pos, src[2]))
        bound.update({k: v for k, v in src[3] if k in pos or k in [a.arg for a in h.args.kwonlyargs]})
        defaults = dict(zip(pos[len(pos) - len(h.args.defaults):], h.args.defaults)) if h.args.defaults else {}
        for p_ in pos + [a.arg for a in h.args.kwonlyargs]:
            sub.env[p_] = bound[p_] if p_ in bound else (self.ev(defaults[p_]) if p_ in defaults else ("MISSING", p_))
        sub.block(h.body)
        self.absorb(sub)
        if sub.stores or any(sub.appends.values()):
            self.problems.append(f"generator method {h.name} also stores into containers")
        for y in sub.yields:
            if y[0] == "RETURN":
                continue
            kind, val, lctx = y
            if kind == "YIELD":
                self.bind(s.target, val)
                self.loopctx = self.loopctx + list(lctx)
                self.block(s.body)
                self.loopctx = self.loopctx[:len(self.loopctx) - len(lctx)]
            else:
                # yield from <list term>: a loop over that term
                term = val
                self.loop_ids += 1
                lid = self.loop_ids
                I = ("I", lid)
                if term[0] == "GEN" and term[1][0] == "ZIPDOM":
                    srct = ("ZIP",) + tuple(term[1][1:])
                    el = self.subst_I(term[2], I)
                elif term[0] == "GEN" and term[1][0] == "DOM":
                    srct = term[1][1]
                    el = self.subst_I(term[2], I)
                else:
                    srct = term
                    el = self.domain_of(term)[1](I)
                self.bind(s.target, el)
                self.loopctx = self.loopctx + list(lctx) + [("FOR-EACH", srct, lid)]
                self.block(s.body)
                self.loopctx = self.loopctx[:len(self.loopctx) - len(lctx) - 1]

    def list_value(self, key):
        if key.startswith("self."):
            return self.attrs.get(key[5:])
        return self.env.get(key)

    def set_list(self, key, v):
        if key.startswith("self."):
            self.attrs[key[5:]] = v
        else:
            self.env[key] = v

    def run(self, fn: ast.FunctionDef):
        self.loopctx, self.stores, self.appends = [], [], {}
        self.block(fn.body)
        return self


def flag_resolve(t, flag):
    return t


# ------------------------------------------------------------------------------------------ rules
def _strip_simplify(t):
    return t[1] if isinstance(t, tuple) and t[0] == "SIMPLIFY" else t


def trust_sig(ctx, rel, qual, fn, rule="TRUST-SIG"):
    n = 0
    for c in ast.walk(fn):
        if isinstance(c, ast.Call) and isinstance(c.func, ast.Name) and c.func.id == "cse":
            # the temporaries have names of their own: sympy's default stream is x0, x1, ... and only skips names that occur in the expressions it is
            # given -- by then the model's symbols have been replaced by accessors (C++) / are the block's argument names (Python), so a state or
            # reading called x0 collides with a temporary (a local declared twice / a duplicate argument)
            if not any(k.arg == "symbols" for k in c.keywords) and len(c.args) < 2:
                ctx.oblige("TMP-4", f"{rel}:{qual}", "cse() without symbols=", False, file=rel, func=qual, construct="cse default symbols",
                           msg="the CSE temporaries take sympy's default names x0, x1, ...: a model whose states / readings are called x0, x1, ... gets a temporary "
                               "and an output (or argument) of the same name", line=c.lineno)
            # the temporaries' names come from a stream created for this very call: a stream kept on the object / module continues
            # counting across emissions, so the same definition prints different names the second time
            for k in c.keywords:
                if k.arg == "symbols":
                    v = k.value
                    local_fresh = isinstance(v, (ast.GeneratorExp, ast.ListComp)) or \
                        (isinstance(v, ast.Call) and ast.unparse(v.func).split(".")[-1] in ("numbered_symbols", "iter", "count"))
                    if isinstance(v, ast.Name):
                        defs = [a.value for a in ast.walk(fn) if isinstance(a, ast.Assign) and any(isinstance(t, ast.Name) and t.id == v.id for t in a.targets)]
                        local_fresh = len(defs) == 1 and isinstance(defs[0], (ast.GeneratorExp, ast.Call))
                    ctx.oblige("TMP-4", f"{rel}:{qual}", f"cse(symbols={ast.unparse(v)[:50]})", local_fresh, file=rel, func=qual, construct="cse symbols stream",
                               msg=f"the names of the CSE temporaries are drawn from `{ast.unparse(v)[:60]}`, a stream that outlives this call: emitting the "
                                   f"same block again continues the numbering (_t0.. becomes _tN..)", line=c.lineno)
        if isinstance(c, ast.Call) and isinstance(c.func, ast.Name) and c.func.id in TRUSTED_KW:
            n += 1
            extra = [k.arg for k in c.keywords if k.arg not in TRUSTED_KW[c.func.id]]
            pos_ok = len(c.args) <= (2 if c.func.id in ("lambdify", "diff") else 1)
            ctx.oblige(rule, f"{rel}:{qual}", f"{c.func.id}({', '.join([ast.unparse(a) for a in c.args] + [k.arg + '=' for k in c.keywords])})",
                       not extra and pos_ok, file=rel, func=qual, construct=f"{c.func.id} options",
                       msg=f"{c.func.id}() is called with {('options ' + str(extra)) if extra else 'extra positional arguments'}: outside the "
                           f"value-preserving contract the trusted base assumes (line {c.lineno})", line=c.lineno)
            if c.func.id == "lambdify":
                for k in c.keywords:
                    if k.arg == "cse" and not (isinstance(k.value, ast.Constant) and k.value.value is False):
                        ctx.oblige(rule, f"{rel}:{qual}", "lambdify(cse=False)", False, file=rel, func=qual, construct="lambdify cse option",
                                   msg="lambdify is asked to run its own CSE (a second, unchecked temporaries protocol)", line=c.lineno)
    return n


def trust_imports(ctx: core.Ctx, mod: ast.Module, rel, names):
    """the trusted sympy entry points are sympy's own: imported from sympy and not re-bound / wrapped under the same name.
    A locally defined printer / simplifier may be correct, but its correctness is outside what this analysis can decide."""
    ctx.rule("TRUST-IMPORT", "cse / simplify / lambdify / ccode / diff used by the back-ends are the functions imported from sympy")
    imported = {}
    for s in mod.body:
        if isinstance(s, ast.ImportFrom) and s.module and s.module.split(".")[0] == "sympy":
            for a in s.names:
                imported[a.asname or a.name] = f"{s.module}.{a.name}"
    used = {x.id for x in ast.walk(mod) if isinstance(x, ast.Name) and isinstance(x.ctx, ast.Load)}
    for nm in names:
        if nm not in used and nm not in imported:
            continue                                  # the module does not use this entry point at all (e.g. Matrix.jacobian instead of diff)
        rebound = [s for s in mod.body if (isinstance(s, (ast.FunctionDef, ast.ClassDef)) and s.name == nm)
                   or (isinstance(s, ast.Assign) and any(isinstance(t, ast.Name) and t.id == nm for t in s.targets))]
        if nm not in imported:
            ctx.error(f"{rel}: `{nm}` is not imported from sympy (trusted base left: the correctness of a local `{nm}` cannot be decided statically)")
        elif rebound:
            ctx.error(f"{rel}: `{nm}` is imported from sympy but re-bound at line {rebound[0].lineno} (trusted base left: a local wrapper / printer "
                      f"replaces sympy's `{nm}`; its correctness cannot be decided statically)")
        else:
            ctx.oblige("TRUST-IMPORT", rel, f"{nm} = {imported[nm]}", True, file=rel, func="<module>", construct=f"import {nm}")
    # custom printer classes
    for c in mod.body:
        if isinstance(c, ast.ClassDef) and any("Printer" in ast.unparse(b) for b in c.bases):
            ctx.error(f"{rel}: class {c.name} customises a sympy code printer (line {c.lineno}): what it prints is outside the trusted base and "
                      f"cannot be decided statically")


def _through_siblings(ctx: core.Ctx, mod: ast.Module, cls: ast.ClassDef, names):
    """one-expression helpers of sibling modules (`common.eliminate(..)`) are read through in the block class (on a copy); the trusted sympy entry
    points they use must be sympy's own there as well"""
    import copy as _copy
    from . import normast as _nm
    cls = _copy.deepcopy(cls)
    used = _nm.expand_sibling_calls(cls, mod)
    # helpers of sibling modules with a longer straight-line body (`prefix, body = common.eliminate(body)`): inlined as statements
    full = _nm.class_resolver(mod, cls)

    def only_siblings(call):
        f = call.func if isinstance(call, ast.Call) else None
        if isinstance(f, ast.Attribute) and isinstance(f.value, ast.Name) and f.value.id in _nm.SIBLINGS and f.value.id not in ("self", "cls"):
            h = full(call)
            if h is not None:
                used.setdefault(f.value.id, set()).add(h.name)
            return h
        return None
    for i, m in enumerate(cls.body):
        if isinstance(m, ast.FunctionDef) and any(isinstance(c, ast.Call) and isinstance(c.func, ast.Attribute) and isinstance(c.func.value, ast.Name)
                                                   and c.func.value.id in _nm.SIBLINGS for c in ast.walk(m)):
            cls.body[i] = _nm.inline_only(m, only_siblings)
    for m in cls.body:
        if isinstance(m, ast.FunctionDef):
            _nm.unprecompute_lists(m)                 # PRECOMP-LIST: argument lists computed ahead of the loop that uses them
    for m, hs in sorted(used.items()):
        srel = f"py/formak/{m}.py"
        smod = ctx.parse(srel)
        called = {c.func.id for h in smod.body if isinstance(h, ast.FunctionDef) and h.name in hs for c in ast.walk(h)
                  if isinstance(c, ast.Call) and isinstance(c.func, ast.Name)}
        trust_imports(ctx, smod, srel, [n for n in names if n in called])
        for h in smod.body:
            if isinstance(h, ast.FunctionDef) and h.name in hs:
                ctx.functions.append(f"{m}.{h.name} (read through)")
    return cls


def check_python_block(ctx: core.Ctx, mod: ast.Module, rel="py/formak/python.py"):
    PRESTR["on"] = False
    trust_imports(ctx, mod, rel, ["cse", "simplify", "lambdify"])
    cls = core.need(core.find_class(mod, "BasicBlock"), "python.BasicBlock")
    cls = _through_siblings(ctx, mod, cls, ["cse", "simplify", "lambdify"])
    init = core.need(core.find_func(cls, "__init__"), "python.BasicBlock.__init__")
    comp = core.need(core.find_func(cls, "_compile"), "python.BasicBlock._compile")
    exe = core.need(core.find_func(cls, "execute"), "python.BasicBlock.execute")
    ctx.functions += ["python.BasicBlock.__init__", "python.BasicBlock._compile", "python.BasicBlock.execute"]
    # attribute roles from __init__: which attribute holds the arglist / statements / config parameter
    roles = {}
    for s in init.body:
        if isinstance(s, ast.Assign) and isinstance(s.targets[0], ast.Attribute) and isinstance(s.value, ast.Name):
            roles[s.targets[0].attr] = s.value.id
    inv = {v: k for k, v in roles.items()}
    for need in ("arglist", "statements", "config"):
        if need not in inv:
            raise core.AnalysisError(f"python.BasicBlock.__init__ does not store its `{need}` parameter in an attribute")
    base = {inv["arglist"]: ("ARGS",), inv["statements"]: ("EXPRS",), inv["config"]: ("CFG",)}
    qual = "BasicBlock._compile"
    Eval.helpers = {f.name: f for f in mod.body if isinstance(f, ast.FunctionDef) and len([s for s in f.body if not (isinstance(s, ast.Expr)
                    and isinstance(s.value, ast.Constant))]) == 1 and isinstance(f.body[-1], ast.Return)}
    n1 = 0
    flag_uses = set()
    Eval.methods = {m.name: m for m in cls.body if isinstance(m, ast.FunctionDef) and m.name not in ("__init__", "_compile", "execute")}
    from . import normast as _nm
    Eval.namedtuples = _nm.module_namedtuples(mod)
    inlined = set()
    for flag in (True, False):
        e = Eval(ctx, rel, qual, flag, base).run(comp)
        inlined |= e.inlined_methods
        for p in e.problems:
            ctx.error(f"{rel}:{qual}: {p}")
        flag_uses |= set(e.flag_uses)
        mods = {m for m, _ in e.lambdify_modules}
        okm = mods == {("CFGFIELD", "python_modules")}
        ctx.oblige("TMP-1", f"{rel}:{qual} [cse={'on' if flag else 'off'}]", f"every lambdify(modules=...) is the configured namespace: {sorted(map(show, mods))}", okm,
                   file=rel, func=qual, construct=f"lambdify modules cse={flag}",
                   msg=f"prefix and body callables are compiled against different / non-configured namespaces {sorted(map(show, mods))}: a function the "
                       f"user overrides in Config.python_modules is evaluated differently inside a shared sub-expression than outside", line=comp.lineno)
        P = ("CSE.P", ("EXPRS",)) if flag else ("EMPTY",)
        B = ("CSE.B", ("EXPRS",)) if flag else ("EXPRS",)
        # which attributes hold the two lists is inferred from what is stored, not from their names
        def has(t, head):
            return isinstance(t, tuple) and (bool(t) and t[0] == head or any(has(x, head) for x in t if isinstance(x, tuple)))
        if flag:
            lam = {k: v for k, v in e.attrs.items() if k not in base and has(v, "LAMBDIFY")}
            pre_attrs = [k for k, v in lam.items() if v[0] == "GEN" and v[2][0] == "TUPLE"]
            body_attrs = [k for k, v in lam.items() if k not in pre_attrs]
            if len(pre_attrs) == 1 and len(body_attrs) == 1:
                attr_roles = {"prefix": pre_attrs[0], "body": body_attrs[0]}
            elif "_prefix" in e.attrs or "_body" in e.attrs:
                attr_roles = {"prefix": "_prefix", "body": "_body"}
            else:
                ctx.error(f"{rel}:{qual}: cannot tell which attributes hold the temporaries' and the outputs' callables ({sorted(lam)})")
                attr_roles = {"prefix": "_prefix", "body": "_body"}
        pre = e.attrs.get(attr_roles["prefix"])
        body = e.attrs.get(attr_roles["body"])
        tag = f"[cse={'on' if flag else 'off'}]"
        where = f"{rel}:{qual} {tag}"
        if e.problems:
            continue                      # un-enumerated idiom: reported above as an analysis error, nothing is derived from a partial evaluation
        okp, whyp = _prefix_ok(pre, P)
        n1 += 1
        ctx.oblige("TMP-1", where, f"prefix = {show(pre) if pre else None}"[:300], okp, file=rel, func=qual, construct="prefix entry " + tag,
                   msg=f"prefix entry does not follow the protocol: {whyp}", line=comp.lineno)
        okb, whyb = _body_ok(body, P, B)
        n1 += 1
        ctx.oblige("TMP-1", where, f"body = {show(body) if body else None}"[:300], okb, file=rel, func=qual, construct="body entries " + tag,
                   msg=f"body callables do not follow the protocol: {whyb}", line=comp.lineno)
    ctx.floor("TMP-1", n1, 4, "prefix/body entry obligations of python.BasicBlock._compile (2 flag settings)")
    # ---- TMP-4: the flag only gates cse() and simplify()
    gated = _flag_gates(comp, "common_subexpression_elimination")
    for hn in sorted(inlined):
        gated += _flag_gates(Eval.methods[hn], "common_subexpression_elimination")
        trust_sig(ctx, rel, f"BasicBlock.{hn}", Eval.methods[hn])
        ctx.functions.append(f"python.BasicBlock.{hn} (inlined into _compile)")
    for what, okg, line in gated:
        ctx.oblige("TMP-4", f"{rel}:{qual}", f"CSE flag gates `{what}`", okg, file=rel, func=qual, construct="flag gates " + what[:60],
                   msg=f"the CSE flag also decides `{what}`: results may differ between the two settings", line=line)
    ctx.floor("TMP-4", len(gated), 1, "uses of the CSE flag in python.BasicBlock._compile")
    trust_sig(ctx, rel, qual, comp)
    # ---- TMP-2 execute
    check_execute(ctx, rel, exe, attr_roles)


PRESTR = {"on": False}


def _prefix_ok(pre, P):
    I = ("I",)
    if pre is None:
        return False, "self._prefix is never assigned"
    if P == ("EMPTY",):
        return (pre == ("EMPTY",)), f"without CSE the prefix list is {show(pre)}, not empty"
    if pre[0] != "GEN":
        return False, f"self._prefix = {show(pre)} is not one entry per cse replacement"
    dom, v = pre[1], pre[2]
    if dom != ("DOM", P):
        if dom[0] == "DOM":
            return False, f"the prefix entries are built over {show(dom[1])}, not over all of {show(P)} in their own order"
        return False, f"the prefix loop runs over {show(dom)}, not over all of {show(P)}"
    p_i = ("IDX", P, I)
    if v[0] != "TUPLE" or len(v) != 3:
        return False, f"entry is {show(v)}, not a (symbol, callable) pair"
    symt, lam = v[1], v[2]
    if symt == ("STR", ("ITEM", p_i, 0)):
        PRESTR["on"] = True                           # the name the temporaries dict is keyed by, computed once at compile time
        symt = ("ITEM", p_i, 0)
    if symt != ("ITEM", p_i, 0):
        return False, f"entry symbol is {show(symt)}, not the i-th replacement's own symbol"
    if lam[0] != "LAMBDIFY":
        return False, f"entry callable is {show(lam)}"
    formals, expr = lam[1], lam[2]
    Tl = ("MAPITEM", P, 0)
    want_formals = ("CONCAT", ("ARGS",), ("SLICE", Tl, None, I))
    if formals != want_formals:
        if formals == ("CONCAT", ("ARGS",), Tl):
            return False, "prefix i is compiled over ALL temporaries; execute() only has the earlier ones when it is called"
        return False, f"prefix i is compiled over {show(formals)}; required ARGS + T[:i] (exactly the earlier temporaries)"
    if _strip_simplify(expr) != ("ITEM", p_i, 1):
        return False, f"prefix i evaluates {show(expr)}, not the i-th replacement's own expression"
    return True, ""


def _body_ok(body, P, B):
    I = ("I",)
    if body is None:
        return False, "self._body is never assigned"
    if body[0] != "GEN":
        return False, f"self._body = {show(body)} is not one callable per (post-CSE) expression"
    dom, f = body[1], body[2]
    if dom != ("DOM", B):
        return False, f"body iterates {show(dom)}, expected {show(B)}"
    if f[0] != "LAMBDIFY":
        return False, f"body entries are {show(f)}"
    Tl = ("MAPITEM", P, 0)
    want = ("ARGS",) if P == ("EMPTY",) else ("CONCAT", ("ARGS",), Tl)
    got = f[1]
    if got != want:
        return False, f"body callables are compiled over {show(f[1])}; required ARGS + all temporaries"
    if _strip_simplify(f[2]) != ("IDX", B, I):
        return False, f"body callable evaluates {show(f[2])}, not its own expression"
    return True, ""


def _flag_gates(fn, flagname):
    """for each use of the flag: what does it decide?  accepted: a call of cse()/simplify() (If body or IfExp arm)"""
    out = []
    # local names that are plain copies of the flag (use_cse = self._config.common_subexpression_elimination)
    aliases = {flagname}
    for a in ast.walk(fn):
        if isinstance(a, ast.Assign) and len(a.targets) == 1 and isinstance(a.targets[0], ast.Name) and isinstance(a.value, ast.Attribute) \
                and a.value.attr == flagname:
            aliases.add(a.targets[0].id)
    for n in ast.walk(fn):
        test = None
        if isinstance(n, ast.If):
            test = n.test
            arms = n.body + n.orelse
        elif isinstance(n, ast.IfExp):
            test = n.test
            arms = [n.body, n.orelse]
        if test is None or not any((isinstance(x, ast.Name) and x.id in aliases) or (isinstance(x, ast.Attribute) and x.attr in aliases) for x in ast.walk(test)):
            continue
        ok = True
        what = []
        moves = []
        for a in arms:
            for sub in ([a] if isinstance(a, ast.expr) else [a]):
                txt = ast.unparse(sub)
                what.append(txt)
                calls = [c for c in ast.walk(sub) if isinstance(c, ast.Call)]
                names = {c.func.id for c in calls if isinstance(c.func, ast.Name)}
                if isinstance(sub, ast.expr):
                    # IfExp arm: either `simplify(x)` or plain `x`
                    if calls and not names <= {"simplify"}:
                        ok = False
                else:
                    if isinstance(sub, ast.Assign):
                        allowed = {"cse", "simplify", "Symbol", "count"}
                        if not calls:
                            moves.append(sub)          # plain data movement between locals (what an inlined helper's return leaves behind)
                        elif not names <= allowed or not (names & {"cse", "simplify"}):
                            ok = False
                    elif isinstance(sub, ast.Return) and sub.value is not None:
                        # in a helper: `if flag: return simplify(x)`, `if not flag: return [], exprs` / `return cse(...)`: what is returned in
                        # either setting is judged by TMP-1..3 on the evaluated result; here only: nothing but cse / simplify is called
                        if not names <= {"cse", "simplify", "Symbol", "count"}:
                            ok = False
                    else:
                        ok = False
        if moves and len(moves) == len([a for a in arms if not isinstance(a, ast.expr)]):
            ok = False                                   # the flag gates nothing but copies: no cse / simplify under it
        out.append(("; ".join(what)[:120], ok, n.lineno))
    return out


def check_execute(ctx, rel, exe: ast.FunctionDef, attr_roles=None):
    attr_roles = attr_roles or {"prefix": "_prefix", "body": "_body"}
    qual = "BasicBlock.execute"
    where = f"{rel}:{qual}"
    e = Eval(ctx, rel, qual, True, {attr_roles["prefix"]: ("PREFIX",), attr_roles["body"]: ("BODY",)})
    # parameters
    va = exe.args.vararg.arg if exe.args.vararg else None
    kwa = exe.args.kwarg.arg if exe.args.kwarg else None
    if va is None:
        ctx.error(f"{where}: execute has no *args parameter")
        return
    e.env[va] = ("VARARGS",)
    if kwa:
        e.env[kwa] = ("VARKW",)
    e.run(exe)
    for p in e.problems:
        ctx.error(f"{where}: {p}")
    n = 0
    # stores into the temporaries dict
    tdict = None
    for base, key, v, lctx in e.stores:
        n += 1
        ok, why = True, ""
        if not lctx or lctx[-1][0] != "FOR-EACH" or lctx[-1][1] != ("PREFIX",) or len(lctx) != 1:
            ok, why = False, f"temporaries are stored in a loop over {show(lctx[-1][1]) if lctx else 'nothing'}, not over the prefix list in order"
        else:
            el = ("IDX", ("PREFIX",), ("I", lctx[-1][2]))
            if key != (("ITEM", el, 0) if PRESTR["on"] else ("STR", ("ITEM", el, 0))):
                ok, why = False, f"value stored under {show(key)}, not under str(<its own symbol>)"
            elif v[0] != "APPLY" or v[1] != ("ITEM", el, 1):
                ok, why = False, f"stored value is {show(v)}, not the result of the entry's own callable"
            else:
                okc, why = _call_args_ok(v, base)
                ok = okc
        tdict = base
        ctx.oblige("TMP-2", where, f"temporaries[{show(key)}] = {show(v)}", ok, file=rel, func=qual, construct="temporary store",
                   msg=f"temporary evaluation does not follow the protocol: {why}", line=exe.lineno)
    ys = [y for y in e.yields if y[0] == "YIELD"]
    for y in ys:
        n += 1
        _, v, lctx = y
        ok, why = True, ""
        if not lctx or lctx[-1][0] != "FOR-EACH" or lctx[-1][1] != ("BODY",) or len(lctx) != 1:
            ok, why = False, f"results are yielded from a loop over {show(lctx[-1][1]) if lctx else 'nothing'}, not over the body callables in order"
        else:
            el = ("IDX", ("BODY",), ("I", lctx[-1][2]))
            if v is None or v[0] != "APPLY" or v[1] != el:
                ok, why = False, f"yielded value is {show(v)}, not the result of the body callable"
            elif tdict is None:
                ok, why = False, "no temporaries were evaluated before the body"
            else:
                ok, why = _call_args_ok(v, tdict)
        ctx.oblige("TMP-2", where, f"yield {show(v)}", ok, file=rel, func=qual, construct="body yield",
                   msg=f"body evaluation does not follow the protocol: {why}", line=exe.lineno)
    # order: prefix loop precedes body loop
    loops = [s for s in exe.body if isinstance(s, ast.For)]
    order_ok = len(loops) >= 2 and attr_roles["prefix"] in ast.unparse(loops[0].iter) and attr_roles["body"] in ast.unparse(loops[-1].iter)
    ctx.oblige("TMP-2", where, "prefix loop precedes body loop", order_ok, file=rel, func=qual, construct="loop order",
               msg="the temporaries are not all evaluated before the first body callable runs", line=exe.lineno)
    ctx.floor("TMP-2", n, 2, "temporary store + body yield in python.BasicBlock.execute")


def _call_args_ok(v, tdict):
    _, callee, args, kws = v
    if ("STAR", ("VARARGS",)) not in args:
        return False, "the positional arguments are not passed through (*args)"
    if len(args) != 1:
        return False, f"extra positional arguments {show(list(args))}"
    kwd = [k for k in kws if k[1] is None]
    if ("KW", None, tdict) not in kws:
        return False, "the temporaries evaluated so far are not passed by keyword (**temporaries)"
    extra = [k for k in kws if k[1] is not None]
    if extra:
        return False, f"extra keyword arguments {show(extra)}"
    return True, ""


# ------------------------------------------------------------------------------------------ cpp.BasicBlock
def check_cpp_block(ctx: core.Ctx, mod: ast.Module, rel="py/formak/cpp.py"):
    trust_imports(ctx, mod, rel, ["cse", "simplify", "ccode", "diff"])
    cls = core.need(core.find_class(mod, "BasicBlock"), "cpp.BasicBlock")
    cls = _through_siblings(ctx, mod, cls, ["cse", "simplify", "ccode", "diff"])
    init = core.need(core.find_func(cls, "__init__"), "cpp.BasicBlock.__init__")
    comp = core.need(core.find_func(cls, "compile"), "cpp.BasicBlock.compile")
    ctx.functions += ["cpp.BasicBlock.__init__", "cpp.BasicBlock.compile"]
    qual = "BasicBlock.compile"
    # __init__: targets and exprs are the two components of ONE statements list, in the same order
    e0 = Eval(ctx, rel, "BasicBlock.__init__", True, {})
    for a in init.args.args + init.args.kwonlyargs:
        e0.env[a.arg] = ("PARAM", a.arg)
    e0.run(init)
    tg, ex = e0.attrs.get("_targets"), e0.attrs.get("_exprs")
    ok = tg is not None and ex is not None and tg[0] == "MAPITEM" and ex[0] == "MAPITEM" and tg[1] == ex[1] and tg[2] == 0 and ex[2] == 1 \
        and tg[1] in (("PARAM", "statements"),)
    ctx.oblige("TMP-3", f"{rel}:BasicBlock.__init__", f"_targets = {show(tg) if tg else None}; _exprs = {show(ex) if ex else None}", ok, file=rel,
               func="BasicBlock.__init__", construct="targets/exprs split",
               msg="targets and expressions are not the first/second components of the same statements list in the same order",
               line=init.lineno)
    cfgattr = next((k for k, v in e0.attrs.items() if v == ("PARAM", "config")), "_config")
    n = 0
    Eval.methods = {m.name: m for m in cls.body if isinstance(m, ast.FunctionDef) and m.name not in ("__init__", "compile")}
    from . import normast as _nm
    Eval.namedtuples = _nm.module_namedtuples(mod)
    inlined = set()
    order_ok = True
    for flag in (True, False):
        e = Eval(ctx, rel, qual, flag, {"_targets": ("TARGETS",), "_exprs": ("EXPRS",), cfgattr: ("CFG",)}).run(comp)
        inlined |= e.inlined_methods
        for p in e.problems:
            ctx.error(f"{rel}:{qual}: {p}")
        P = ("CSE.P", ("EXPRS",)) if flag else ("EMPTY",)
        B = ("CSE.B", ("EXPRS",)) if flag else ("EXPRS",)
        tag = f"[cse={'on' if flag else 'off'}]"
        where = f"{rel}:{qual} {tag}"
        ys = [y for y in e.yields if y[0] == "YIELD"]
        pre = [y for y in ys if y[2] and y[2][-1][0] == "FOR-EACH" and _src_root(y[2][-1][1]) == "P"]
        tgt = [y for y in ys if y not in pre]
        # order of emission (result based): every temporary's declaration site precedes the first target's
        if pre and tgt and max(ys.index(y) for y in pre) > min(ys.index(y) for y in tgt):
            order_ok = False
        # prefix yields
        if flag:
            okp = len(pre) == 1
            why = ""
            if not okp:
                why = f"{len(pre)} yield(s) inside a loop over the cse replacements; required exactly one (every temporary is declared once)"
            else:
                _, v, lctx = pre[0]
                loop = lctx[-1]
                el = ("IDX", loop[1], ("I", loop[2]))
                if loop[1] != P:
                    okp, why = False, f"the temporaries loop iterates {show(loop[1])}, not the cse replacement list itself in its own order"
                elif v is None or v[0] != "MEMBER" or len(v) != 4:
                    okp, why = False, f"temporary is emitted as {show(v)}"
                elif v[1] != ("CONST", "'double'"):
                    okp, why = False, f"temporary declared with type {show(v[1])}"
                elif v[2] != ("ITEM", el, 0):
                    okp, why = False, f"declared name is {show(v[2])}, not the replacement's own symbol"
                elif not (v[3][0] == "CCODE" and _strip_simplify(v[3][1]) == ("ITEM", el, 1)):
                    okp, why = False, f"declared value is {show(v[3])}, not ccode of the replacement's own expression"
            n += 1
            ctx.oblige("TMP-3", where, f"prefix yield(s): {[show(y[1]) for y in pre]}", okp, file=rel, func=qual, construct="prefix declarations " + tag,
                       msg=f"temporaries are not declared per the protocol: {why}", line=comp.lineno)
        # target yields
        okt, why = len(tgt) == 1, ""
        if not okt:
            why = f"{len(tgt)} target yield site(s)"
        else:
            _, v, lctx = tgt[0]
            if not lctx or lctx[-1][0] != "FOR-EACH":
                okt, why = False, "targets are not yielded from a loop"
            else:
                loop = lctx[-1]
                Iz = ("I", loop[2])
                if loop[1] != ("ZIP", ("TARGETS",), B):
                    okt, why = False, f"targets loop iterates {show(loop[1])}; required zip(targets, post-CSE expressions) in order"
                elif v is None or v[0] != "MEMBER" or len(v) != 4 or v[2] != ("IDX", ("TARGETS",), Iz) or \
                        not (v[3][0] == "CCODE" and _strip_simplify(v[3][1]) == ("IDX", B, Iz)):
                    okt, why = False, f"target is emitted as {show(v)}; required `<target> = ccode(<its own expression>)`"
        n += 1
        ctx.oblige("TMP-3", where, f"target yield(s): {[show(y[1]) for y in tgt]}", okt, file=rel, func=qual, construct="target assignments " + tag,
                   msg=f"targets are not assigned per the protocol: {why}", line=comp.lineno)
    # order: the prefix loop statement precedes the target loop statement
    ctx.oblige("TMP-3", f"{rel}:{qual}", "temporaries are emitted before the first target", order_ok, file=rel, func=qual, construct="emit order",
               msg="the loop emitting temporaries does not precede the loop emitting targets (use before definition in the generated C++)",
               line=comp.lineno)
    gated = _flag_gates(comp, "common_subexpression_elimination")
    for hn in sorted(inlined):
        gated += _flag_gates(Eval.methods[hn], "common_subexpression_elimination")
        trust_sig(ctx, rel, f"BasicBlock.{hn}", Eval.methods[hn])
        ctx.functions.append(f"cpp.BasicBlock.{hn} (inlined into compile)")
    for what, okg, line in gated:
        ctx.oblige("TMP-4", f"{rel}:{qual}", f"CSE flag gates `{what}`", okg, file=rel, func=qual, construct="flag gates " + what[:60],
                   msg=f"the CSE flag also decides `{what}`", line=line)
    ctx.floor("TMP-3", n, 3, "prefix/target obligations of cpp.BasicBlock.compile")
    ctx.floor("TMP-4c", len(gated), 1, "uses of the CSE flag in cpp.BasicBlock.compile")
    trust_sig(ctx, rel, qual, comp)


def _src_root(t):
    while isinstance(t, tuple) and t and t[0] in ("REORDER",):
        t = t[2]
    if isinstance(t, tuple) and t and t[0] in ("CSE.P", "EMPTY"):
        return "P"
    return None
