"""E2: abstract interpreter over the layout / binding domain (DESIGN.md section 2).

Evaluates the repo's own Python source (parsed with `ast`, never imported) on abstract values:
which *role* (STATE / CONTROL / CALIB / READ(k) / DT) indexes each axis of each sequence and array,
in which order, and (E3) the non-commutative normal form of matrix expressions.  Obligations are
recorded at sinks (execute() calls, zips, slot stores, un-flatten nests, matrix products, ...).
"""
from __future__ import annotations

import ast
import copy
import itertools
import os
from dataclasses import dataclass, field
from typing import Any, Dict, List, Optional

from .values import *  # noqa
from .matform import MatForm, Scalar

REPO = os.environ.get("FV_REPO", "/repo")
PKG = "py/formak"


@dataclass
class Finding:
    rule: str
    where: str
    msg: str
    file: str = ""
    func: str = ""
    construct: str = ""
    line: Optional[int] = None
    stack: tuple = ()

    def key(self):
        return (self.rule, self.file, self.func, self.construct)

    def __str__(self):
        return f"[{self.rule}] {self.where}: {self.msg}"


@dataclass
class Obligation:
    rule: str
    where: str
    fact: str
    ok: bool
    file: str = ""
    func: str = ""
    line: Optional[int] = None
    data: Any = None
    stack: tuple = ()


class Join(V):
    def __init__(self, alts):
        self.alts = tuple(alts)

    def __repr__(self):
        return "Join(" + " | ".join(map(repr, self.alts)) + ")"


def join(a, b):
    if a is b:
        return a
    try:
        if a == b:
            return a
    except Exception:
        pass
    alts = []
    for v in (a, b):
        if isinstance(v, Join):
            alts.extend(v.alts)
        else:
            alts.append(v)
    # optimistic: drop None-constants and unknowns when something known exists
    known = [v for v in alts if not isinstance(v, Unknown) and not (isinstance(v, Const) and v.value is None)]
    if known:
        alts = known
    # the empty list is the zero-size instance of any sequence alternative
    if len(alts) > 1:
        nonempty = [v for v in alts if not (isinstance(v, SeqV) and v.layout.segs == ())]
        if nonempty:
            alts = nonempty
    out = []
    for v in alts:
        if not any(_same(v, w) for w in out):
            out.append(v)
    if len(out) == 1:
        return out[0]
    return Join(out)


def _same(a, b):
    try:
        return a is b or a == b
    except Exception:
        return False


class Env:
    def __init__(self, module, func="<module>", cls=None, self_obj=None):
        self.vars: Dict[str, Any] = {}
        self.module = module
        self.func = func
        self.cls = cls
        self.self_obj = self_obj
        self.returns: List[Any] = []
        self.yields: List[Any] = []
        self.path: List[Any] = []            # enclosing branch conditions: (ast test, polarity, evaluated value)
        self.return_paths: List[Any] = []

    def fork(self):
        e = Env(self.module, self.func, self.cls, self.self_obj)
        e.vars = dict(self.vars)
        e.returns = self.returns
        e.yields = self.yields
        e.path = list(self.path)
        e.return_paths = self.return_paths
        return e

    def merge(self, a: "Env", b: "Env"):
        keys = set(a.vars) | set(b.vars)
        for k in keys:
            va = a.vars.get(k, Unknown("unbound"))
            vb = b.vars.get(k, Unknown("unbound"))
            self.vars[k] = join(va, vb)


class Program:
    def __init__(self, repo=REPO):
        self.repo = repo
        self.modules: Dict[str, ast.Module] = {}
        self.funcs: Dict[str, Dict[str, ast.FunctionDef]] = {}
        self.classes: Dict[str, Dict[str, ast.ClassDef]] = {}
        self.paths: Dict[str, str] = {}
        self.assigns: Dict[str, Dict[str, ast.expr]] = {}
        self.sources: Dict[str, str] = {}
        for name in ["python", "common", "cpp", "ast_fragments", "runtime", "ui_model"]:
            path = os.path.join(repo, PKG, name + ".py")
            src = open(path).read()
            tree = ast.parse(src, filename=path)
            if os.environ.get("FV_CANON", "1") != "0":
                from . import normast
                normast.canon_module(tree)
            self.modules[name] = tree
            try:
                from . import normast as _nm
                _nm.SIBLINGS[name] = tree
            except Exception:
                pass
            self.sources[name] = src
            self.paths[name] = os.path.relpath(path, repo)
            self.funcs[name] = {n.name: n for n in tree.body if isinstance(n, ast.FunctionDef)}
            self.classes[name] = {n.name: n for n in tree.body if isinstance(n, ast.ClassDef)}
            self.assigns[name] = {}
            for n in tree.body:
                if isinstance(n, ast.Assign) and len(n.targets) == 1 and isinstance(n.targets[0], ast.Name):
                    self.assigns[name][n.targets[0].id] = n.value
            # names imported from sibling modules: `from formak.common import helper [as h]` / `from formak import common [as c]`
            self.imports = getattr(self, "imports", {})
            self.imports[name] = {}
            for n in tree.body:
                if isinstance(n, ast.ImportFrom) and n.module and n.module.split(".")[0] == "formak":
                    parts = n.module.split(".")
                    for a in n.names:
                        local = a.asname or a.name
                        if len(parts) == 1:
                            self.imports[name][local] = ("module", a.name)
                        else:
                            self.imports[name][local] = ("name", parts[-1], a.name)

    def method(self, module, cls, name) -> Optional[ast.FunctionDef]:
        c = self.classes[module].get(cls)
        if c is None:
            return None
        for n in c.body:
            if isinstance(n, ast.FunctionDef) and n.name == name:
                return n
        return None


NP_NAMES = {"np", "numpy"}


def fT(a):
    return a.form.T() if getattr(a, "form", None) is not None else None


def fbin(op, a, b):
    fa, fb = getattr(a, "form", None), getattr(b, "form", None)
    if fa is None or fb is None:
        return None
    if op == "@":
        return fa * fb
    if op == "+":
        return fa + fb
    if op == "-":
        return fa - fb
    return None


class Interp:
    def __init__(self, prog: Program):
        self.p = prog
        self.findings: List[Finding] = []
        self.obligations: List[Obligation] = []
        self.loop_ids = itertools.count(1)
        self.depth = 0
        self.notes: List[str] = []
        self.undecided_sites: List[Any] = []
        self.calls: List[Any] = []          # (callee qualified name, arg values, where) for repo-method calls
        self.divmods: Dict[int, Any] = {}   # loop id of an enumerate(flat) -> (row, stride, col) produced by divmod(position, stride)
        self.modenv: Dict[str, Env] = {}
        self.opaque: Dict[str, str] = {}     # qualified method name -> atom name given to its (array) result
        self.events: List[Any] = []          # stores to attributes / attribute containers and returns, in evaluation order
        self._last_test = None
        self.subs_sites: List[Any] = []
        self.stack: List[str] = []           # qualified names of the functions being evaluated (callers first)
        self.sitepaths: List[Any] = []       # per frame: the caller's branch conditions at the call site
        self.iterations: List[Any] = []      # every evaluated for / comprehension: dict(file, func, line, kind, node, source value)

    # ------------------------------------------------------------------ utils
    def where(self, env: Env, node) -> str:
        q = f"{env.cls}.{env.func}" if env.cls else env.func
        return f"{self.p.paths.get(env.module, env.module)}:{q}:{getattr(node, 'lineno', '?')}"

    def _loc(self, env, node):
        q = f"{env.cls}.{env.func}" if env.cls else env.func
        try:
            construct = ast.unparse(node)
        except Exception:
            construct = type(node).__name__
        construct = " ".join(construct.split())[:160]
        return self.p.paths.get(env.module, env.module), q, construct, getattr(node, "lineno", None)

    def report(self, rule, env, node, msg):
        file, q, construct, line = self._loc(env, node)
        f = Finding(rule, self.where(env, node), msg, file, q, construct, line, tuple(self.stack))
        if not any(g.key() == f.key() for g in self.findings):
            self.findings.append(f)

    def oblige(self, rule, env, node, fact, ok, msg="", data=None):
        file, q, construct, line = self._loc(env, node)
        self.obligations.append(Obligation(rule, self.where(env, node), fact, ok, file, q, line, data, tuple(self.stack)))
        if not ok:
            self.report(rule, env, node, msg or fact)

    def undecided(self, rule, env, node, why):
        """an obligation site whose operands could not be evaluated (=> ANALYSIS-ERROR if required)"""
        self.undecided_sites.append((rule, self.where(env, node), why))

    # ------------------------------------------------------------- statements
    def ex_block(self, stmts, env: Env):
        for s in stmts:
            self.ex(s, env)

    def ex(self, s, env: Env):
        m = getattr(self, "ex_" + type(s).__name__, None)
        if m is None:
            return
        return m(s, env)

    def ex_Expr(self, s, env):
        if isinstance(s.value, (ast.Yield, ast.YieldFrom)):
            self.ev(s.value, env)
        else:
            self.ev(s.value, env)

    def ex_Assign(self, s, env):
        v = self.ev(s.value, env)
        for t in s.targets:
            self.assign(t, v, env, s)

    def ex_AnnAssign(self, s, env):
        if s.value is not None:
            self.assign(s.target, self.ev(s.value, env), env, s)

    def ex_AugAssign(self, s, env):
        cur = self.ev(s.target, env)
        v = self.binop(s.op, cur, self.ev(s.value, env), env, s)
        self.assign(s.target, v, env, s)

    def assign(self, target, v, env: Env, stmt):
        if isinstance(target, ast.Name):
            env.vars[target.id] = v
        elif isinstance(target, (ast.Tuple, ast.List)):
            items = self.destructure(v, len(target.elts))
            for t, it in zip(target.elts, items):
                self.assign(t, it, env, stmt)
        elif isinstance(target, ast.Attribute):
            obj = self.ev(target.value, env)
            if isinstance(obj, ObjV):
                obj.attrs[target.attr] = v
            self.events.append({"kind": "store", "func": (f"{env.cls}.{env.func}" if env.cls else env.func),
                                "target": ast.unparse(target), "value": v, "path": list(env.path),
                                "seq": len(self.events), "line": getattr(stmt, "lineno", None),
                                "stack": tuple(self.stack), "sitepaths": tuple(tuple(x) for x in self.sitepaths)})
        elif isinstance(target, ast.Subscript):
            obj = self.ev(target.value, env)
            self.store_subscript(obj, target, v, env, stmt)
            if isinstance(target.value, ast.Attribute):
                self.events.append({"kind": "store", "func": (f"{env.cls}.{env.func}" if env.cls else env.func),
                                    "target": ast.unparse(target), "value": v, "path": list(env.path),
                                    "seq": len(self.events), "line": getattr(stmt, "lineno", None),
                                "stack": tuple(self.stack), "sitepaths": tuple(tuple(x) for x in self.sitepaths)})

    def destructure(self, v, n):
        if isinstance(v, TupleV) and len(v.items) == n:
            return list(v.items)
        if isinstance(v, Join):
            cols = [self.destructure(a, n) for a in v.alts]
            out = []
            for i in range(n):
                acc = cols[0][i]
                for c in cols[1:]:
                    acc = join(acc, c[i])
                out.append(acc)
            return out
        return [Unknown("destructure")] * n

    def store_subscript(self, obj, target, v, env, stmt):
        idx = target.slice
        if isinstance(obj, ArrV):
            try:
                obj.touched = True
            except Exception:
                pass
            if isinstance(idx, ast.Tuple) and len(idx.elts) == 2:
                r = self.ev(idx.elts[0], env)
                c = self.ev(idx.elts[1], env)
            else:
                key = self.ev(idx, env)
                if not (isinstance(key, TupleV) and len(key.items) == 2):
                    return
                r, c = key.items
            if isinstance(v, tuple) and v and v[0] == "FLATELEM":
                # the entry at flat position k, stored at divmod(k, C): the same as flat[row*C + col]
                dm = self.divmods.get(v[2])
                if dm is not None and dm[0] == r and dm[2] == c:
                    v = ("FLATREAD", v[1], LinIdx(dm[0], dm[1], dm[2]))
            self.array_store(obj, r, c, v, env, stmt)
            return
        if isinstance(obj, ObjV) and obj.cls == "dict":
            key = self.ev(idx, env)
            if isinstance(key, ElemV) and isinstance(key.layout, Layout):
                # d[str(name)] = value inside a loop over a layout-typed sequence: a keyword map over that layout
                prev = obj.attrs.get("__kwlayout__")
                obj.attrs["__kwlayout__"] = key.layout if prev in (None, key.layout) else Unknown("mixed keyword layouts")
            # dict keyed by a sensor key -> family
            obj.attrs["__fam__"] = join(obj.attrs["__fam__"], v) if "__fam__" in obj.attrs else v
            return

    def array_store(self, arr: ArrV, r, c, v, env, stmt):
        """arr[r, c] = v  — slot / un-flatten obligations; refines arr's axis layouts."""
        # un-flatten: v came from flat[row*S+col]
        if isinstance(v, tuple) and v and v[0] == "FLATREAD":
            _, flat, lin = v
            self.check_unflatten(arr, r, c, flat, lin, env, stmt)
            return
        if isinstance(r, IdxV) and isinstance(r.layout, Layout):
            ok = r.offset == 0
            self.oblige("LAY-SLOT", env, stmt, f"row index enumerates {r.layout}", ok,
                        f"row index has offset {r.offset} relative to its enumeration")
            self.refine_axis(arr, "rows", r.layout, env, stmt)
        if isinstance(c, IdxV) and isinstance(c.layout, Layout):
            ok = c.offset == 0
            self.oblige("LAY-SLOT", env, stmt, f"col index enumerates {c.layout}", ok,
                        f"col index has offset {c.offset}")
            self.refine_axis(arr, "cols", c.layout, env, stmt)

    def refine_axis(self, arr: ArrV, axis, layout: Layout, env, stmt):
        cur = getattr(arr, axis)
        if isinstance(cur, Dim):
            if isinstance(cur.size, SizeV):
                ok = cur.size == layout.size()
                self.oblige("LAY-SLOT", env, stmt, f"{axis} size {cur.size} == |{layout}|", ok,
                            f"array {axis} allocated with size {cur.size} but indexed by an enumeration of {layout} (size {layout.size()})")
            setattr(arr, axis, layout)
        elif isinstance(cur, Layout) and cur != ONE:
            ok = cur == layout
            self.oblige("LAY-SLOT", env, stmt, f"{axis} layout {cur} == {layout}", ok,
                        f"array {axis} layout {cur} indexed by enumeration of {layout}")

    def check_unflatten(self, arr: ArrV, r, c, flat: FlatV, lin: LinIdx, env, stmt):
        ncols = flat.cols.size()
        nrows = flat.rows.size()
        same_idx = isinstance(r, IdxV) and isinstance(c, IdxV) and r.loop == lin.row.loop and c.loop == lin.col.loop
        if not same_idx:
            swapped = isinstance(r, IdxV) and isinstance(c, IdxV) and r.loop == lin.col.loop and c.loop == lin.row.loop
            self.oblige("LAY-FLAT", env, stmt, "store indices are the loop indices of the flat index", False,
                        "out[row, col] is stored with the loop indices swapped relative to flat[row*S+col]" if swapped
                        else "store indices are not the loop indices used in the flat index")
            return
        stride = lin.stride
        ok = isinstance(stride, SizeV) and stride == ncols
        self.oblige("LAY-FLAT", env, stmt, f"stride {stride} == ncols(Flat)={ncols}", ok,
                    f"un-flatten stride is {stride} but the flattened Jacobian {flat.rows} x {flat.cols} has {ncols} columns per row")
        rsize = lin.row.layout.size if isinstance(lin.row.layout, Dim) else None
        csize = lin.col.layout.size if isinstance(lin.col.layout, Dim) else None
        okr = rsize == nrows
        self.oblige("LAY-FLAT", env, stmt, f"row range {rsize} == nrows(Flat)={nrows}", okr,
                    f"row loop covers {rsize} rows, the flattened Jacobian has {nrows}")
        pref = layout_prefix(flat.cols, csize)
        okc = pref is not None
        self.oblige("LAY-FLAT", env, stmt, f"col range {csize} is a segment prefix of {flat.cols}", okc,
                    f"column loop covers {csize} columns, which is not a whole-segment prefix of {flat.cols}")
        arr.rows = flat.rows
        arr.cols = pref if pref is not None else Unknown("cols")

    def ex_If(self, s, env: Env):
        self._last_test = self.ev(s.test, env)
        t = s.test
        if isinstance(t, ast.Compare) and len(t.ops) == 1 and isinstance(t.ops[0], (ast.Is, ast.IsNot)) \
                and isinstance(t.comparators[0], ast.Constant) and t.comparators[0].value is None and isinstance(t.left, ast.Name):
            v = env.vars.get(t.left.id)
            opaque = isinstance(v, Const) and isinstance(v.value, tuple) and v.value[:1] == ("config",)     # a user setting: may be None
            if v is not None and not isinstance(v, (Unknown, Join)) and not opaque:
                is_none = isinstance(v, Const) and v.value is None
                take_body = is_none if isinstance(t.ops[0], ast.Is) else not is_none
                self.ex_block(s.body if take_body else s.orelse, env)
                return
        tv = self.ev(s.test, env) if False else self._last_test
        a = env.fork()
        b = env.fork()
        a.path.append((s.test, True, tv))
        b.path.append((s.test, False, tv))
        self.refine(s.test, a, True)
        self.refine(s.test, b, False)
        self.ex_block(s.body, a)
        self.ex_block(s.orelse, b)
        ta = terminates(s.body)
        tb = terminates(s.orelse) if s.orelse else False
        if ta and not tb:
            env.vars = b.vars
        elif tb and not ta:
            env.vars = a.vars
        else:
            env.merge(a, b)

    def refine(self, test, env, truth):
        """`idx < n` known on this path (from `if idx >= n: continue` or `if idx < n:`): an index over a dimension is an index over its first n
        positions"""
        if not (isinstance(test, ast.Compare) and len(test.ops) == 1):
            return
        l, r, op = test.left, test.comparators[0], test.ops[0]
        below = None
        if isinstance(l, ast.Name) and ((isinstance(op, ast.Lt) and truth) or (isinstance(op, ast.GtE) and not truth)):
            below = (l.id, r)
        elif isinstance(r, ast.Name) and ((isinstance(op, ast.Gt) and truth) or (isinstance(op, ast.LtE) and not truth)):
            below = (r.id, l)
        if below is None:
            return
        cur = env.vars.get(below[0])
        if not (isinstance(cur, IdxV) and isinstance(cur.layout, Dim)):
            return
        bound = self.ev(below[1], env)
        if isinstance(bound, Const) and isinstance(bound.value, int):
            bound = SizeV.const(bound.value)
        if not isinstance(bound, SizeV):
            return
        new = IdxV(cur.loop, Dim(bound), cur.offset)
        env.vars[below[0]] = new
        for k, dm in list(self.divmods.items()):
            if dm[2] == cur:
                self.divmods[k] = (dm[0], dm[1], new)

    def ex_Assert(self, s, env: Env):
        t = s.test
        if isinstance(t, ast.Call) and isinstance(t.func, ast.Name) and t.func.id == "isinstance" and len(t.args) == 2:
            if isinstance(t.args[0], ast.Name):
                cls = self.ev(t.args[1], env)
                if isinstance(cls, NCls):
                    cur = env.vars.get(t.args[0].id)
                    if isinstance(cur, NInst) and cur.cls == cls:
                        pass  # keep the provenance of an already-typed value
                    else:
                        env.vars[t.args[0].id] = NInst(cls, origin=f"param:{t.args[0].id}")
                elif isinstance(cls, Const) and cls.value is float and t.args[0].id == "dt":
                    env.vars["dt"] = SymV("DT")
            return
        self.ev(t, env)

    def ex_Try(self, s, env: Env):
        self.ex_block(s.body, env)
        for h in s.handlers:
            e2 = env.fork()
            self.ex_block(h.body, e2)
        self.ex_block(s.orelse, env)
        self.ex_block(s.finalbody, env)

    def ex_With(self, s, env):
        self.ex_block(s.body, env)

    def ex_Return(self, s, env: Env):
        v = self.ev(s.value, env) if s.value is not None else Const(None)
        env.returns.append(v)
        env.return_paths.append(list(env.path))
        self.events.append({"kind": "return", "func": (f"{env.cls}.{env.func}" if env.cls else env.func), "value": v,
                            "path": list(env.path), "seq": len(self.events), "line": s.lineno,
                            "stack": tuple(self.stack), "sitepaths": tuple(tuple(x) for x in self.sitepaths)})

    def ex_Raise(self, s, env):
        return

    def record_iter(self, kind, node, iter_node, it, env, sinkinfo=None):
        file, q, construct, line = self._loc(env, iter_node)
        self.iterations.append({"file": file, "func": q, "line": line, "kind": kind, "node": node, "iter": construct,
                                "source": it, "sink": sinkinfo, "stack": tuple(self.stack)})

    def ex_For(self, s, env: Env):
        it = self.ev(s.iter, env)
        self.record_iter("for", s, s.iter, it, env)
        lid = next(self.loop_ids)
        elem = self.iter_elem(it, lid, env, s)
        self.assign(s.target, elem, env, s)
        self.ex_block(s.body, env)
        self.ex_block(s.orelse, env)

    def ex_While(self, s, env):
        self.ex_block(s.body, env)

    def ex_FunctionDef(self, s, env: Env):
        env.vars[s.name] = FuncV(s, env.module, env.self_obj, env.cls)

    def ex_ClassDef(self, s, env):
        env.vars[s.name] = Unknown("local class")

    # ------------------------------------------------------------ iteration
    def iter_elem(self, it, lid, env, node):
        """abstract element produced by iterating `it` once."""
        it = unwrap_elem(it)
        if isinstance(it, Join):
            acc = None
            for a in it.alts:
                e = self.iter_elem(a, lid, env, node)
                acc = e if acc is None else join(acc, e)
            return acc
        if isinstance(it, SeqV):
            return self.seq_elem(it, lid)
        if isinstance(it, tuple) and it and it[0] == "ENUM" and isinstance(unwrap_elem(it[1]), FlatV) and it[2] == 0:
            # for k, v in enumerate(flat): k is the flat position, v the entry there (divmod(k, C) recovers row and column)
            flat = unwrap_elem(it[1])
            return TupleV((("FLATIDX", lid, flat), ("FLATELEM", flat, lid)))
        if isinstance(it, tuple) and it and it[0] == "ENUM":
            inner = it[1]
            start = it[2]
            e = self.iter_elem(inner, lid, env, node)
            lay = self.layout_of_iter(inner)
            return TupleV((IdxV(lid, lay if lay is not None else Unknown("enum"), start), e))
        if isinstance(it, tuple) and it and it[0] == "RANGE":
            return IdxV(lid, Dim(it[1]))
        if isinstance(it, tuple) and it and it[0] == "PRODUCTGEN":
            # product(A, B, ...): nested loops, the last factor innermost; every factor has its own loop
            items = []
            for k_, fac in enumerate(it[1]):
                items.append(self.iter_elem(fac, lid if k_ == 0 else next(self.loop_ids), env, node))
            return TupleV(tuple(items))
        if isinstance(it, tuple) and it and it[0] == "PRODUCT":
            # for row, col in product(range(R), range(C)): the nested row-major loops
            return TupleV((IdxV(lid, Dim(it[1])), IdxV(next(self.loop_ids), Dim(it[2]))))
        if isinstance(it, tuple) and it and it[0] == "ZIPFLAT":
            row, col = IdxV(lid, Dim(it[1])), IdxV(next(self.loop_ids), Dim(it[2]))
            return TupleV((TupleV((row, col)), ("FLATREAD", it[3], LinIdx(row, it[2], col))))
        if isinstance(it, tuple) and it and it[0] == "FLATROW":
            _, flat, row, stride, width = it
            col = IdxV(lid, Dim(width))
            return ("FLATREAD", flat, LinIdx(row, stride, col))
        if isinstance(it, tuple) and it and it[0] == "ITEMS":
            return self.items_elem(it[1], lid)
        if isinstance(it, tuple) and it and it[0] == "KEYS":
            src = it[1]
            if isinstance(src, MapV):
                return SymV(src.keyrole)
            return SymV("SENSOR")
        if isinstance(it, tuple) and it and it[0] == "VALUES":
            src = it[1]
            return self.map_value(src)
        if isinstance(it, FamV):
            return SymV("SENSOR")
        if isinstance(it, MapV):
            return SymV(it.keyrole)
        if isinstance(it, (CollV, UnordSeqV)):
            return SymV(it.role)
        if isinstance(it, NInst):
            return ElemV(lid, it.cls.layout, "value")
        if isinstance(it, ArrV) and isinstance(it.rows, Layout):
            return ElemV(lid, it.rows, "row")
        if isinstance(it, (FlatV, SymMatV)):
            return ElemV(lid, Layout(()), "flat")
        return Unknown("iter")

    def layout_of_iter(self, it):
        if isinstance(it, SeqV):
            return it.layout
        if isinstance(it, NInst):
            return it.cls.layout
        if isinstance(it, tuple) and it and it[0] == "ZIP":
            return it[1]
        if isinstance(it, tuple) and it and it[0] == "GEN":
            return self.layout_of_iter(it[1])
        if isinstance(it, UnordSeqV):
            return Layout((("UNORD", it.role),))
        if isinstance(it, Join):
            ls = [self.layout_of_iter(a) for a in it.alts]
            if ls and all(l == ls[0] for l in ls):
                return ls[0]
        return None

    def seq_elem(self, s: SeqV, lid):
        e = s.elem
        if isinstance(e, tuple) and e and e[0] == "TUPLE":
            if len(e) >= 4:
                return TupleV(tuple(ElemV(lid, s.layout, x) for x in e[1]), e[2], e[3])
            return TupleV(tuple(ElemV(lid, s.layout, x) for x in e[1]))
        return ElemV(lid, s.layout, e)

    def items_elem(self, src, lid):
        if isinstance(src, MapV):
            return TupleV((SymV(src.keyrole), self.map_value(src)))
        if isinstance(src, FamV):
            return TupleV((SymV("SENSOR"), src.value))
        if isinstance(src, ObjV) and src.cls == "dict":
            return TupleV((SymV("SENSOR"), src.attrs.get("__fam__", Unknown("empty dict"))))
        return TupleV((Unknown("key"), Unknown("value")))

    def map_value(self, m):
        if isinstance(m, MapV):
            if m.kind == "sensor_models":
                return MapV("sensor", ("READ", "k"), "k")
            if m.kind == "sensor_noises":
                return MapV("noise", ("READ", "k"), "k")
            return SymV(("value", m.kind))
        if isinstance(m, FamV):
            return m.value
        if isinstance(m, ObjV) and m.cls == "dict":
            return m.attrs.get("__fam__", Unknown("empty dict"))
        return Unknown("map value")

    # ------------------------------------------------------------ expressions
    def ev(self, node, env: Env):
        if node is None:
            return Const(None)
        m = getattr(self, "ev_" + type(node).__name__, None)
        if m is None:
            return Unknown(type(node).__name__)
        return m(node, env)

    def ev_Constant(self, n, env):
        return Const(n.value)

    def ev_Name(self, n, env: Env):
        if n.id in env.vars:
            return env.vars[n.id]
        mod = env.module
        if n.id in self.p.funcs.get(mod, {}):
            return FuncV(self.p.funcs[mod][n.id], mod)
        if n.id in self.p.classes.get(mod, {}):
            cn = self.p.classes[mod][n.id]
            if any(ast.unparse(b).split(".")[-1] == "NamedTuple" for b in cn.bases):
                # class X(NamedTuple): a: T; b: T  -- a namedtuple with the annotated fields in order
                return NTClsV(n.id, tuple(a.target.id for a in cn.body if isinstance(a, ast.AnnAssign) and isinstance(a.target, ast.Name)))
            if any("dataclass" in ast.unparse(d) for d in cn.decorator_list) and not any(isinstance(m_, ast.FunctionDef) and m_.name in ("__init__", "__post_init__")
                                                                                           for m_ in cn.body) and not cn.bases:
                # a plain record: @dataclass class X: a: T; b: T  (methods / properties allowed) -- built like a namedtuple, read by field name
                return NTClsV(n.id, tuple(a.target.id for a in cn.body if isinstance(a, ast.AnnAssign) and isinstance(a.target, ast.Name)))
            return ClassV(mod, n.id)
        if n.id in self.p.assigns.get(mod, {}):
            menv = self.modenv.setdefault(mod, Env(mod))
            if n.id not in menv.vars:
                menv.vars[n.id] = Unknown("recursive module assign")
                menv.vars[n.id] = self.ev(self.p.assigns[mod][n.id], menv)
            return menv.vars[n.id]
        imp = getattr(self.p, "imports", {}).get(mod, {}).get(n.id)
        if imp is not None:
            if imp[0] == "module" and imp[1] in self.p.modules:
                return ModuleV(imp[1])
            if imp[0] == "name" and imp[1] in self.p.modules:
                m2, nm = imp[1], imp[2]
                if nm in self.p.funcs.get(m2, {}):
                    return FuncV(self.p.funcs[m2][nm], m2)
                if nm in self.p.classes.get(m2, {}):
                    return self.ev_Name(ast.Name(nm, ast.Load()), Env(m2))
                if nm in self.p.assigns.get(m2, {}):
                    return self.ev_Name(ast.Name(nm, ast.Load()), Env(m2))
        if n.id in ("sqrt", "floor", "ceil", "fabs"):
            return Const(("math", n.id))
        if n.id == "namedtuple":
            return Const(("collections", "namedtuple"))
        if n.id in ("attrgetter", "itemgetter"):
            return Const(("operator", n.id))
        if n.id == "operator":
            return ModuleV("operator")
        if n.id == "math":
            return ModuleV("math")
        if n.id in ("np", "numpy"):
            return ModuleV("np")
        if n.id == "Matrix":
            return Const(("sympy", "Matrix"))
        if n.id in ("diff", "Symbol", "simplify", "cse", "ccode"):
            return Const(("sympy", n.id))
        if n.id in ("common", "fragments"):
            return ModuleV({"fragments": "ast_fragments"}.get(n.id, n.id))
        if n.id in ("float", "int", "str", "dict", "list", "set", "tuple", "bool"):
            return Const({"float": float, "int": int, "str": str, "dict": dict, "list": list, "set": set, "tuple": tuple, "bool": bool}[n.id])
        return Const(("builtin", n.id)) if n.id in BUILTINS else Unknown("name " + n.id)

    def ev_Attribute(self, n, env: Env):
        base = self.ev(n.value, env)
        return self.getattr(base, n.attr, env, n)

    def getattr(self, base, attr, env, node):
        base = unwrap_elem(base)
        if attr == "free_symbols" and not isinstance(base, (ObjV, ModuleV)):
            return CollV("FREE-SYMBOLS")            # sympy's set of symbols: no iteration order (hash order, salted per process)
        if isinstance(base, Join):
            acc = None
            for a in base.alts:
                v = self.getattr(a, attr, env, node)
                acc = v if acc is None else join(acc, v)
            return acc
        if isinstance(base, ObjV):
            if attr in base.attrs:
                return base.attrs[attr]
            meth = self.p.method(base.attrs.get("__module__", env.module), base.cls, attr)
            if meth is not None:
                deco = {ast.unparse(d) for d in meth.decorator_list}
                if deco & {"property", "functools.cached_property", "cached_property"} and len(meth.args.args) == 1:
                    # a read-only property: its value is what the getter returns for this object
                    return self.call_func(FuncV(meth, base.attrs.get("__module__", env.module), base, base.cls), [], {}, env, node)
                return FuncV(meth, base.attrs.get("__module__", env.module), base, base.cls)
            return Unknown(f"attr {base.cls}.{attr}")
        if isinstance(base, ModelV):
            if attr == "state":
                return CollV("STATE")
            if attr == "control":
                return CollV("CONTROL")
            if attr == "calibration":
                return CollV("CALIB")
            if attr == "state_model":
                return MapV("state_model", "STATE")
            if attr == "dt":
                return SymV("DT")
            return Unknown("model." + attr)
        if isinstance(base, ModuleV):
            if base.name == "np":
                return Const(("np", attr))
            if base.name == "operator":
                return Const(("operator", attr))
            if base.name == "math":
                return Const(("math", attr))
            if base.name in self.p.funcs and attr in self.p.funcs[base.name]:
                return FuncV(self.p.funcs[base.name][attr], base.name)
            if base.name in self.p.classes and attr in self.p.classes[base.name]:
                return ClassV(base.name, attr)
            return Unknown(f"{base.name}.{attr}")
        if isinstance(base, Const) and isinstance(base.value, tuple) and base.value and base.value[0] == "np":
            return Const(("np", base.value[1] + "." + attr))
        if isinstance(base, NInst):
            if attr == "data":
                L = base.cls.layout
                if base.arr is not None and isinstance(base.arr, ArrV):
                    return base.arr
                form = MatForm.atom(base.origin, base.cls.kind == "cov") if base.origin else None
                return ArrV(L, ONE if base.cls.kind == "vec" else L, origin="data", form=form)
            if attr == "shape":
                L = base.cls.layout
                return TupleV((L.size(), SizeV.const(1) if base.cls.kind == "vec" else L.size()))
            return ("BOUND", base, attr)
        if isinstance(base, NCls):
            if attr == "shape":
                L = base.layout
                return TupleV((L.size(), SizeV.const(1) if base.kind == "vec" else L.size()))
            return ("BOUND", base, attr)
        if isinstance(base, ArrV):
            if attr == "T":
                return ArrV(base.cols, base.rows, origin="T", form=fT(base))
            if attr == "shape":
                return TupleV((axis_size(base.rows), axis_size(base.cols)))
            if attr == "data":
                return base
            return ("BOUND", base, attr)
        if isinstance(base, ElemV) and attr == "name":
            return base
        if isinstance(base, TupleV) and attr in base.names:
            return base.items[base.names.index(attr)]
        if isinstance(base, TupleV) and base.ntname:
            # a property / method of the record class
            for mname, cs in self.p.classes.items():
                cn = cs.get(base.ntname)
                if cn is None:
                    continue
                meth = next((m_ for m_ in cn.body if isinstance(m_, ast.FunctionDef) and m_.name == attr), None)
                if meth is not None:
                    decos = {ast.unparse(d) for d in meth.decorator_list}
                    if "property" in decos:
                        return self.call_func(FuncV(meth, mname, base, base.ntname), [], {}, env, node)
                    return FuncV(meth, mname, base, base.ntname)
        if isinstance(base, ConfigV):
            return Const(("config", attr))
        return ("BOUND", base, attr)

    def ev_Tuple(self, n, env):
        items = tuple(self.ev(e, env) for e in n.elts)
        if any(isinstance(i, tuple) and i and i[0] == "STAR" for i in items):
            # (a, *xs, *ys): an argument pack, spliced where it is starred into a call
            return ("ARGPACK", items)
        return TupleV(items)

    def ev_List(self, n, env):
        items = [self.ev(e, env) for e in n.elts]
        if not items:
            return SeqV(Layout(()), "empty")
        if len(items) == 1 and isinstance(items[0], SymV) and items[0].role == "DT":
            return SeqV(Layout((("DT",),)), "sym")
        if len(items) == 1 and isinstance(items[0], SeqV):
            return ("NESTED", items[0])
        if len(items) == 1 and isinstance(items[0], UnordSeqV):
            return ("NESTED", SeqV(Layout((("UNORD", items[0].role),)), items[0].elem))
        if len(items) == 1 and isinstance(items[0], tuple) and items[0] and items[0][0] in ("KEYS", "VALUES", "ITEMS") \
                and isinstance(items[0][1], MapV):
            return ("NESTED", SeqV(Layout((("UNORD", items[0][1].keyrole),)), items[0][0].lower()))
        return ("PYLIST", tuple(items))

    def ev_Dict(self, n, env):
        o = ObjV("dict", {})
        return o

    def ev_Set(self, n, env):
        return Unknown("set literal")

    def ev_JoinedStr(self, n, env):
        holes = []
        for v in n.values:
            if isinstance(v, ast.FormattedValue):
                holes.append(self.ev(v.value, env))
        return ("FSTR", tuple(holes))

    def ev_Lambda(self, n, env):
        return ("LAMBDA", n)

    def ev_IfExp(self, n, env):
        return join(self.ev(n.body, env), self.ev(n.orelse, env))

    def ev_Compare(self, n, env):
        l = self.ev(n.left, env)
        rs = [self.ev(c, env) for c in n.comparators]
        if len(rs) == 1 and (isinstance(l, (ScalV, ArrV)) or isinstance(rs[0], (ScalV, ArrV))):
            return CmpV(type(n.ops[0]).__name__, l, rs[0])
        return Unknown("bool")

    def ev_BoolOp(self, n, env):
        for v in n.values:
            self.ev(v, env)
        return Unknown("bool")

    def ev_UnaryOp(self, n, env):
        v = self.ev(n.operand, env)
        if isinstance(n.op, ast.USub) and isinstance(v, Const) and isinstance(v.value, (int, float)) and not isinstance(v.value, bool):
            return Const(-v.value)
        if isinstance(n.op, ast.USub) and isinstance(v, ScalV) and v.s is not None:
            return ScalV(s=-v.s)
        if isinstance(n.op, ast.USub) and isinstance(v, ArrV):
            return ArrV(v.rows, v.cols, origin="neg", form=(-v.form) if v.form is not None else None)
        return Unknown("unary")

    def ev_Starred(self, n, env):
        return ("STAR", self.ev(n.value, env))

    def ev_Yield(self, n, env: Env):
        v = self.ev(n.value, env) if n.value else Const(None)
        env.yields.append(v)
        return Unknown("yield")

    def ev_YieldFrom(self, n, env: Env):
        v = self.ev(n.value, env)
        if isinstance(v, tuple) and v and v[0] == "GENFN":
            env.yields.extend(v[1])                 # delegating to another generator function: its yields are this one's
        else:
            env.yields.append(("FROM", v))
        return Unknown("yield from")

    def ev_BinOp(self, n, env):
        return self.binop(n.op, self.ev(n.left, env), self.ev(n.right, env), env, n)

    def binop(self, op, a, b, env, node):
        if isinstance(a, Join) or isinstance(b, Join):
            alts_a = a.alts if isinstance(a, Join) else (a,)
            alts_b = b.alts if isinstance(b, Join) else (b,)
            acc = None
            for x in alts_a:
                for y in alts_b:
                    v = self.binop(op, x, y, env, node)
                    acc = v if acc is None else join(acc, v)
            return acc
        if isinstance(op, ast.Add) and isinstance(a, SeqV) and isinstance(b, SeqV):
            return SeqV(a.layout + b.layout, a.elem if a.layout.segs else b.elem)
        if isinstance(a, SizeV) and isinstance(b, SizeV) and isinstance(op, ast.Add):
            return a + b
        if isinstance(a, SizeV) and isinstance(b, Const) and isinstance(b.value, int) and isinstance(op, ast.Add):
            return a + SizeV.const(b.value)
        if isinstance(b, SizeV) and isinstance(a, Const) and isinstance(a.value, int) and not isinstance(a.value, bool) and isinstance(op, ast.Add):
            return SizeV.const(a.value) + b
        # <offset> + <loop index>: a position inside a concatenated layout (a column block of a Jacobian taken over the whole argument list)
        if isinstance(op, ast.Add) and isinstance(a, (SizeV, Const)) and isinstance(b, IdxV) and not (isinstance(a, Const) and not isinstance(a.value, int)):
            return ("OFFIDX", a if isinstance(a, SizeV) else SizeV.const(a.value), b)
        if isinstance(op, ast.Add) and isinstance(b, SizeV) and isinstance(a, IdxV):
            return ("OFFIDX", b, a)
        # row*stride + col
        if isinstance(op, ast.Mult) and isinstance(a, IdxV) and isinstance(b, (SizeV, Const)):
            return ("SCALED", a, b if isinstance(b, SizeV) else (SizeV.const(b.value) if isinstance(b.value, int) else Unknown("stride")))
        if isinstance(op, ast.Mult) and isinstance(b, IdxV) and isinstance(a, (SizeV, Const)):
            return ("SCALED", b, a if isinstance(a, SizeV) else Unknown("stride"))
        if isinstance(op, ast.Add) and isinstance(a, tuple) and a and a[0] == "SCALED" and isinstance(b, SizeV):
            return ("SCALEDOFF", a[1], a[2], b)              # row*stride + width: the end of a row slice
        if isinstance(op, ast.Add) and isinstance(a, tuple) and a and a[0] == "SCALED" and isinstance(b, IdxV):
            return LinIdx(a[1], a[2], b)
        if isinstance(op, ast.Add) and isinstance(b, tuple) and b and b[0] == "SCALED" and isinstance(a, IdxV):
            return LinIdx(b[1], b[2], a)
        if isinstance(op, (ast.Add, ast.Sub)) and isinstance(a, IdxV) and isinstance(b, Const) and isinstance(b.value, int):
            d = b.value if isinstance(op, ast.Add) else -b.value
            return IdxV(a.loop, a.layout, a.offset + d)
        if isinstance(a, ArrV) and isinstance(b, ArrV):
            if isinstance(op, ast.MatMult):
                return self.matmul(a, b, env, node)
            if isinstance(op, (ast.Add, ast.Sub)):
                return self.elementwise("+" if isinstance(op, ast.Add) else "-", a, b, env, node)
            if isinstance(op, ast.Mult):
                return self.elementwise("*", a, b, env, node)
        sa, sb = to_scalar(a), to_scalar(b)
        if sa is not None and sb is not None and not (isinstance(a, Const) and isinstance(b, Const)):
            if isinstance(op, ast.Add):
                return ScalV(s=sa + sb)
            if isinstance(op, ast.Sub):
                return ScalV(s=sa - sb)
            if isinstance(op, ast.Mult):
                return ScalV(s=sa * sb)
            if isinstance(op, ast.Div) and sb.recip() is not None:
                return ScalV(s=sa * sb.recip())
        if isinstance(a, ArrV) and isinstance(b, Const) and isinstance(b.value, (int, float)) and not isinstance(b.value, bool) and b.value != 0 \
                and isinstance(op, (ast.Mult, ast.Div)) and a.form is not None:
            from fractions import Fraction as _Fr
            q = _Fr(str(b.value))
            return ArrV(a.rows, a.cols, origin="scaled", form=a.form.scale(q if isinstance(op, ast.Mult) else 1 / q))
        if isinstance(b, ArrV) and isinstance(a, Const) and isinstance(a.value, (int, float)) and not isinstance(a.value, bool) and isinstance(op, ast.Mult) \
                and b.form is not None:
            from fractions import Fraction as _Fr
            return ArrV(b.rows, b.cols, origin="scaled", form=b.form.scale(_Fr(str(a.value))))
        if isinstance(a, ArrV) and not isinstance(b, ArrV) and isinstance(op, (ast.Mult, ast.Div, ast.Add, ast.Sub)):
            if to_scalar(b) is not None or isinstance(b, ScalV):
                return ArrV(a.rows, a.cols, origin="scalar-op")    # array (op) scalar keeps the axes; the value changed
            return ArrV(a.rows, a.cols, origin="unknown-op") if isinstance(b, Unknown) else Unknown("binop")
        if isinstance(b, ArrV) and not isinstance(a, ArrV) and isinstance(op, (ast.Mult, ast.Add, ast.Sub)):
            if to_scalar(a) is not None or isinstance(a, ScalV):
                return ArrV(b.rows, b.cols, origin="scalar-op")
            return ArrV(b.rows, b.cols, origin="unknown-op") if isinstance(a, Unknown) else Unknown("binop")
        return Unknown("binop")

    # -------- typed linear algebra
    def matmul(self, a: ArrV, b: ArrV, env, node):
        if isinstance(a.cols, Dim) and is_layout(b.rows) and a.origin == "eye" and axis_size(a.cols) == axis_size(b.rows):
            a = ArrV(b.rows, b.rows, origin="eye", form=a.form)
        if isinstance(b.rows, Dim) and is_layout(a.cols) and b.origin == "eye" and axis_size(b.rows) == axis_size(a.cols):
            b = ArrV(a.cols, a.cols, origin="eye", form=b.form)
        ok = axes_equal(a.cols, b.rows)
        known = is_layout(a.cols) and is_layout(b.rows)
        if known:
            self.oblige("ARR-MM", env, node, f"{a} @ {b}", ok,
                        f"matrix product of {a} and {b}: inner axes {a.cols} and {b.rows} differ")
        return ArrV(a.rows, b.cols, origin="matmul", form=fbin("@", a, b))

    def elementwise(self, sym, a: ArrV, b: ArrV, env, node):
        a, b = adopt_axes(a, b), adopt_axes(b, a)
        known = all(is_layout(x) for x in (a.rows, a.cols, b.rows, b.cols))
        if known:
            ok = axes_equal(a.rows, b.rows) and axes_equal(a.cols, b.cols)
            if sym == "*":
                self.oblige("ARR-EW", env, node, f"{a} * {b}", False if not ok else True,
                            f"elementwise `*` between {a} and {b} (axes differ: broadcasting; a matrix product is specified here)")
            else:
                self.oblige("ARR-EW", env, node, f"{a} {sym} {b}", ok,
                            f"`{sym}` between {a} and {b}: axes differ, numpy would broadcast")
        return ArrV(a.rows, a.cols, origin=sym, form=fbin(sym, a, b))

    # -------- subscripts
    def ev_Subscript(self, n, env: Env):
        base = self.ev(n.value, env)
        return self.subscript(base, n, env)

    def subscript(self, base, n, env):
        base = unwrap_elem(base)
        if isinstance(base, Join):
            acc = None
            for a in base.alts:
                v = self.subscript(a, n, env)
                acc = v if acc is None else join(acc, v)
            return acc
        sl = n.slice
        if isinstance(base, FamV):
            self.ev(sl, env)
            return base.value
        if isinstance(base, ObjV) and base.cls == "dict":
            self.ev(sl, env)
            return base.attrs.get("__fam__", Unknown("dict get"))
        if isinstance(base, MapV):
            k = self.ev(sl, env)
            if base.kind in ("sensor_models", "sensor_noises"):
                return self.map_value(base)
            if isinstance(k, ElemV):
                return ("MAPGET", base.kind, k)
            return SymV(("value", base.kind))
        if isinstance(base, SymMatV) and isinstance(sl, ast.Tuple) and len(sl.elts) == 2 and all(isinstance(x, ast.Slice) for x in sl.elts) \
                and isinstance(base.cols, Layout):
            # J[:, a:b]: a block of whole column segments (rows untouched)
            rs, cs = sl.elts
            if rs.lower is None and rs.upper is None and rs.step is None and cs.step is None:
                lo = self.ev(cs.lower, env) if cs.lower is not None else SizeV.const(0)
                hi = self.ev(cs.upper, env) if cs.upper is not None else None
                lo = SizeV.const(lo.value) if isinstance(lo, Const) and isinstance(lo.value, int) else lo
                hi = SizeV.const(hi.value) if isinstance(hi, Const) and isinstance(hi.value, int) else hi
                if isinstance(lo, SizeV) and (hi is None or isinstance(hi, SizeV)):
                    pos, taking, segs, ok = SizeV.const(0), False, [], True
                    if pos == lo:
                        taking = True
                    for sg in base.cols.segs:
                        if taking and hi is not None and pos == hi:
                            taking = False
                            break
                        if taking:
                            segs.append(sg)
                        pos = pos + Layout((sg,)).size()
                        if not taking and not segs and pos == lo:
                            taking = True
                    if hi is not None and taking and pos != hi:
                        ok = False
                    if lo != SizeV.const(0) and not segs and pos != lo:
                        ok = False
                    if ok and (segs or lo == pos):
                        return SymMatV(base.rows, Layout(tuple(segs)))
            return Unknown("matrix block")
        if isinstance(base, SymMatV) and isinstance(sl, ast.Tuple) and len(sl.elts) == 2:
            # one entry of a symbolic Jacobian: d(row element) / d(column element)
            r, c = self.ev(sl.elts[0], env), self.ev(sl.elts[1], env)
            return ("JACAT", base, r, c)
        if isinstance(base, FlatV):
            if isinstance(sl, ast.Slice) and sl.step is None and sl.lower is not None and sl.upper is not None:
                lo, hi = self.ev(sl.lower, env), self.ev(sl.upper, env)
                if isinstance(lo, tuple) and lo and lo[0] == "SCALED" and isinstance(hi, tuple) and hi and hi[0] == "SCALEDOFF" \
                        and hi[1] == lo[1] and hi[2] == lo[2]:
                    return ("FLATROW", base, lo[1], lo[2], hi[3])      # flat[row*S : row*S + width]
                if isinstance(lo, tuple) and lo and lo[0] == "SCALED" and isinstance(hi, tuple) and hi and hi[0] == "SCALED" and hi[2] == lo[2] \
                        and isinstance(lo[1], IdxV) and isinstance(hi[1], IdxV) and hi[1].loop == lo[1].loop and hi[1].layout == lo[1].layout \
                        and hi[1].offset == lo[1].offset + 1 and isinstance(lo[2], SizeV):
                    return ("FLATROW", base, lo[1], lo[2], lo[2])      # flat[row*S : (row+1)*S]: one whole row
                return Unknown("flat slice")
            i = self.ev(sl, env)
            if isinstance(i, LinIdx):
                return ("FLATREAD", base, i)
            return Unknown("flat index")
        if isinstance(base, tuple) and base and base[0] == "FLATROW" and isinstance(sl, ast.Slice) and sl.step is None and sl.lower is None \
                and sl.upper is not None:
            hi = self.ev(sl.upper, env)
            if isinstance(hi, SizeV):
                return ("FLATROW", base[1], base[2], base[3], hi)      # the leading `hi` entries of the row
            return Unknown("row slice")
        if isinstance(base, SeqV):
            if isinstance(sl, ast.Slice):
                return self.slice_seq(base, sl, env)
            return ElemV(0, base.layout, base.elem)
        if isinstance(base, TupleV):
            i = self.ev(sl, env)
            if isinstance(i, Const) and isinstance(i.value, int) and -len(base.items) <= i.value < len(base.items):
                return base.items[i.value]
        if isinstance(base, ArrV):
            i = self.ev(sl, env)
            if isinstance(i, TupleV) and len(i.items) == 2 and all(isinstance(x, Const) and x.value == 0 for x in i.items):
                return ScalV(m=base.form) if base.form is not None else Unknown("array element")
            return self.array_slice(base, sl, i, env, n)
        return Unknown("subscript")

    def array_slice(self, base, sl, i, env, n):
        if isinstance(i, TupleV) and len(i.items) == 2 and all(isinstance(x, IdxV) for x in i.items):
            return ("ARRELEM", base, i.items[0], i.items[1])
        return Unknown("array element")

    def slice_seq(self, s: SeqV, sl: ast.Slice, env):
        lo = self.ev(sl.lower, env) if sl.lower else None
        hi = self.ev(sl.upper, env) if sl.upper else None
        step = self.ev(sl.step, env) if sl.step else None
        if lo is None and hi is None and isinstance(step, Const) and step.value == -1:
            return SeqV(Layout(tuple(("REV", g) for g in reversed(s.layout.segs))), s.elem)
        if lo is None and isinstance(hi, (IdxV, Const)):
            return ("PREFIX", s, hi)
        return Unknown("slice")

    # -------- comprehensions
    def ev_ListComp(self, n, env: Env):
        return self.comp(n, env, "list")

    def ev_GeneratorExp(self, n, env):
        return self.comp(n, env, "gen")

    def ev_SetComp(self, n, env):
        self.comp(n, env, "set")
        return Unknown("setcomp")

    def ev_DictComp(self, n, env: Env):
        if len(n.generators) != 1:
            return Unknown("dictcomp")
        g = n.generators[0]
        e2 = env.fork()
        it = self.ev(g.iter, e2)
        self.record_iter("dictcomp", n, g.iter, it, env)
        lid = next(self.loop_ids)
        elem = self.iter_elem(it, lid, e2, n)
        self.assign(g.target, elem, e2, n)
        k = self.ev(n.key, e2)
        v = self.ev(n.value, e2)
        lay = self.layout_of_iter(it)
        if lay is not None and self.is_str_of_elem(n.key, k, lid):
            return KwMapV(lay)
        if isinstance(k, SymV) and k.role == "SENSOR":
            return FamV(v)
        return Unknown("dictcomp")

    def is_str_of_elem(self, keynode, k, lid):
        return isinstance(k, ElemV) and k.loop == lid

    def comp(self, n, env: Env, kind):
        if len(n.generators) == 2 and not n.generators[0].ifs and not n.generators[1].ifs and isinstance(n.generators[0].target, ast.Name) \
                and isinstance(n.generators[1].target, ast.Name) and isinstance(n.generators[1].iter, ast.Name) \
                and n.generators[1].iter.id == n.generators[0].target.id and isinstance(n.elt, ast.Name) and n.elt.id == n.generators[1].target.id:
            # `[x for part in PARTS for x in part]`: the parts one after the other
            outer = self.ev(n.generators[0].iter, env)
            self.record_iter(kind + "comp", n, n.generators[0].iter, outer, env)
            if isinstance(outer, tuple) and outer and outer[0] == "COLS":
                return FlatV(outer[1], outer[2])          # major index: which part; minor: the position inside the part
            if isinstance(outer, SymMatV) and outer.cols != ONE:
                return FlatV(outer.rows, outer.cols)
            return Unknown("nested comp")
        if len(n.generators) != 1:
            # several generators: every one is an iteration of its own (recorded, targets bound), the element evaluated once; the value of the
            # whole is not modelled
            e2 = env.fork()
            for g in n.generators:
                it = self.ev(g.iter, e2)
                self.record_iter(kind + "comp", n, g.iter, it, env)
                lid = next(self.loop_ids)
                self.assign(g.target, self.iter_elem(it, lid, e2, n), e2, n)
                for c in g.ifs:
                    self.ev(c, e2)
            self.ev(n.elt, e2)
            return Unknown("comp over several generators")
        g = n.generators[0]
        e2 = env.fork()
        it = self.ev(g.iter, e2)
        self.record_iter(kind + "comp", n, g.iter, it, env)
        lid = next(self.loop_ids)
        elem = self.iter_elem(it, lid, e2, n)
        self.assign(g.target, elem, e2, n)
        for c in g.ifs:
            self.ev(c, e2)
        v = self.ev(n.elt, e2)
        if g.ifs:
            return Unknown("filtered comp")
        if isinstance(it, (FlatV,)):
            return it
        if isinstance(it, SymMatV):
            if it.cols == ONE:
                return SeqV(it.rows, "expr")
            return FlatV(it.rows, it.cols)
        lay = self.layout_of_iter(it)
        if lay is not None and isinstance(v, SymMatV) and v.cols == ONE:
            return ("COLS", lay, v.rows)                  # one column vector per element of the iterated layout
        if lay is not None:
            return SeqV(lay, tag_of(v))
        if isinstance(it, (CollV, UnordSeqV)):
            return UnordSeqV(it.role, tag_of(v))
        if isinstance(it, tuple) and it and it[0] in ("ITEMS", "KEYS", "VALUES"):
            return ("UNORDLIST", it[1], v)
        return Unknown("comp over " + type(it).__name__)

    # -------- calls
    def ev_Call(self, n, env: Env):
        f = self.ev(n.func, env)
        args = [self.ev(a, env) for a in n.args]
        kwargs = {}
        starkw = None
        for k in n.keywords:
            if k.arg is None:
                starkw = self.ev(k.value, env)
            else:
                kwargs[k.arg] = self.ev(k.value, env)
        return self.call(f, args, kwargs, starkw, env, n)

    def call(self, f, args, kwargs, starkw, env, n):
        if isinstance(f, Join):
            acc = None
            for a in f.alts:
                v = self.call(a, args, kwargs, starkw, env, n)
                acc = v if acc is None else join(acc, v)
            return acc
        if isinstance(f, Const) and isinstance(f.value, tuple):
            if f.value[0] == "builtin":
                return self.call_builtin(f.value[1], args, kwargs, env, n)
            if f.value[0] == "np":
                return self.call_np(f.value[1], args, kwargs, env, n)
            if f.value[0] == "sympy" and f.value[1] == "diff":
                return ("DIFF", args[0], args[1])
            if f.value[0] == "collections" and f.value[1] == "namedtuple":
                fields = ()
                if len(args) > 1 and isinstance(args[1], tuple) and args[1] and args[1][0] == "PYLIST":
                    fields = tuple(a.value for a in args[1][1] if isinstance(a, Const))
                nm = args[0].value if args and isinstance(args[0], Const) else ""
                return NTClsV(nm, fields)
            if f.value[0] == "operator":
                if f.value[1] == "attrgetter" and len(args) == 1 and isinstance(args[0], Const) and isinstance(args[0].value, str):
                    return ("ATTRGETTER", args[0].value)
                return Unknown("operator." + f.value[1])
            if f.value[0] == "math":
                a0 = to_scalar(args[0]) if args else None
                if f.value[1] == "sqrt" and a0 is not None:
                    return ScalV(s=a0.sqrt())
                return Unknown("math." + f.value[1])
            if f.value[0] == "sympy" and f.value[1] in ("simplify",):
                return args[0]
            if f.value[0] == "sympy" and f.value[1] == "Matrix":
                a0 = args[0] if args else None
                if len(args) == 3 and isinstance(args[1], Const) and args[1].value == 1:
                    a0 = args[2]                      # Matrix(n, 1, entries): a column given with its shape
                a0 = unwrap_elem(a0)
                if isinstance(a0, SeqV):
                    # a vector of state-update expressions is the *next* state: prime its axis
                    nxt = isinstance(a0.elem, tuple) and a0.elem[:2] == ("model", "state_model")
                    return SymMatV(a0.layout.prime() if nxt else a0.layout, ONE)
                if isinstance(a0, tuple) and a0 and a0[0] in ("VALUES", "KEYS", "ITEMS") and isinstance(unwrap_elem(a0[1]), MapV):
                    return SymMatV(Layout((("UNORD", unwrap_elem(a0[1]).keyrole),)), ONE)     # dict order of the user's mapping
                if isinstance(a0, UnordSeqV):
                    return SymMatV(Layout((("UNORD", a0.role),)), ONE)
                if isinstance(a0, tuple) and a0 and a0[0] == "UNORDLIST" and isinstance(a0[1], MapV):
                    return SymMatV(Layout((("UNORD", a0[1].keyrole),)), ONE)
                return Unknown("Matrix()")
        if isinstance(f, Const) and f.value in (list, set, tuple, dict, str, float, int, bool):
            return self.call_builtin(f.value.__name__, args, kwargs, env, n)
        if isinstance(f, FuncV):
            if f.module == "common" and f.node.name in ("named_vector", "named_covariance"):
                lay = self.layout_of_iter(args[1]) if len(args) > 1 else None
                nm = args[0].value if args and isinstance(args[0], Const) else ""
                if lay is None:
                    return Unknown("named_* arglist")
                return NCls("vec" if f.node.name == "named_vector" else "cov", lay, nm)
            return self.call_func(f, args, kwargs, env, n)
        if isinstance(f, ClassV):
            return self.construct(f, args, kwargs, env, n)
        if isinstance(f, NCls):
            return self.construct_named(f, args, kwargs, starkw, env, n)
        if isinstance(f, NTClsV):
            items = list(args) + [None] * (len(f.fields) - len(args))
            for k, v in kwargs.items():
                if k in f.fields:
                    items[f.fields.index(k)] = v
            return TupleV(tuple(Unknown("missing field") if i is None else i for i in items), f.fields, f.name)
        if isinstance(f, tuple) and f and f[0] == "BOUND":
            return self.call_bound(f[1], f[2], args, kwargs, env, n)
        return Unknown("call")

    def call_builtin(self, name, args, kwargs, env, n):
        a0 = args[0] if args else None
        if name in ("list", "sorted", "len", "set", "dict"):
            a0 = unwrap_elem(a0)
        if name == "sorted":
            return self.do_sorted(a0, kwargs.get("key"), env, n)
        if name == "list":
            if a0 is None:
                return SeqV(Layout(()), "empty")
            if isinstance(a0, CollV):
                return UnordSeqV(a0.role)
            if isinstance(a0, tuple) and a0 and a0[0] in ("KEYS", "ITEMS", "VALUES"):
                return a0
            if isinstance(a0, tuple) and a0 and a0[0] == "GEN":
                return a0[1]
            if isinstance(a0, (FamV, MapV)):
                return ("KEYS", a0)
            if isinstance(a0, ObjV) and a0.cls == "dict":
                return ("KEYS", a0)
            return a0
        if name == "set":
            if isinstance(a0, CollV):
                return CollV(a0.role, "set")
            if isinstance(a0, SeqV) and len(a0.layout.segs) == 1 and a0.layout.segs[0][0] in ("SORT", "UNORD", "REV"):
                seg = a0.layout.segs[0]
                while seg[0] == "REV":
                    seg = seg[1]
                return UnordSeqV(seg[1], a0.elem)           # a set forgets the order
            if isinstance(a0, UnordSeqV):
                return a0
            return Unknown("set()")
        if name == "reversed":
            if isinstance(a0, SeqV):
                return SeqV(Layout(tuple(("REV", g) for g in reversed(a0.layout.segs))), a0.elem)
            return Unknown("reversed()")
        if name == "len":
            return self.do_len(a0)
        if name == "range":
            if isinstance(a0, SizeV):
                return ("RANGE", a0)
            if isinstance(a0, Const) and isinstance(a0.value, int):
                return ("RANGE", SizeV.const(a0.value))
            return ("RANGE", Unknown("range arg"))
        if name == "divmod" and len(args) == 2 and isinstance(args[0], tuple) and args[0] and args[0][0] == "FLATIDX" and isinstance(args[1], (SizeV, Const)):
            _, lid0, flat = args[0]
            stride = args[1] if isinstance(args[1], SizeV) else (SizeV.const(args[1].value) if isinstance(args[1].value, int) else Unknown("stride"))
            rows = flat.rows.size() if isinstance(flat.rows, Layout) else Unknown("rows")
            row, col = IdxV(lid0, Dim(rows)), IdxV(next(self.loop_ids), Dim(stride))
            self.divmods[lid0] = (row, stride, col)
            return TupleV((row, col))
        if name == "product":
            # itertools.product(range(R), range(C)): (row, col) pairs in row-major order
            if len(args) == 2 and all(isinstance(a, tuple) and a and a[0] == "RANGE" for a in args) and not kwargs:
                return ("PRODUCT", args[0][1], args[1][1])
            rep = kwargs.get("repeat")
            if rep is not None and isinstance(rep, Const) and isinstance(rep.value, int) and 1 <= rep.value <= 3 and len(args) >= 1:
                return ("PRODUCTGEN", tuple(args) * rep.value)
            if len(args) >= 2 and not kwargs:
                return ("PRODUCTGEN", tuple(args))
            return Unknown("product()")
        if name == "enumerate":
            start = 0
            if len(args) > 1 and isinstance(args[1], Const):
                start = args[1].value
            if "start" in kwargs and isinstance(kwargs["start"], Const):
                start = kwargs["start"].value
            return ("ENUM", a0, start)
        if name == "zip":
            return self.do_zip(args, env, n)
        if name == "str":
            return a0
        if name == "float":
            return a0
        if name == "dict":
            if args:
                return a0
            return ObjV("dict", {})
        if name == "isinstance":
            return Unknown("bool")
        return Unknown("builtin " + name)

    def do_len(self, a0):
        a0 = unwrap_elem(a0)
        if isinstance(a0, CollV):
            return SizeV.of(a0.role)
        if isinstance(a0, MapV):
            return SizeV.of(a0.keyrole)
        if isinstance(a0, SeqV):
            return a0.layout.size()
        if isinstance(a0, UnordSeqV):
            return SizeV.of(a0.role)
        if isinstance(a0, FamV) or (isinstance(a0, ObjV) and a0.cls == "dict"):
            return SizeV.of("SENSOR")
        if isinstance(a0, ObjV):
            m = self.p.method(a0.attrs.get("__module__", ""), a0.cls, "__len__")
            if m is not None:
                return self.call_func(FuncV(m, a0.attrs["__module__"], a0, a0.cls), [], {}, None, None)
        if isinstance(a0, BlockV):
            return Unknown("len(block)")
        if isinstance(a0, tuple) and a0 and a0[0] in ("KEYS", "ITEMS", "VALUES"):
            return self.do_len(a0[1])
        return Unknown("len")

    def do_sorted(self, a0, key, env, n):
        keyname = self.norm_key(key)
        if isinstance(a0, (UnordSeqV, CollV)):
            return SeqV(Layout((("SORT", a0.role, keyname),)), "sym")
        if isinstance(a0, tuple) and a0 and a0[0] in ("KEYS", "ITEMS"):
            src = a0[1]
            role = src.keyrole if isinstance(src, MapV) else "SENSOR"
            lay = Layout((("SORT", role, keyname),))
            if a0[0] == "KEYS":
                return SeqV(lay, "sym")
            return SeqV(lay, ("TUPLE", ("key", ("value", self.map_value(src)))))
        if isinstance(a0, (MapV, FamV)):
            role = a0.keyrole if isinstance(a0, MapV) else "SENSOR"
            return SeqV(Layout((("SORT", role, keyname),)), "sym")
        if isinstance(a0, SeqV):
            segs = a0.layout.segs
            if len(segs) == 0:
                return a0
            if len(segs) == 1 and segs[0][0] == "SORT":
                # re-sorting a sequence already sorted by the same key is the identity; by another key it is that key's order
                return a0 if segs[0][2] == keyname else SeqV(Layout((("SORT", segs[0][1], keyname),)), a0.elem)
            if len(segs) > 1 and all(g[0] in ("SORT", "UNORD", "REV", "DT") for g in segs):
                # sorting a concatenation interleaves its segments: a layout of its own (not the concatenation)
                roles = tuple(sorted((repr(g[1]) if g[0] != "DT" else "DT") for g in segs))
                return SeqV(Layout((("SORT", ("UNION",) + roles, keyname),)), a0.elem)
            segs = a0.layout.segs
            if len(segs) == 1 and segs[0][0] == "UNORD":
                return SeqV(Layout((("SORT", segs[0][1], keyname),)), a0.elem)
            return Unknown("sorted")
        if isinstance(a0, tuple) and a0 and a0[0] == "UNORDLIST":
            src, v = a0[1], a0[2]
            role = src.keyrole if isinstance(src, MapV) else "SENSOR"
            lay = Layout((("SORT", role, keyname),))
            if isinstance(v, TupleV) and v.items and isinstance(v.items[0], SymV) and v.items[0].role == role:
                # tuples whose first component is the (unique) key: natural tuple order == key order
                tags = tuple(("key" if i == 0 else ("value", x)) for i, x in enumerate(v.items))
                if v.names:
                    return SeqV(lay, ("TUPLE", tags, v.names, v.ntname))      # namedtuple elements keep their field names
                return SeqV(lay, ("TUPLE", tags))
            if isinstance(v, SymV) and v.role == role:
                return SeqV(lay, "sym")
            return Unknown("sorted list of non-key tuples")
        return Unknown("sorted")

    def norm_key(self, key):
        if key is None or (isinstance(key, Const) and key.value is None):
            return "natural"
        if isinstance(key, tuple) and key[0] == "LAMBDA":
            lam = key[1]
            b = lam.body
            if isinstance(b, ast.Attribute) and b.attr == "name" and isinstance(b.value, ast.Name) and b.value.id == lam.args.args[0].arg:
                return "name"
            return "lambda:" + ast.unparse(b)
        if isinstance(key, Const) and key.value is str:
            return "name"
        if isinstance(key, tuple) and key and key[0] == "ATTRGETTER":
            return "name" if key[1] == "name" else "attr:" + key[1]
        if isinstance(key, FuncV):
            # def key(x): return x.name
            body = [s_ for s_ in key.node.body if not (isinstance(s_, ast.Expr) and isinstance(s_.value, ast.Constant))]
            ps = [a.arg for a in key.node.args.args]
            if len(body) == 1 and isinstance(body[0], ast.Return) and len(ps) == 1 and isinstance(body[0].value, ast.Attribute) \
                    and isinstance(body[0].value.value, ast.Name) and body[0].value.value.id == ps[0]:
                return "name" if body[0].value.attr == "name" else "attr:" + body[0].value.attr
        return "other"

    def do_zip(self, args, env, n):
        if len(args) == 2 and isinstance(args[0], tuple) and args[0] and args[0][0] == "PRODUCT" and isinstance(unwrap_elem(args[1]), FlatV):
            # the k-th flat entry is paired with (k // C, k % C): the same as flat[row*C + col]
            return ("ZIPFLAT", args[0][1], args[0][2], unwrap_elem(args[1]))
        lays = [self.layout_of_iter(a) for a in args]
        elems = []
        for a in args:
            if isinstance(a, SeqV):
                elems.append(a.elem)
            elif isinstance(a, NInst):
                elems.append("value")
            elif isinstance(a, tuple) and a and a[0] == "GEN" and isinstance(a[1], SeqV):
                elems.append(a[1].elem)
            else:
                elems.append("?")
        if all(l is not None for l in lays):
            ok = all(l == lays[0] for l in lays)
            self.oblige("LAY-ZIP", env, n, " ~ ".join(map(repr, lays)), ok,
                        "zip partners have different layouts: " + " vs ".join(map(repr, lays)))
            return SeqV(lays[0], ("TUPLE", tuple(elems)))
        return Unknown("zip")

    def call_np(self, name, args, kwargs, env, n):
        a0 = args[0] if args else None
        if name in ("zeros", "ones", "empty"):
            if isinstance(a0, TupleV) and len(a0.items) == 2:
                return ArrV(Dim(a0.items[0]), Dim(a0.items[1]), origin=name)
            return Unknown("np." + name)
        if name in ("eye", "identity"):
            return ArrV(Dim(a0), Dim(a0), origin="eye", form=MatForm.identity())
        if name == "array":
            if isinstance(a0, tuple) and a0 and a0[0] == "NESTED":
                inner = a0[1]
                return ArrV(ONE, inner.layout, origin="array")
            return Unknown("np.array")
        if name in ("matmul", "dot"):
            a, b = args[0], args[1]
            return self.binop(ast.MatMult(), a, b, env, n)
        if name == "transpose":
            if isinstance(a0, ArrV):
                return ArrV(a0.cols, a0.rows, form=fT(a0))
        if name == "linalg.inv":
            if isinstance(a0, ArrV):
                return ArrV(a0.cols, a0.rows, origin="inv", form=a0.form.inv() if a0.form is not None else None)
        if name == "linalg.pinv":
            # the pseudo-inverse truncates directions below rcond * largest singular value: it is the inverse only for well-conditioned arguments,
            # so its normal form is an atom of its own, not Inv(.)
            if isinstance(a0, ArrV):
                return ArrV(a0.cols, a0.rows, origin="pinv", form=MatForm.atom("pinv[" + repr(a0.form) + "]", True) if a0.form is not None else None)
        if name == "linalg.cholesky":
            if isinstance(a0, ArrV):
                return ArrV(a0.rows, a0.cols, origin="cholesky", form=MatForm.chol(a0.form) if a0.form is not None else None)
        if name == "linalg.solve" and len(args) == 2:
            a, b = args
            if isinstance(a, ArrV) and isinstance(b, ArrV):
                inv = ArrV(a.cols, a.rows, origin="inv", form=a.form.inv() if a.form is not None else None)
                return self.binop(ast.MatMult(), inv, b, env, n)
        return Unknown("np." + name)

    def call_bound(self, base, attr, args, kwargs, env, n):
        base = unwrap_elem(base)
        args = [unwrap_elem(a) if attr in ("from_dict",) else a for a in args]
        if attr == "subs":
            self.subs_sites.append((base, args[0] if args else None, self.where(env, n)))
            return base
        if attr == "format" and isinstance(base, Const) and isinstance(base.value, str):
            return ("FSTR", tuple(args) + tuple(kwargs.values()))
        if isinstance(base, Join):
            acc = None
            for a in base.alts:
                v = self.call_bound(a, attr, args, kwargs, env, n)
                acc = v if acc is None else join(acc, v)
            return acc
        if isinstance(base, ArrV):
            if attr == "transpose":
                return ArrV(base.cols, base.rows, origin="T", form=fT(base))
            if attr == "dot":
                return self.binop(ast.MatMult(), base, args[0], env, n)
            if attr == "reshape":
                return Unknown("reshape")
            return Unknown("arr." + attr)
        if isinstance(base, (MapV, FamV)) or (isinstance(base, ObjV) and base.cls == "dict"):
            if attr == "keys":
                return ("KEYS", base)
            if attr == "items":
                return ("ITEMS", base)
            if attr == "values":
                return ("VALUES", base)
            if attr == "get":
                return self.map_value(base)
        if isinstance(base, SymMatV) and attr == "diff" and len(args) == 1 and not kwargs:
            return SymMatV(base.rows, base.cols)           # elementwise derivative: same shape, same row / column meaning
        if isinstance(base, SymMatV) and attr == "jacobian":
            wrt = args[0]
            lay = wrt.rows if isinstance(wrt, SymMatV) and wrt.cols == ONE else self.layout_of_iter(wrt)
            if lay is None:
                return Unknown("jacobian wrt")
            return SymMatV(base.rows, lay)
        if isinstance(base, NCls):
            if attr == "from_data":
                a0 = args[0] if args else kwargs.get("data")
                self.check_from_data(base, a0, env, n)
                return NInst(base, origin="from_data", arr=a0 if isinstance(a0, ArrV) else None)
            if attr == "from_dict":
                self.check_from_dict(base, args[0] if args else None, env, n)
                return NInst(base, origin="from_dict")
        if isinstance(base, BlockV) and attr == "execute":
            return self.check_execute(base, args, env, n)
        if isinstance(base, SeqV) and attr in ("append", "extend"):
            return Const(None)
        return Unknown(f"method {attr}")

    def check_from_data(self, cls: NCls, a, env, n):
        if isinstance(a, ArrV) and a.origin in ("zeros", "ones", "empty") and not a.touched and isinstance(a.rows, Dim):
            # allocated by size and handed on without a single element store: the named value is all zeros whatever was computed
            self.oblige("LAY-SLOT", env, n, f"{cls.name}.from_data(<freshly allocated array>)", False,
                        f"{cls.name}.from_data is given an array that was allocated (np.{a.origin}) and never filled: the computed values are dropped")
        if isinstance(a, ArrV) and cls.kind == "vec" and is_layout(a.cols) and a.cols != ONE and not is_layout(a.rows):
            self.oblige("LAY-SLOT", env, n, f"{cls.name}.from_data({a})", False,
                        f"{cls.name}.from_data is given an array whose *column* axis was filled by the enumeration of {a.cols}: a named vector is a column")
        if isinstance(a, ArrV) and is_layout(a.rows):
            rows = a.rows.unprime() if isinstance(a.rows, Layout) else a.rows
            ok = rows == cls.layout
            if cls.kind == "cov" and is_layout(a.cols):
                cols = a.cols.unprime()
                ok = ok and cols == cls.layout
            elif cls.kind == "vec" and is_layout(a.cols):
                ok = ok and a.cols == ONE
            self.oblige("LAY-SLOT", env, n, f"{cls.name}.from_data({a})", ok,
                        f"{cls.name}.from_data given {a}, class layout is {cls.layout}")

    def check_execute(self, blk: BlockV, args, env, n):
        lay = Layout(())
        known = True
        flat_args = []
        for a in args:
            if isinstance(a, tuple) and a and a[0] == "STAR" and isinstance(a[1], tuple) and a[1] and a[1][0] == "ARGPACK":
                flat_args.extend(a[1][1])
            elif isinstance(a, tuple) and a and a[0] == "STAR" and isinstance(a[1], TupleV) and all(isinstance(x, SymV) and x.role == "DT" for x in a[1].items):
                flat_args.extend(a[1].items)
            else:
                flat_args.append(a)
        args = flat_args
        for a in args:
            if isinstance(a, tuple) and a and a[0] == "STAR":
                v = a[1]
                if isinstance(v, NInst):
                    lay = lay + v.cls.layout
                elif isinstance(v, ArrV) and isinstance(v.rows, Layout) and v.cols == ONE:
                    lay = lay + v.rows
                elif isinstance(v, SeqV):
                    lay = lay + v.layout
                else:
                    known = False
            elif isinstance(a, SymV) and a.role == "DT":
                lay = lay + Layout((("DT",),))
            else:
                known = False
        if known and isinstance(blk.formals, Layout):
            ok = lay == blk.formals
            self.oblige("LAY-CALL", env, n, f"actuals {lay} == formals {blk.formals}", ok,
                        f"execute() passes {lay} but the block was compiled over {blk.formals} ({blk.site})")
        elif not known:
            self.notes.append(f"LAY-CALL undecided at {self.where(env, n)}: {args}")
        out = blk.outputs
        if isinstance(out, Layout):
            return ("GEN", SeqV(out, "result"))
        if isinstance(out, FlatV):
            return ("GEN", out)
        return Unknown("execute result")

    def construct_named(self, cls: NCls, args, kwargs, starkw, env, n):
        if isinstance(starkw, ObjV) and starkw.cls == "dict" and isinstance(starkw.attrs.get("__kwlayout__"), Layout):
            starkw = KwMapV(starkw.attrs["__kwlayout__"])
        if isinstance(starkw, KwMapV):
            ok = starkw.layout == cls.layout
            self.oblige("LAY-SLOT", env, n, f"{cls.name}(**names of {starkw.layout})", ok,
                        f"{cls.name} built from names enumerated over {starkw.layout}, class layout is {cls.layout}")
        if "_data" in kwargs:
            self.check_from_data(cls, kwargs["_data"], env, n)
        return NInst(cls, origin="constructed")

    def check_from_dict(self, cls: NCls, m, env, n):
        """Cls.from_dict(mapping): keys are bound by str(name); the mapping's key role must be the class's role."""
        if isinstance(m, MapV):
            role = m.keyrole
            segs = cls.layout.segs
            ok = len(segs) == 1 and segs[0][0] == "SORT" and segs[0][1] == role
            self.oblige("LAY-DICT", env, n, f"{cls.name}.from_dict(map keyed by {role}) into layout {cls.layout}", ok,
                        f"{cls.name}.from_dict given a mapping keyed by {role}, class layout is {cls.layout}")

    # -------- repo functions / classes
    def bind(self, fn: ast.FunctionDef, args, kwargs, self_obj):
        params = [a.arg for a in fn.args.args]
        defaults = fn.args.defaults
        bound = {}
        pos = list(args)
        if self_obj is not None and params and params[0] in ("self", "cls"):
            bound[params[0]] = self_obj
            params = params[1:]
        for name, v in zip(params, pos):
            bound[name] = v
        for k, v in kwargs.items():
            bound[k] = v
        return bound, params

    def call_func(self, f: FuncV, args, kwargs, env, n):
        fn = f.node
        if self.depth > 12:
            return Unknown("depth")
        e2 = Env(f.module, fn.name, f.cls, f.self_obj)
        bound, params = self.bind(fn, args, kwargs, f.self_obj)
        allparams = [a.arg for a in fn.args.args] + [a.arg for a in fn.args.kwonlyargs]
        ndef = len(fn.args.defaults)
        posparams = [a.arg for a in fn.args.args]
        for i, d in enumerate(fn.args.defaults):
            pname = posparams[len(posparams) - ndef + i]
            if pname not in bound:
                bound[pname] = self.ev(d, e2)
        for a, d in zip(fn.args.kwonlyargs, fn.args.kw_defaults):
            if a.arg not in bound and d is not None:
                bound[a.arg] = self.ev(d, e2)
        for pnm in allparams:
            e2.vars[pnm] = bound.get(pnm, Unknown("param " + pnm))
        self.depth += 1
        self.stack.append(f"{f.cls}.{fn.name}" if f.cls else fn.name)
        self.sitepaths.append(list(env.path) if env is not None else [])
        try:
            self.ex_block(fn.body, e2)
        finally:
            self.depth -= 1
            self.stack.pop()
            self.sitepaths.pop()
        qn = f"{f.cls}.{fn.name}" if f.cls else fn.name
        call_id = len(self.calls)
        self.calls.append({"callee": qn, "args": dict(bound), "where": self.where(env, n) if env is not None and n is not None else "", "id": call_id,
                           "stack": list(self.stack)})
        if e2.yields:
            return ("GENFN", tuple(e2.yields))
        if not e2.returns:
            return Const(None)
        acc = e2.returns[0]
        for r in e2.returns[1:]:
            acc = join(acc, r)
        self.calls[call_id]["result"] = acc
        self.calls[call_id]["returns"] = list(zip(e2.returns, e2.return_paths))
        if qn in self.opaque:
            nm = self.opaque[qn]
            # the evaluation point is part of the atom: a model / Jacobian evaluated at anything but the caller's own inputs is another quantity
            off = [f"{p_}={v_.origin or '<computed>'}" for p_, v_ in bound.items() if isinstance(v_, NInst) and v_.origin not in ("x", "u", "z", "P")]
            if off:
                nm = nm + "@" + ",".join(off)
            if isinstance(acc, ArrV):
                acc = ArrV(acc.rows, acc.cols, origin=f"call:{qn}#{call_id}", form=MatForm.atom(nm))
            elif isinstance(acc, NInst):
                acc = NInst(acc.cls, origin=nm)
        return acc

    def construct(self, c: ClassV, args, kwargs, env, n):
        if c.name == "BasicBlock":
            arglist = kwargs.get("arglist")
            st = kwargs.get("statements")
            formals = self.layout_of_iter(arglist) if arglist is not None else None
            outputs: Any = Unknown("statements")
            if isinstance(st, SeqV):
                outputs = st.layout
            elif isinstance(st, FlatV):
                outputs = st
            elif isinstance(st, Join):
                fl = [a for a in st.alts if isinstance(a, FlatV)]
                if fl:
                    outputs = fl[0]
            if isinstance(st, tuple) and st and st[0] == "GENFN":
                self.check_cpp_statements(st[1], env, n)
                outputs = ("YIELDS", st[1])
            return BlockV(formals if formals is not None else Unknown("arglist"), outputs, self.where(env, n))
        if c.name == "Config":
            return ConfigV()
        obj = ObjV(c.name, {"__module__": c.module})
        init = self.p.method(c.module, c.name, "__init__")
        if init is not None:
            self.call_func(FuncV(init, c.module, obj, c.name), args, kwargs, env, n)
        return obj


def _loop_of(v):
    if isinstance(v, (IdxV, ElemV)):
        return v.loop
    return None


def _jac_check(self, yields, env, n):
    for y in yields:
        if not (isinstance(y, TupleV) and len(y.items) == 2):
            continue
        tgt, expr = y.items
        if not (isinstance(tgt, tuple) and tgt and tgt[0] == "FSTR"):
            continue
        holes = [h for h in tgt[1] if isinstance(h, IdxV)]
        names = [h for h in tgt[1] if isinstance(h, ElemV)]
        if isinstance(expr, tuple) and expr and expr[0] == "ARRELEM" and len(holes) == 2:
            if _loop_of(expr[2]) is None or _loop_of(expr[3]) is None:
                self.undecided("LAY-COVIDX", env, n, "the indices of the assigned entry could not be evaluated to loop elements")
                continue
            ok = holes[0].loop == _loop_of(expr[2]) and holes[1].loop == _loop_of(expr[3]) and holes[0].offset == 0 and holes[1].offset == 0
            self.oblige("LAY-COVIDX", env, n, f"covariance(i over {holes[0].layout}, j over {holes[1].layout}) = data[i, j]", ok,
                        "covariance(i, j) is assigned data[j, i] / an offset entry" if not ok else "")
            full = holes[0].loop != holes[1].loop
            self.oblige("LAY-COVIDX", env, n, "rows and columns are enumerated by two nested loops (every entry of the declared, "
                        "uninitialised matrix is assigned)", full,
                        "only entries (i, i) are assigned: the off-diagonal entries of the declared (uninitialised) covariance matrix are never written")
            continue
        if len(names) == 1 and not holes:
            src = expr
            key = None
            if isinstance(src, tuple) and src and src[0] == "MAPGET":
                key = src[2]
            elif isinstance(src, ElemV):
                key = src
            if key is not None and _loop_of(key) is None:
                self.undecided("LAY-TGT", env, n, "the assigned expression's key could not be evaluated to a loop element")
            elif key is not None:
                ok = _loop_of(key) == names[0].loop
                self.oblige("LAY-TGT", env, n, f"`double <name of {names[0].layout}>` = model[<same element>]", ok,
                            "the declared local is named after one element but assigned another element's expression")
            continue
        if isinstance(expr, tuple) and expr and expr[0] == "JACAT" and len(holes) == 2:
            _, mat, r, c = expr
            off = SizeV.const(0)
            if isinstance(c, tuple) and c and c[0] == "OFFIDX":
                off, c = c[1], c[2]
            if not (isinstance(r, IdxV) and isinstance(c, IdxV) and isinstance(mat.cols, Layout) and isinstance(mat.rows, Layout)):
                self.undecided("LAY-JAC", env, n, "the row / column position inside the symbolic Jacobian could not be evaluated")
                continue
            # the column block that starts at `off` in the columns layout
            pos, seg = SizeV.const(0), None
            for sg in mat.cols.segs:
                size = Layout((sg,)).size()
                if pos == off:
                    seg = (sg, size)
                    break
                pos = pos + size
            rsize = r.layout.size if isinstance(r.layout, Dim) else (r.layout.size() if isinstance(r.layout, Layout) else None)
            csize = c.layout.size if isinstance(c.layout, Dim) else (c.layout.size() if isinstance(c.layout, Layout) else None)
            ok_rows = holes[0].loop == r.loop and r.offset == 0 and rsize == mat.rows.size()
            ok_cols = seg is not None and holes[1].loop == c.loop and c.offset == 0 and csize == seg[1]
            why = ""
            if not ok_rows:
                why = "the row hole is not the index of the differentiated output"
            elif seg is None:
                why = f"column offset {off} is not the start of a block of the argument list {mat.cols}"
            elif not ok_cols:
                why = (f"the columns are taken at offset {off} of the argument list {mat.cols}, i.e. the block {Layout((seg[0],))} of {seg[1]} symbol(s), "
                       f"but the loop runs over {csize}: entry (i, j) is the derivative with respect to a different symbol than column j stands for")
            self.oblige("LAY-JAC", env, n, f"jacobian(i, j) = J[i, {off} + j] over {mat.cols}", ok_rows and ok_cols, why)
            continue
        if isinstance(expr, tuple) and expr and expr[0] == "DIFF" and len(holes) == 2:
            num, den = expr[1], expr[2]
            out_loop = _loop_of(num[2]) if isinstance(num, tuple) and num and num[0] == "MAPGET" else None
            if out_loop is None and isinstance(num, ElemV):
                out_loop = num.loop
            in_loop = _loop_of(den)
            if out_loop is None or in_loop is None:
                self.undecided("LAY-JAC", env, n, "the differentiated output / variable could not be evaluated to a loop element")
                continue
            ok = holes[0].loop == out_loop and holes[1].loop == in_loop and holes[0].offset == 0 and holes[1].offset == 0
            swapped = holes[0].loop == in_loop and holes[1].loop == out_loop
            self.oblige("LAY-JAC", env, n,
                        f"jacobian(row over {holes[0].layout}, col over {holes[1].layout}) = d(output over {getattr(num[2] if isinstance(num, tuple) else num, 'layout', '?')})/d(var over {getattr(den, 'layout', '?')})",
                        ok, "row/column holes are swapped relative to d(output)/d(variable)" if swapped else "jacobian(i, j) holes are not the indices of the differentiated output and the differentiation variable")


Interp.check_cpp_statements = _jac_check

BUILTINS = {"divmod", "product", "reversed", "sorted", "list", "set", "len", "range", "enumerate", "zip", "str", "float", "dict", "isinstance", "print", "abs", "min", "max", "any", "all", "int", "tuple", "type", "iter", "map", "filter", "locals"}


def to_scalar(v):
    """commutative normal form of a scalar-valued abstract value, or None"""
    if isinstance(v, ScalV):
        return v.s
    if isinstance(v, Const):
        if isinstance(v.value, bool):
            return None
        if isinstance(v.value, (int, float)):
            try:
                return Scalar.const(v.value if isinstance(v.value, int) else __import__("fractions").Fraction(str(v.value)))
            except Exception:
                return None
        if isinstance(v.value, tuple) and v.value and v.value[0] == "config":
            return Scalar.atom("config." + v.value[1])
        return None
    if isinstance(v, SizeV):
        acc = Scalar.const(v.k)
        for r, c in v.terms:
            acc = acc + Scalar.const(c) * Scalar.atom("|" + (f"{r[0]}({r[1]})" if isinstance(r, tuple) else str(r)) + "|")
        return acc
    return None


def unwrap_elem(v):
    """an element of a sequence of (key, value...) tuples whose tag carries the abstract value behaves as that value"""
    if isinstance(v, ElemV) and isinstance(v.elem, tuple) and len(v.elem) == 2 and v.elem[0] == "value" \
            and isinstance(v.elem[1], (MapV, FamV, ObjV, NCls, NInst, SeqV, CollV)):
        return v.elem[1]
    return v


def terminates(stmts):
    if not stmts:
        return False
    last = stmts[-1]
    return isinstance(last, (ast.Return, ast.Raise, ast.Continue, ast.Break))


def tag_of(v):
    if isinstance(v, tuple) and v and v[0] == "MAPGET":
        return ("model", v[1])
    if isinstance(v, ElemV):
        return v.elem
    return "value"


def is_layout(x):
    return isinstance(x, Layout)


def adopt_axes(a, other):
    """an identity matrix allocated by size adopts the name-layout of the operand it is combined with (sizes must agree)"""
    if isinstance(a, ArrV) and a.origin == "eye" and isinstance(a.rows, Dim) and isinstance(other, ArrV) \
            and is_layout(other.rows) and is_layout(other.cols):
        def lsz(l):
            return SizeV.const(1) if l == ONE else l.unprime().size()
        if axis_size(a.rows) == lsz(other.rows) and axis_size(a.cols) == lsz(other.cols):
            return ArrV(other.rows, other.cols, origin="eye", form=a.form)
    return a


def axes_equal(a, b):
    return isinstance(a, Layout) and isinstance(b, Layout) and a == b


def axis_size(a):
    if isinstance(a, Layout):
        return SizeV.const(1) if a == ONE else a.size()
    if isinstance(a, Dim):
        return a.size
    return Unknown("axis")


def layout_prefix(lay: Layout, size):
    """whole-segment prefix of `lay` with total size `size`, or None."""
    if not isinstance(size, SizeV):
        return None
    acc = SizeV.const(0)
    for i, s in enumerate(lay.segs):
        if acc == size:
            return Layout(lay.segs[:i])
        acc = acc + seg_size(s)
    if acc == size:
        return lay
    return None
