"""E6: effect analysis of Python methods -- what does a method write besides its own fresh locals?

writes(fn) returns a list of Effect(kind, target, node):
  kind 'attr'      self.X = ... / obj.X = ...           (target 'self.X')
  kind 'item'      base[...] = ... where base is not a fresh local (target text of base)
  kind 'aug'       x += ... / x.data -= ...  on a non-fresh base
  kind 'mutcall'   base.append/extend/update/pop/clear/sort/... on a non-fresh base; setattr(...)
  kind 'del'       del base[...]
A local is *fresh* when every assignment to it in the function is a constructor of a new object
(np.zeros/eye/array/..., list/dict/set literals and comprehensions, list()/dict()/set() calls,
arithmetic results) -- storing into it cannot alias a parameter or attribute.
"""
from __future__ import annotations

import ast
from dataclasses import dataclass
from typing import List

MUTATORS = {"append", "extend", "insert", "update", "pop", "popitem", "clear", "sort", "reverse", "remove",
            "setdefault", "add", "discard", "fill", "resize", "put", "itemset", "__setitem__", "set_params"}
FRESH_CALLS = {"zeros", "ones", "eye", "empty", "array", "identity", "full", "zeros_like", "ones_like",
               "list", "dict", "set", "tuple", "sorted", "copy", "deepcopy", "matmul", "dot", "transpose",
               "inv", "pinv", "reshape", "flatten", "asdict", "join", "format", "replace", "sum", "abs", "min", "max", "len", "range", "enumerate", "zip", "float", "int", "str"}


@dataclass
class Effect:
    kind: str
    target: str
    line: int
    text: str


def _root(node):
    while isinstance(node, (ast.Attribute, ast.Subscript)):
        node = node.value
    if isinstance(node, ast.Call):
        return None
    return node.id if isinstance(node, ast.Name) else None


def _is_fresh_expr(e, fresh):
    if isinstance(e, (ast.List, ast.Dict, ast.Set, ast.ListComp, ast.DictComp, ast.SetComp, ast.Tuple, ast.Constant,
                      ast.JoinedStr, ast.BinOp, ast.UnaryOp, ast.Compare, ast.BoolOp, ast.GeneratorExp)):
        return True
    if isinstance(e, ast.Call):
        f = e.func
        name = f.attr if isinstance(f, ast.Attribute) else (f.id if isinstance(f, ast.Name) else None)
        if isinstance(f, ast.Attribute) and _root(f.value) in ("np", "numpy", "math", "sympy") \
                and name not in ("asarray", "reshape", "transpose", "squeeze", "ravel", "atleast_1d", "atleast_2d",
                                 "swapaxes", "asanyarray", "ascontiguousarray", "diagonal", "expand_dims", "moveaxis"):
            return True
        if name in FRESH_CALLS:
            # .copy()/.transpose()/.reshape() of anything yields a new object or a view: views alias!
            if name in ("transpose", "reshape") and isinstance(f, ast.Attribute):
                return False
            return True
        return False
    if isinstance(e, ast.Name):
        return e.id in fresh
    if isinstance(e, ast.IfExp):
        return _is_fresh_expr(e.body, fresh) and _is_fresh_expr(e.orelse, fresh)
    return False


def fresh_locals(fn: ast.FunctionDef):
    params = {a.arg for a in fn.args.args + fn.args.kwonlyargs + fn.args.posonlyargs}
    if fn.args.vararg:
        params.add(fn.args.vararg.arg)
    if fn.args.kwarg:
        params.add(fn.args.kwarg.arg)
    defs = {}
    for n in ast.walk(fn):
        if isinstance(n, ast.Assign):
            for t in n.targets:
                for name in _names(t):
                    defs.setdefault(name, []).append(n.value if isinstance(t, ast.Name) else None)
        elif isinstance(n, ast.AnnAssign) and isinstance(n.target, ast.Name):
            defs.setdefault(n.target.id, []).append(n.value)
        elif isinstance(n, (ast.For, ast.comprehension)):
            for name in _names(n.target):
                defs.setdefault(name, []).append(None)
        elif isinstance(n, ast.With):
            for it in n.items:
                if it.optional_vars is not None:
                    for name in _names(it.optional_vars):
                        defs.setdefault(name, []).append(None)
        elif isinstance(n, ast.NamedExpr):
            defs.setdefault(n.target.id, []).append(n.value)
    fresh = set()
    changed = True
    while changed:
        changed = False
        for name, vals in defs.items():
            if name in fresh or name in params:
                continue
            if vals and all(v is not None and _is_fresh_expr(v, fresh) for v in vals):
                fresh.add(name)
                changed = True
    return fresh, params


def _names(t):
    if isinstance(t, ast.Name):
        yield t.id
    elif isinstance(t, (ast.Tuple, ast.List)):
        for e in t.elts:
            yield from _names(e)
    elif isinstance(t, ast.Starred):
        yield from _names(t.value)


def writes(fn: ast.FunctionDef) -> List[Effect]:
    fresh, params = fresh_locals(fn)
    out: List[Effect] = []

    def add(kind, node, tgt):
        out.append(Effect(kind, ast.unparse(tgt), getattr(node, "lineno", 0), " ".join(ast.unparse(node).split())[:140]))

    def store_target(t, node, kind_item="item"):
        if isinstance(t, ast.Attribute):
            add("attr", node, t)
        elif isinstance(t, ast.Subscript):
            if not (isinstance(t.value, ast.Name) and t.value.id in fresh):
                add(kind_item, node, t.value)
        elif isinstance(t, (ast.Tuple, ast.List)):
            for e in t.elts:
                store_target(e, node, kind_item)

    for n in ast.walk(fn):
        if isinstance(n, ast.Assign):
            for t in n.targets:
                store_target(t, n)
        elif isinstance(n, ast.AnnAssign) and n.value is not None:
            store_target(n.target, n)
        elif isinstance(n, ast.AugAssign):
            t = n.target
            if isinstance(t, ast.Name):
                if t.id not in fresh:
                    # x += y rebinds for immutables but mutates arrays/lists in place when x aliases one
                    add("aug", n, t)
            else:
                r = _root(t)
                if not (isinstance(t, ast.Subscript) and isinstance(t.value, ast.Name) and t.value.id in fresh):
                    add("aug", n, t)
        elif isinstance(n, ast.Delete):
            for t in n.targets:
                if isinstance(t, (ast.Subscript, ast.Attribute)):
                    add("del", n, t)
        elif isinstance(n, ast.Call):
            f = n.func
            if isinstance(f, ast.Attribute) and f.attr in MUTATORS:
                base = f.value
                if not (isinstance(base, ast.Name) and base.id in fresh):
                    add("mutcall", n, base)
            elif isinstance(f, ast.Name) and f.id in ("setattr", "delattr"):
                add("mutcall", n, n.args[0] if n.args else f)
            # library calls told to work in place: scipy's overwrite_a / overwrite_b / overwrite_x=True, numpy's out=<array>, copy=False views
            # that are then written are not followed -- only the explicit permissions
            for k in n.keywords:
                if k.arg and k.arg.startswith("overwrite_") and not (isinstance(k.value, ast.Constant) and k.value.value is False) and n.args:
                    a0 = n.args[0]
                    if isinstance(a0, (ast.Name, ast.Attribute, ast.Subscript)) and not _is_fresh_expr(a0, fresh):
                        add("mutcall", n, a0)
                if k.arg == "out" and isinstance(k.value, (ast.Name, ast.Attribute, ast.Subscript)) and not (isinstance(k.value, ast.Name) and k.value.id in fresh):
                    add("mutcall", n, k.value)
    return out
