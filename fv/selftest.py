"""Thorough tier: test the checker both ways on scratch copies of the *current* /repo sources (never on /repo itself).

  sensitivity  every seeded change kept under /verif/seeded that names this property (or is cross-listed in meta.json
               "also_breaks") and every AST-computed mutation operator for this property (fv/mutops.py) is applied to a scratch
               copy; the quick check must exit 1 (VIOLATION) there
  silence      every behaviour-preserving twin under /verif/twins is applied to a scratch copy; the quick check must exit 0; so is every
               benign syntactic variant (fv/benign.py: renamed locals, swapped if-arms, hoisted temporaries, flipped comparisons, keyword /
               positional argument passing, De Morgan, ...) of every Python file this property's check reads -- computed from the CURRENT
               sources, one function or site at a time
A patch that no longer applies to the current tree is reported as skipped (the tree changed), not as a failure.
"""
from __future__ import annotations

import concurrent.futures as cf
import glob
import json
import os
import shutil
import subprocess
import sys
import tempfile
import threading

from . import core

CHECK = os.path.join(core.VERIF, "fv", "check.py")


def scratch(repo):
    td = tempfile.mkdtemp(prefix="fvself.")
    subprocess.run(["rsync", "-a", "--exclude", "test", "--exclude", "__pycache__", os.path.join(repo, "py"), os.path.join(repo, "cpp"), td + "/repo/"],
                   check=True)
    subprocess.run(["git", "init", "-q", "."], cwd=td + "/repo", stdout=subprocess.DEVNULL, stderr=subprocess.DEVNULL)
    return td


def run_check(prop, repo_dir):
    env = dict(os.environ, FV_NO_EVIDENCE="1", FV_REPLAY_DIR=os.path.join(os.path.dirname(repo_dir), "replay"), FV_SELFTEST="0")
    r = subprocess.run([sys.executable, CHECK, prop, "--tier", "quick", "--repo", repo_dir], capture_output=True, text=True, env=env)
    first = next((l.strip() for l in r.stdout.splitlines() if l.strip().startswith("[")), "")
    err = next((l.strip() for l in r.stdout.splitlines() if l.startswith("ANALYSIS-ERROR")), "")
    return r.returncode, (first or err)[:220]


def one_patch(prop, repo, name, patch, expect):
    td = scratch(repo)
    try:
        r = subprocess.run(["git", "apply", patch], cwd=td + "/repo", capture_output=True, text=True)
        if r.returncode:
            return dict(case=name, expect=expect, result="skipped", detail="patch does not apply to the current tree")
        rc, msg = run_check(prop, td + "/repo")
        return dict(case=name, expect=expect, rc=rc, result={0: "holds", 1: "violation", 2: "analysis-error"}.get(rc, str(rc)), detail=msg)
    finally:
        shutil.rmtree(td, ignore_errors=True)


def one_mutop(prop, repo, op):
    td = scratch(repo)
    try:
        try:
            applied = op["apply"](td + "/repo")
        except Exception as e:
            return dict(case=op["name"], expect="violation", result="operator-error", detail=f"{type(e).__name__}: {e}")
        if not applied:
            return dict(case=op["name"], expect="violation", result="not-applicable", detail="the operator's site no longer exists in the current tree")
        rc, msg = run_check(prop, td + "/repo")
        return dict(case=op["name"], expect="violation", rc=rc, result={0: "holds", 1: "violation", 2: "analysis-error"}.get(rc, str(rc)), detail=msg)
    finally:
        shutil.rmtree(td, ignore_errors=True)


_tls = threading.local()
_ALL_SCRATCH = []


def one_benign(prop, repo, rel, q, desc, new_src, orig_src):
    """benign variants reuse one scratch copy per worker thread (the file is rewritten and restored)"""
    if getattr(_tls, "repo", None) != repo:
        _tls.td = scratch(repo)
        _tls.repo = repo
        _ALL_SCRATCH.append(_tls.td)
    path = os.path.join(_tls.td, "repo", rel)
    open(path, "w").write(new_src)
    try:
        rc, msg = run_check(prop, _tls.td + "/repo")
    finally:
        open(path, "w").write(orig_src)
    return dict(case=f"benign:{rel}:{q}: {desc}", expect="holds", rc=rc, result={0: "holds", 1: "violation", 2: "analysis-error"}.get(rc, str(rc)), detail=msg)


def benign_cases(prop, repo):
    from . import benign
    out = []
    for rel in benign.files_for(prop):
        path = os.path.join(repo, rel)
        if not os.path.exists(path):
            continue
        src = open(path).read()
        try:
            vs = list(benign.variants(src, set(benign.KINDS), []))
        except SyntaxError:
            continue
        for q, desc, new in vs:
            try:
                compile(new, rel, "exec")
            except SyntaxError:
                continue
            out.append((rel, q, desc, new, src))
    return out


def cases_for(prop):
    seeded = []
    for d in sorted(glob.glob(os.path.join(core.VERIF, "seeded", "*"))):
        mp = os.path.join(d, "meta.json")
        if not os.path.exists(mp):
            continue
        meta = json.load(open(mp))
        props = {meta.get("property")} | set(meta.get("also_breaks", []))
        if prop in props:
            # a change that replaces part of the trusted base (e.g. its own sympy printer) cannot be judged: the expected report is ANALYSIS-ERROR
            exp = "analysis-error" if str(meta.get("expected_report", "")).upper() == "ANALYSIS-ERROR" else "violation"
            seeded.append((os.path.basename(d), os.path.join(d, "patch.diff"), exp))
    twins = [(os.path.basename(p)[:-5], p) for p in sorted(glob.glob(os.path.join(core.VERIF, "twins", "*.diff")))]
    return seeded, twins


def run(ctx: core.Ctx):
    """returns (results, problems)"""
    prop = ctx.prop
    seeded, twins = cases_for(prop)
    try:
        from . import mutops
        ops = mutops.operators(prop)
    except ImportError:
        ops = []
    jobs = []
    with cf.ThreadPoolExecutor(16) as ex:
        for name, patch, exp in seeded:
            jobs.append(ex.submit(one_patch, prop, ctx.repo, "seeded:" + name, patch, exp))
        for name, patch in twins:
            jobs.append(ex.submit(one_patch, prop, ctx.repo, "twin:" + name, patch, "holds"))
        for op in ops:
            jobs.append(ex.submit(one_mutop, prop, ctx.repo, op))
        if os.environ.get("FV_BENIGN", "1") != "0":
            for rel, q, desc, new, src in benign_cases(prop, ctx.repo):
                jobs.append(ex.submit(one_benign, prop, ctx.repo, rel, q, desc, new, src))
        try:
            results = [j.result() for j in jobs]
        finally:
            for td in _ALL_SCRATCH:
                shutil.rmtree(td, ignore_errors=True)
            del _ALL_SCRATCH[:]
    problems = []
    for r in results:
        if r["result"] in ("skipped", "not-applicable"):
            continue
        if r["expect"] == "analysis-error" and r["result"] not in ("analysis-error", "violation"):
            problems.append(f"sensitivity: {r['case']} leaves the trusted base and was expected to be reported (analysis-error) but the check says {r['result']}")
        if r["expect"] == "violation" and r["result"] != "violation":
            problems.append(f"sensitivity: {r['case']} was expected to be reported but the check says {r['result']} {r['detail']}")
        if r["expect"] == "holds" and r["result"] != "holds":
            problems.append(f"silence: {r['case']} is behaviour preserving but the check says {r['result']}: {r['detail']}")
    return results, problems
