"""E3 on the C++ side: normal forms of the generated filter's templates (process_model.cpp, sensor_model.hpp) and of
formak::innovation_filtering::edit::removeInnovation, read from clang's AST of a witness TU (fv.witness)."""
from __future__ import annotations

from typing import Any, Dict, List, Optional

from . import core, cppast, witness
from .matform import MatForm, Scalar

SYM = {"P", "M", "Q", "Sinv"}


def A(name):
    return MatForm.atom(name, name in SYM)


class CppEval:
    """evaluates the IR of a template-instantiated function body to matrix normal forms + an event list"""

    def __init__(self, kind: str, params: List[str]):
        self.kind = kind                  # 'process' | 'sensor'
        self.env: Dict[str, Any] = {}
        self.alias: Dict[str, Any] = {}
        self.events: List[Dict[str, Any]] = []
        self.problems: List[str] = []
        self.calls: List[Dict[str, Any]] = []
        self.guard: List[str] = []
        self.params = params
        self.state_param = next((p for p in params if p == "state"), params[0] if params else "state")

    # ---- naming of sources
    def source_atom(self, e) -> Optional[MatForm]:
        """matrix-valued sources: <state>.covariance.data -> P etc."""
        e = self.deref(e)
        if e[0] == "field" and e[2] == "data":
            b = self.deref(e[1])
            if b == ("field", ("ref", self.state_param), "covariance"):
                return A("P")
            if b == ("field", ("ref", self.state_param), "state"):
                return A("x")
            if b == ("ref", "reading"):
                return A("z")
            if b[0] == "call" and b[1] == "model" and self.kind == "sensor":
                self.note_call("h(x)", b)
                return A("h(x)")
            if b[0] == "ref" and b[1] in self.env and isinstance(self.env[b[1]], dict):
                v = self.env[b[1]].get("data")
                if isinstance(v, MatForm):
                    return v
        return None

    def note_call(self, atom, call):
        self.calls.append({"atom": atom, "callee": call[1] if isinstance(call[1], str) else cppast.show(call[1]),
                           "args": [cppast.show(self.deref(a)) for a in call[2]]})

    def deref(self, e):
        seen = 0
        while isinstance(e, tuple) and e[0] == "ref" and e[1] in self.alias and seen < 10:
            e = self.alias[e[1]]
            seen += 1
        return e

    def deref_deep(self, e, depth=0):
        """every aliased local inside e replaced by what it names (a `constexpr double t = Config::x;` read through)"""
        if depth > 8 or not isinstance(e, tuple):
            return e
        if e and e[0] == "ref" and e[1] in self.alias:
            return self.deref_deep(self.alias[e[1]], depth + 1)
        return tuple(self.deref_deep(x, depth) if isinstance(x, tuple) else ([self.deref_deep(y, depth) for y in x] if isinstance(x, list) else x) for x in e)

    def mat(self, e) -> Optional[MatForm]:
        e0 = e
        e = self.deref(e)
        s = self.source_atom(e)
        if s is not None:
            return s
        k = e[0]
        if k == "ref":
            v = self.env.get(e[1])
            return v if isinstance(v, MatForm) else None
        if k == "bin" and e[1] in ("*", "+", "-"):
            l, r = self.mat(e[2]), self.mat(e[3])
            if l is None or r is None:
                return None
            return l * r if e[1] == "*" else (l + r if e[1] == "+" else l - r)
        if k == "un" and e[1] == "-":
            v = self.mat(e[2])
            return -v if v is not None else None
        if k == "mcall" and e[2] == "transpose" and not e[3]:
            v = self.mat(e[1])
            return v.T() if v is not None else None
        if k == "mcall" and e[2] == "inverse" and not e[3]:
            v = self.mat(e[1])
            return v.inv() if v is not None else None
        if k == "mcall" and e[2] == "()" and len(e[3]) == 2:
            return self.mat(e[1])
        if k == "call" and isinstance(e[1], str):
            name = e[1]
            table = {"process": {"process_jacobian": "G", "control_jacobian": "V", "covariance": "M"},
                     "sensor": {"jacobian": "H", "covariance": "Q"}}[self.kind]
            if name in table:
                self.note_call(table[name], e)
                # the linearisation point is part of the atom: a Jacobian / noise matrix evaluated anywhere but at the function's own state
                # parameter is a different matrix
                pos = 1 if self.kind == "process" else 0
                at = self.deref(e[2][pos]) if len(e[2]) > pos else None
                if at is not None and at != ("ref", self.state_param):
                    return MatForm.atom(f"{table[name]}@{cppast.show(at)}", False)
                return A(table[name])
        return None

    # ---- statements
    def run(self, body):
        self.block(body)
        return self

    def block(self, stmts):
        for s in stmts:
            self.stmt(s)

    def stmt(self, s):
        k = s[0]
        if k == "decl":
            _, name, init, typ = s
            if init is None:
                self.env[name] = {}          # default-constructed struct (State / Covariance): fields assigned later
                return
            m = self.mat(init)
            if m is not None:
                self.env[name] = m
                return
            d = self.deref(init)
            if d[0] == "call" and d[1] == "model":
                self.note_call("f(dt,x,u)" if self.kind == "process" else "h(x)", d)
                self.env[name] = {"__origin__": "f(dt,x,u)" if self.kind == "process" else "h(x)"}
                self.alias[name] = d
                return
            self.alias[name] = init
            return
        if k == "assign":
            tgt, val = s[1], s[2]
            m = self.mat(val)
            if tgt[0] == "field" and tgt[2] == "data" and tgt[1][0] == "ref":
                self.env.setdefault(tgt[1][1], {})
                if isinstance(self.env[tgt[1][1]], dict):
                    self.env[tgt[1][1]]["data"] = m
                    if m is None:
                        self.problems.append(f"no normal form for `{cppast.show(val)}` assigned to {cppast.show(tgt)}")
                return
            if tgt[0] == "bin" and tgt[1] == "[]":
                self.events.append({"kind": "store", "target": cppast.show(tgt[2]), "key": cppast.show(tgt[3]), "form": m,
                                    "guard": list(self.guard)})
                return
            if tgt[0] == "ref":
                if m is not None:
                    self.env[tgt[1]] = m
                return
            self.events.append({"kind": "store", "target": cppast.show(tgt), "key": None, "form": m, "guard": list(self.guard)})
            return
        if k == "if":
            _, cond, then, els, cval = s
            if cval is not None:
                self.events.append({"kind": "constexpr-if", "cond": cppast.show(self.deref_deep(cond)), "value": cval})
                self.block(then if cval else els)
                return
            c = self.deref(cond)
            if c[0] == "call" and c[1] == "removeInnovation":
                args = c[2]
                self.events.append({"kind": "decision", "threshold": cppast.show(self.deref(args[0])) if args else None,
                                    "innovation": self.mat(args[1]) if len(args) > 1 else None,
                                    "sinv": self.mat(args[2]) if len(args) > 2 else None, "guard": list(self.guard)})
                self.guard.append("removeInnovation")
                self.block(then)
                self.guard.pop()
                if els:
                    self.guard.append("!removeInnovation")
                    self.block(els)
                    self.guard.pop()
                return
            self.guard.append(cppast.show(cond))
            self.block(then)
            self.guard.pop()
            if els:
                self.guard.append("!" + cppast.show(cond))
                self.block(els)
                self.guard.pop()
            return
        if k == "return":
            self.events.append({"kind": "return", "value": self.ret_value(s[1]), "text": cppast.show(s[1]) if s[1] else None,
                                "guard": list(self.guard)})
            return
        if k == "expr":
            return
        if k == "static_assert":
            return
        self.problems.append(f"statement {k} not understood in the generated filter body")

    def ret_value(self, e):
        if e is None:
            return None
        e = self.deref(e)
        if e == ("ref", self.state_param):
            return {"state": "x", "covariance": "P", "same_object": True}
        if e[0] == "init" and len(e[2]) == 2:
            out = {}
            for name, part in zip(("state", "covariance"), e[2]):
                p = part
                v = self.env.get(p[1]) if p[0] == "ref" else None
                if isinstance(v, dict):
                    out[name] = v.get("data") if "data" in v else v.get("__origin__")
                else:
                    out[name] = v
            return out
        return {"unknown": cppast.show(e)}


def _find_fn(docs, pred):
    hits = []
    for d in docs:
        hits += cppast.find_all(d, pred)
    return hits


def generated_filter_forms(ctx: core.Ctx, w: "witness.Witness", v: "witness.Valuation"):
    """-> dict with CppEval results for process_model and sensor_model<first reading> in valuation v"""
    docs = w.ast(v, "ExtendedKalmanFilter")
    out = {}
    fns = _find_fn(docs, lambda n: n.get("kind") == "CXXMethodDecl" and n.get("name") == "process_model"
                   and any(c.get("kind") == "CompoundStmt" for c in cppast.kids(n)))
    if fns:
        fn = fns[0]
        params = [p for p, _ in cppast.params_of(fn)]
        out["process"] = (CppEval("process", params).run(cppast.body_of(fn)), params)
    # instantiated sensor_model<gen::Alpha>
    sms = _find_fn(docs, lambda n: n.get("kind") == "CXXMethodDecl" and n.get("name") == "sensor_model"
                   and any(c.get("kind") == "TemplateArgument" for c in cppast.kids(n))
                   and any(c.get("kind") == "CompoundStmt" for c in cppast.kids(n)))
    for fn in sms:
        targ = next((c.get("type", {}).get("qualType", "") for c in cppast.kids(fn) if c.get("kind") == "TemplateArgument"), "")
        params = [p for p, _ in cppast.params_of(fn)]
        out.setdefault("sensor", []).append((targ, CppEval("sensor", params).run(cppast.body_of(fn)), params))
    return out


def helper_forms(ctx: core.Ctx):
    """normal forms of removeInnovation from clang's AST of cpp/include/formak/innovation_filtering.h (instantiated at m = 3)"""
    import os
    import tempfile
    import shutil
    rel = "cpp/include/formak/innovation_filtering.h"
    ctx.read(rel)
    td = tempfile.mkdtemp(prefix="fvif.")
    try:
        tu = os.path.join(td, "if.cpp")
        open(tu, "w").write("#include <formak/innovation_filtering.h>\n"
                            "template bool formak::innovation_filtering::edit::removeInnovation<3>(double, const Eigen::Matrix<double,3,1>&, "
                            "const Eigen::Matrix<double,3,3>&);\n")
        inc = [cppast.STUBS, os.path.join(ctx.repo, "cpp/include")]
        r = cppast.clang(sum((["-I", i] for i in inc), []) + [tu])
        if r.returncode:
            ctx.find("NIS-FORM", rel, "removeInnovation", "helper does not type-check",
                     "removeInnovation<3> does not type-check against dimension-typed matrices: " + (r.stderr.strip().splitlines() or ["?"])[0][-200:])
            return None
        docs = cppast.ast_json(tu, inc, "innovation_filtering")      # the whole namespace: removeInnovation and the helpers it may call
    finally:
        shutil.rmtree(td, ignore_errors=True)
    fns = _find_fn(docs, lambda n: n.get("kind") == "FunctionDecl" and n.get("name") == "removeInnovation"
                   and any(c.get("kind") == "TemplateArgument" for c in cppast.kids(n)))
    if not fns:
        raise core.AnalysisError(f"{rel}: instantiation removeInnovation<3> not found in clang's AST")
    fn = fns[0]
    params = cppast.params_of(fn)
    if len(params) != 3:
        raise core.AnalysisError(f"{rel}: removeInnovation has {len(params)} parameters, expected (threshold, innovation, S_inv)")
    body = cppast.body_of(fn)
    tpar = next((c.get("name") for d in docs for c in cppast.kids(d) if c.get("kind") == "NonTypeTemplateParmDecl"), "reading_size")
    kname, yname, sname = params[0][0], params[1][0], params[2][0]
    env: Dict[str, Any] = {}
    # free helper functions of the header (instantiated templates or plain functions): a call is replaced by the helper's returned
    # expression with its parameters substituted (straight-line helpers: local declarations, one return)
    helpers: Dict[str, Any] = {}
    for hf in _find_fn(docs, lambda n: n.get("kind") == "FunctionDecl" and n.get("name") != "removeInnovation"):
        hb = cppast.body_of(hf)
        if hb is not None:
            inst = any(c.get("kind") == "TemplateArgument" for c in cppast.kids(hf))
            lst = helpers.setdefault(hf.get("name"), [])
            lst.insert(0, (cppast.params_of(hf), hb)) if inst else lst.append((cppast.params_of(hf), hb))     # instantiations first
    # static member functions of helper structs (`detail::EditingTest<m>::normalizedInnovation`): the instantiated specialisation's methods first

    def methods(n, in_spec):
        if not isinstance(n, dict):
            return
        k = n.get("kind")
        if k == "CXXMethodDecl" and n.get("name") and not n["name"].startswith("operator"):
            hb = cppast.body_of(n)
            if hb is not None:
                lst = helpers.setdefault(n["name"], [])
                lst.insert(0, (cppast.params_of(n), hb)) if in_spec else lst.append((cppast.params_of(n), hb))
        for c in n.get("inner", []) or []:
            methods(c, in_spec or k == "ClassTemplateSpecializationDecl")
    for d in docs:
        methods(d, False)

    def unfold(e, depth=0):
        """the expression a call of a helper stands for, or None"""
        from .rtmodel import _subst_ir
        if depth > 4 or e[0] != "call" or not isinstance(e[1], str) or e[1].split("::")[-1] not in helpers:
            return None
        cands = [h for h in helpers[e[1].split("::")[-1]] if len(h[0]) == len(e[2])]
        if not cands:
            return None
        hp, hb = cands[0]
        m = {pn: a for (pn, _), a in zip(hp, e[2])}
        out = None
        for st in hb:
            if st[0] == "decl" and st[2] is not None:
                m[st[1]] = _subst_ir(st[2], m)
            elif st[0] == "return" and st[1] is not None and st is hb[-1]:
                out = _subst_ir(st[1], m)
            elif st[0] == "static_assert":
                continue
            else:
                return None
        return out

    def mat(e):
        k = e[0]
        if k == "ref":
            if e[1] == yname:
                return MatForm.atom("y")
            if e[1] == sname:
                return MatForm.atom("Sinv", True)
            v = env.get(e[1])
            return v[1] if isinstance(v, tuple) and v[0] == "M" else None
        if k == "bin" and e[1] in "*+-":
            l, r = mat(e[2]), mat(e[3])
            if l is None or r is None:
                return None
            return l * r if e[1] == "*" else (l + r if e[1] == "+" else l - r)
        if k == "mcall" and e[2] == "transpose":
            v = mat(e[1])
            return v.T() if v is not None else None
        if k == "mcall" and e[2] == "()" and len(e[3]) in (1, 2):
            return mat(e[1])
        if k == "call":
            u = unfold(e)
            return mat(u) if u is not None else None
        return None

    def sca(e):
        k = e[0]
        if k == "call" and e[1] == "narrow_float" and len(e[2]) == 1:
            # a float literal / a cast to float: the arithmetic it takes part in is single precision -- not the double-precision value the other side computes
            v = sca(e[2][0])
            return Scalar.atom("single-precision[" + repr(v) + "]") if v is not None else None
        if k == "call" and e[1] != "sqrt":
            u = unfold(e)
            return sca(u) if u is not None else None
        if k == "mcall" and e[2] == "()" and len(e[3]) == 2 and all(a == ("num", "0") for a in e[3]):
            # (1x1 matrix product)(0, 0) used as a number: an atom named by the matrix normal form
            m_ = mat(e[1])
            return Scalar.atom("M[" + repr(m_) + "]") if m_ is not None else None
        if k == "num":
            try:
                from fractions import Fraction
                return Scalar.const(Fraction(str(e[1])))
            except Exception:
                return None
        if k == "ref":
            if e[1] == kname:
                return Scalar.atom("config.innovation_filtering")
            if e[1] == tpar:
                return Scalar.atom("|READ(k)|")
            v = env.get(e[1])
            if isinstance(v, tuple) and v[0] == "M":
                return Scalar.atom("M[" + repr(v[1]) + "]")       # a matrix-valued local read as a number
            return v[1] if isinstance(v, tuple) and v[0] == "S" else None
        if k == "bin" and e[1] in "*+-":
            l, r = sca(e[2]), sca(e[3])
            if l is None or r is None:
                return None
            return l * r if e[1] == "*" else (l + r if e[1] == "+" else l - r)
        if k == "call" and e[1] == "sqrt" and len(e[2]) == 1:
            v = sca(e[2][0])
            return v.sqrt() if v is not None else None
        return None

    result = None
    for s in body:
        if s[0] == "decl" and s[2] is not None:
            m = mat(s[2])
            if m is not None:
                env[s[1]] = ("M", m)
                continue
            sc = sca(s[2])
            if sc is not None:
                env[s[1]] = ("S", sc)
                continue
            raise core.AnalysisError(f"{rel}: cannot evaluate `{s[1]} = {cppast.show(s[2])}`")
        elif s[0] == "return" and s[1] is not None:
            e = s[1]
            if e[0] == "bin" and e[1] in (">", ">=", "<", "<="):
                l, r, op = e[2], e[3], e[1]
                if op in ("<", "<="):
                    l, r, op = r, l, {"<": ">", "<=": ">="}[op]
                result = (mat(l), sca(r), {">": "Gt", ">=": "GtE"}[op], cppast.show(e))
                if result[0] is None or result[1] is None:
                    # not  <1x1 matrix product> <op> <scalar bound> : both sides as commutative polynomials over the matrix-valued atoms
                    ls, rs = sca(l), sca(r)
                    if ls is not None and rs is not None:
                        result = ("POLY", ls, rs, {">": "Gt", ">=": "GtE"}[op], cppast.show(e))
            else:
                raise core.AnalysisError(f"{rel}: removeInnovation returns `{cppast.show(e)}`, not a comparison")
    if result is not None and result[0] == "POLY":
        _, ls, rs, op, text = result
        ctx.find("NIS-FORM", rel, "removeInnovation", "decision form",
                 f"the C++ helper decides by `{text}`, i.e.  {ls!r}  {op}  {rs!r} : that is not  y^T.Inv(S).y > k*sqrt(2m) + m  (a rearrangement that squares or "
                 f"otherwise transforms both sides changes which readings are discarded)")
        return None
    if result is None or result[0] is None or result[1] is None:
        raise core.AnalysisError(f"{rel}: could not derive the normal forms of removeInnovation's decision")
    return result


def c06(ctx: core.Ctx, want_nis, want_thr, forms):
    """C++ side of C06: helper forms, template call site, disabled setting."""
    hdr = "cpp/include/formak/innovation_filtering.h"
    h = helper_forms(ctx)
    if h is not None:
        nis, thr, op, text = h
        forms["cpp_helper"] = (repr(nis), repr(thr), op)
        ctx.functions.append("formak::innovation_filtering::edit::removeInnovation")
        ctx.oblige("NIS-FORM", f"{hdr}:removeInnovation", f"NIS = {nis!r}", nis == want_nis, file=hdr, func="removeInnovation", construct="NIS",
                   msg=f"C++ helper's normalised innovation is  {nis!r} ; required  {want_nis!r}")
        ctx.oblige("THRESH-FORM", f"{hdr}:removeInnovation", f"threshold = {thr!r}", thr == want_thr, file=hdr, func="removeInnovation",
                   construct="threshold", msg=f"C++ helper's threshold is  {thr!r} ; required  {want_thr!r}")
        ctx.oblige("CMP", f"{hdr}:removeInnovation", f"comparison {op}", op == "Gt", file=hdr, func="removeInnovation", construct="comparison",
                   msg=f"C++ helper decides with {op}; the property requires strictly greater")
        if "python" in forms:
            ctx.oblige("SIBLINGS", f"{hdr}:removeInnovation", f"python {forms['python']} == C++ {forms['cpp_helper']}",
                       forms["python"] == forms["cpp_helper"], file=hdr, func="removeInnovation", construct="python vs helper",
                       msg=f"Python decides by {forms['python']}, the C++ helper by {forms['cpp_helper']}")
    # template call site
    w = witness.Witness(ctx)
    w.prefetch([witness.Valuation(True, True, True), witness.Valuation(True, True, False)])
    tpl = "py/formak/templates/sensor_model.hpp"
    n_sites = 0
    for flt in (True, False):
        v = witness.Valuation(control=True, calibration=True, filtering=flt)
        rc, diag, _ = w.compile(v)
        if rc:
            ctx.note(f"witness {v.tag} does not type-check (C12): {diag[:1]}")
        gf = generated_filter_forms(ctx, w, v)
        sens = gf.get("sensor") or []
        if not sens:
            ctx.error(f"{tpl}: no instantiated sensor_model found in the witness {v.tag}")
            continue
        targ, ev, params = sens[0]
        for p in ev.problems:
            ctx.error(f"{tpl}: {p}")
        decisions = [e for e in ev.events if e["kind"] == "decision"]
        cifs = [e for e in ev.events if e["kind"] == "constexpr-if" and "innovation_filtering" in e["cond"]]
        where = f"{tpl} [{v.tag}]"
        if flt:
            P, Q, H = A("P"), A("Q"), A("H")
            S = H * P * H.T() + Q
            ctx.oblige("SIBLINGS", where, f"{len(decisions)} decision site(s)", len(decisions) == 1, file=tpl, func="sensor_model",
                       construct="decision site count", msg=f"the generated sensor_model consults the filter decision {len(decisions)} times")
            for d in decisions:
                n_sites += 1
                ok_t = d["threshold"] is not None and d["threshold"].replace(" ", "").endswith("innovation_filtering")
                ctx.oblige("ARGS", where, f"threshold argument {d['threshold']}", ok_t, file=tpl, func="sensor_model", construct="decision threshold",
                           msg=f"the generated filter passes `{d['threshold']}` as the editing threshold, not cpp::Config::innovation_filtering")
                ctx.oblige("ARGS", where, f"innovation argument {d['innovation']!r}", d["innovation"] == A("z") - A("h(x)"), file=tpl,
                           func="sensor_model", construct="decision innovation", msg=f"decision taken on {d['innovation']!r}, not z - h(x)")
                ctx.oblige("ARGS", where, f"S_inv argument {d['sinv']!r}", d["sinv"] == S.inv(), file=tpl, func="sensor_model",
                           construct="decision S_inv", msg=f"decision taken with {d['sinv']!r}, not Inv(H.P.H^T + Q)")
            # early return + record order
            rets = [e for e in ev.events if e["kind"] == "return"]
            early = [e for e in rets if "removeInnovation" in e["guard"]]
            ctx.oblige("EARLY", where, f"{len(early)} rejection return(s)", len(early) == 1, file=tpl, func="sensor_model",
                       construct="rejection return count", msg="the generated sensor_model has no (single) early return on rejection")
            for e in early:
                okv = isinstance(e["value"], dict) and e["value"].get("same_object")
                ctx.oblige("EARLY", where, f"rejection returns {e['text']}", okv, file=tpl, func="sensor_model", construct="rejection return",
                           msg=f"on rejection the generated sensor_model returns `{e['text']}`, not its own state argument")
            idx = {id(e): i for i, e in enumerate(ev.events)}
            recs = [e for e in ev.events if e["kind"] == "store" and "_innovations" in (e["target"] or "")]
            okr = bool(recs) and bool(decisions) and all(idx[id(r)] < idx[id(decisions[0])] and not r["guard"] for r in recs[:1])
            ctx.oblige("EARLY", where, "innovation stored before the decision", okr, file=tpl, func="sensor_model",
                       construct="record before decision", msg="the generated filter does not store the innovation (unconditionally) before the accept/reject decision")
            for r in recs:
                ctx.oblige("EARLY", where, f"stored innovation = {r['form']!r}", r["form"] == A("z") - A("h(x)"), file=tpl, func="sensor_model",
                           construct="stored innovation", msg=f"stored innovation is {r['form']!r}, not z - h(x)")
        else:
            ctx.oblige("DISABLED", where, f"threshold 0.0 -> {len(decisions)} decision site(s)", not decisions and bool(cifs), file=tpl,
                       func="sensor_model", construct="disabled guard",
                       msg="with cpp::Config::innovation_filtering == 0.0 the generated sensor_model still consults the filter decision "
                           "(no `if constexpr (threshold > 0.0)` guard around it)")
    ctx.floor("SIBLINGS", n_sites, 1, "decision call sites in the generated sensor_model")
    disabled_mapping(ctx)


def disabled_mapping(ctx: core.Ctx):
    """cpp.Config.ccode maps a falsy innovation_filtering to 0.0 (the value the template's guard treats as disabled)."""
    import ast
    rel = "py/formak/cpp.py"
    cpp = ctx.parse(rel)
    cfg = core.need(core.find_class(cpp, "Config"), "cpp.Config")
    cc = core.need(core.find_func(cfg, "ccode"), "cpp.Config.ccode")
    n = 0
    for c in ast.walk(cc):
        if isinstance(c, ast.Call) and isinstance(c.func, ast.Name) and c.func.id == "MemberDeclaration" and len(c.args) >= 3 \
                and isinstance(c.args[1], ast.Constant) and c.args[1].value == "innovation_filtering":
            n += 1
            v = c.args[2]
            ok = isinstance(v, ast.IfExp) and ast.unparse(v.test) == "self.innovation_filtering" and ast.unparse(v.body) == "self.innovation_filtering" \
                and isinstance(v.orelse, ast.Constant) and v.orelse.value in (0.0, 0)
            ok = ok or (isinstance(v, ast.BoolOp) and isinstance(v.op, ast.Or) and ast.unparse(v.values[0]) == "self.innovation_filtering"
                        and isinstance(v.values[-1], ast.Constant) and v.values[-1].value in (0.0, 0))
            ctx.oblige("DISABLED", f"{rel}:Config.ccode", f"innovation_filtering printed from `{ast.unparse(v)}`", ok, file=rel, func="Config.ccode",
                       construct="innovation_filtering value",
                       msg=f"cpp::Config::innovation_filtering is printed from `{ast.unparse(v)}`: a disabled (None / 0) threshold must become 0.0 "
                           f"and an enabled one must be printed unchanged", line=c.lineno)
    ctx.floor("DISABLED-MAP", n, 1, "MemberDeclaration of innovation_filtering in cpp.Config.ccode")
