"""Benign-transformation sweep (library: used by tools/benign.py and by the thorough tier, fv/selftest.py): behaviour-preserving syntactic rewrites of the anchored code;
every check must still exit 0 on each variant.  Variants (one per function / site):

  rename      every local variable of one function (not parameters, not attributes, not globals) gets the suffix `_rn`
  swap-if     one `if c: A else: B` becomes `if not (c): B else: A`
  dot-T       every `x.transpose()` in one function becomes `x.T`
  matmul      every `np.matmul(a, b)` in one function becomes `(a @ b)`
  fstring     `"..{}..".format(x)` with plain `{}` holes becomes an f-string (one function at a time)
  return-temp every `return <non-trivial expr>` of one function becomes `ret_rn = <expr>; return ret_rn`
  hoist-arg   one statement `x = f(<call>, ...)` / `f(<call>, ...)` has its first (leftmost-evaluated) positional argument, when that is a call,
              bound to a fresh local first: `arg_rn = <call>; x = f(arg_rn, ...)` (f a plain name / attribute chain)
  exit-else   one `if c: ...; return/raise/continue` followed by more statements gets the rest moved into its `else:` arm
  swap-stmts  two adjacent simple assignments with call-free right-hand sides, neither reading the other's target, are exchanged
  kw-reorder  the keyword arguments of one call (>= 2 keywords, all values side-effect free: names / attributes / constants / subscripts) are reversed
  pos-to-kw   one call `self.m(a, b)` of a method of the same class passes its positional arguments by keyword
  demorgan    one `not (a and b)` / `a and b` test of an if (both operands call-free) becomes `not a or not b` / `not (not a or not b)`
  cmp-flip    one comparison `a < b` becomes `b > a` (likewise <=, >, >=, ==, !=) when both sides are side-effect-free names / attributes / constants / len()

"""
from __future__ import annotations

import ast
import copy

KINDS = ["rename", "swap-if", "dot-T", "matmul", "fstring", "return-temp", "hoist-arg", "cmp-flip", "exit-else", "swap-stmts", "kw-reorder", "pos-to-kw", "demorgan"]

# anchored Python files and the properties whose checks read them
FILES = {
    "py/formak/python.py": ["C01", "C03", "C04", "C05", "C06", "C09", "C13", "C16", "C17", "C08", "C14", "C19"],
    "py/formak/runtime.py": ["C10", "C11"],
    "py/formak/common.py": ["C14", "C13", "C01", "C04", "C02"],
    "py/formak/cpp.py": ["C02", "C13", "C15", "C08", "C14", "C07", "C10", "C12"],
    "py/formak/ast_fragments.py": ["C02", "C13", "C15", "C07", "C12", "C06"],
    "py/formak/ui_state_machine.py": ["C18", "C17"],
    "py/formak/reference_models/strapdown_imu.py": ["C19"],
    "py/formak/ast_tools.py": ["C02", "C15", "C12"],
}


def files_for(prop):
    return [f for f, ps in FILES.items() if prop in ps]


def funcs_of(tree):
    out = []

    def walk(node, prefix):
        for ch in ast.iter_child_nodes(node):
            if isinstance(ch, ast.FunctionDef):
                out.append((prefix + ch.name, ch))
                walk(ch, prefix + ch.name + ".")
            elif isinstance(ch, ast.ClassDef):
                walk(ch, prefix + ch.name + ".")
            else:
                walk(ch, prefix)
    walk(tree, "")
    return out


def locals_of(fn: ast.FunctionDef):
    params = {a.arg for a in fn.args.posonlyargs + fn.args.args + fn.args.kwonlyargs}
    if fn.args.vararg:
        params.add(fn.args.vararg.arg)
    if fn.args.kwarg:
        params.add(fn.args.kwarg.arg)
    stores, glob = set(), set()
    nested_params = set()
    for n in ast.walk(fn):
        if isinstance(n, ast.Name) and isinstance(n.ctx, ast.Store):
            stores.add(n.id)
        if isinstance(n, (ast.Global, ast.Nonlocal)):
            glob |= set(n.names)
        if isinstance(n, (ast.FunctionDef, ast.Lambda)) and n is not fn:
            for a in n.args.posonlyargs + n.args.args + n.args.kwonlyargs:
                nested_params.add(a.arg)
    # names bound in the body of a nested class are class attributes, not locals
    for n in ast.walk(fn):
        if isinstance(n, ast.ClassDef):
            for st in n.body:
                for m in ast.walk(st):
                    if isinstance(m, ast.Name) and isinstance(m.ctx, ast.Store) and not isinstance(st, (ast.FunctionDef,)):
                        glob.add(m.id)
    # names used as keyword arguments somewhere / in locals() tricks are left alone
    risky = {"result"} if any(isinstance(n, ast.Call) and isinstance(n.func, ast.Name) and n.func.id == "locals" for n in ast.walk(fn)) else set()
    return stores - params - glob - nested_params - risky


def variants(src, kinds, only_funcs):
    tree = ast.parse(src)
    for q, fn in funcs_of(tree):
        if only_funcs and not any(q == f or q.endswith("." + f) for f in only_funcs):
            continue
        if "rename" in kinds:
            loc = locals_of(fn)
            if loc:
                t2 = copy.deepcopy(tree)
                f2 = dict(funcs_of(t2))[q]
                for n in ast.walk(f2):
                    if isinstance(n, ast.Name) and n.id in loc:
                        n.id = n.id + "_rn"
                yield q, "rename locals " + ",".join(sorted(loc))[:60], ast.unparse(t2)
        if "swap-if" in kinds:
            ifs = [n for n in ast.walk(fn) if isinstance(n, ast.If) and n.orelse and not (len(n.orelse) == 1 and isinstance(n.orelse[0], ast.If))]
            for k, _ in enumerate(ifs):
                t2 = copy.deepcopy(tree)
                f2 = dict(funcs_of(t2))[q]
                n = [x for x in ast.walk(f2) if isinstance(x, ast.If) and x.orelse and not (len(x.orelse) == 1 and isinstance(x.orelse[0], ast.If))][k]
                n.test, n.body, n.orelse = ast.UnaryOp(ast.Not(), n.test), n.orelse, n.body
                yield q, f"swap-if #{k} line {n.lineno}", ast.unparse(ast.fix_missing_locations(t2))
        if "dot-T" in kinds:
            t2 = copy.deepcopy(tree)
            f2 = dict(funcs_of(t2))[q]
            cnt = [0]

            class R(ast.NodeTransformer):
                def visit_Call(self, n):
                    self.generic_visit(n)
                    if isinstance(n.func, ast.Attribute) and n.func.attr == "transpose" and not n.args and not n.keywords:
                        cnt[0] += 1
                        return ast.Attribute(n.func.value, "T", ast.Load())
                    return n
            R().visit(f2)
            if cnt[0]:
                yield q, f"dot-T x{cnt[0]}", ast.unparse(ast.fix_missing_locations(t2))
        if "matmul" in kinds:
            t2 = copy.deepcopy(tree)
            f2 = dict(funcs_of(t2))[q]
            cnt = [0]

            class M(ast.NodeTransformer):
                def visit_Call(self, n):
                    self.generic_visit(n)
                    if ast.unparse(n.func) == "np.matmul" and len(n.args) == 2 and not n.keywords:
                        cnt[0] += 1
                        return ast.BinOp(n.args[0], ast.MatMult(), n.args[1])
                    return n
            M().visit(f2)
            if cnt[0]:
                yield q, f"matmul x{cnt[0]}", ast.unparse(ast.fix_missing_locations(t2))
        if "fstring" in kinds:
            t2 = copy.deepcopy(tree)
            f2 = dict(funcs_of(t2))[q]
            cnt = [0]

            class F(ast.NodeTransformer):
                def visit_Call(self, n):
                    self.generic_visit(n)
                    if isinstance(n.func, ast.Attribute) and n.func.attr == "format" and isinstance(n.func.value, ast.Constant) \
                            and isinstance(n.func.value.value, str) and not n.keywords and n.func.value.value.count("{}") == len(n.args) \
                            and "{" not in n.func.value.value.replace("{}", "") and "}" not in n.func.value.value.replace("{}", "") \
                            and not any(isinstance(a, ast.Starred) for a in n.args):
                        parts = n.func.value.value.split("{}")
                        vals = []
                        for i_, p_ in enumerate(parts):
                            if p_:
                                vals.append(ast.Constant(p_))
                            if i_ < len(n.args):
                                vals.append(ast.FormattedValue(n.args[i_], -1, None))
                        cnt[0] += 1
                        return ast.JoinedStr(vals)
                    return n
            F().visit(f2)
            if cnt[0]:
                yield q, f"fstring x{cnt[0]}", ast.unparse(ast.fix_missing_locations(t2))


        if "return-temp" in kinds:
            t2 = copy.deepcopy(tree)
            f2 = dict(funcs_of(t2))[q]
            cnt = [0]
            if not any(isinstance(n, (ast.Yield, ast.YieldFrom)) for n in ast.walk(f2)):
                class RT(ast.NodeTransformer):
                    def visit_FunctionDef(self, n):
                        if n is f2:
                            self.generic_visit(n)
                        return n

                    def visit_Lambda(self, n):
                        return n

                    def visit_Return(self, n):
                        if n.value is None or isinstance(n.value, (ast.Name, ast.Constant)):
                            return n
                        cnt[0] += 1
                        return [ast.Assign([ast.Name("ret_rn", ast.Store())], n.value), ast.Return(ast.Name("ret_rn", ast.Load()))]
                RT().visit(f2)
                if cnt[0]:
                    yield q, f"return-temp x{cnt[0]}", ast.unparse(ast.fix_missing_locations(t2))
        if "hoist-arg" in kinds:
            def sites(f):
                out_ = []
                for n in ast.walk(f):
                    for fld in ("body", "orelse"):
                        lst = getattr(n, fld, None)
                        if not isinstance(lst, list):
                            continue
                        for i_, st in enumerate(lst):
                            c = st.value if isinstance(st, (ast.Assign, ast.Expr, ast.Return)) else None
                            if isinstance(c, ast.Call) and c.args and isinstance(c.args[0], ast.Call) and not isinstance(c.args[0], ast.Starred) \
                                    and all(isinstance(x, (ast.Name, ast.Attribute)) for x in ast.walk(c.func) if isinstance(x, ast.expr) and not isinstance(x, ast.expr_context)):
                                out_.append((lst, i_))
                return out_
            for k, _ in enumerate(sites(fn)):
                t2 = copy.deepcopy(tree)
                f2 = dict(funcs_of(t2))[q]
                lst, i_ = sites(f2)[k]
                st = lst[i_]
                c = st.value
                tmp = f"arg{k}_rn"
                lst.insert(i_, ast.Assign([ast.Name(tmp, ast.Store())], c.args[0]))
                c.args[0] = ast.Name(tmp, ast.Load())
                yield q, f"hoist-arg #{k} line {getattr(st, 'lineno', '?')}", ast.unparse(ast.fix_missing_locations(t2))
        if "exit-else" in kinds:
            def esites(f):
                out_ = []
                for n in ast.walk(f):
                    for fld in ("body", "orelse"):
                        lst = getattr(n, fld, None)
                        if not isinstance(lst, list):
                            continue
                        for i_, st in enumerate(lst[:-1]):
                            if isinstance(st, ast.If) and not st.orelse and isinstance(st.body[-1], (ast.Return, ast.Raise, ast.Continue)):
                                out_.append((lst, i_))
                return out_
            for k, _ in enumerate(esites(fn)):
                t2 = copy.deepcopy(tree)
                f2 = dict(funcs_of(t2))[q]
                lst, i_ = esites(f2)[k]
                st = lst[i_]
                st.orelse = lst[i_ + 1:]
                del lst[i_ + 1:]
                yield q, f"exit-else #{k} line {st.lineno}", ast.unparse(ast.fix_missing_locations(t2))
        if "swap-stmts" in kinds:
            def callfree(e):
                return not any(isinstance(x, (ast.Call, ast.Await, ast.Yield, ast.YieldFrom, ast.NamedExpr, ast.Lambda, ast.ListComp, ast.DictComp, ast.SetComp,
                                              ast.GeneratorExp)) for x in ast.walk(e))

            def ssites(f):
                out_ = []
                for n in ast.walk(f):
                    for fld in ("body", "orelse"):
                        lst = getattr(n, fld, None)
                        if not isinstance(lst, list):
                            continue
                        for i_ in range(len(lst) - 1):
                            a_, b_ = lst[i_], lst[i_ + 1]
                            if all(isinstance(x, ast.Assign) and len(x.targets) == 1 and isinstance(x.targets[0], ast.Name) and callfree(x.value) for x in (a_, b_)):
                                ta, tb = a_.targets[0].id, b_.targets[0].id
                                ra = {x.id for x in ast.walk(a_.value) if isinstance(x, ast.Name)}
                                rb = {x.id for x in ast.walk(b_.value) if isinstance(x, ast.Name)}
                                if ta != tb and ta not in rb and tb not in ra:
                                    out_.append((lst, i_))
                return out_
            for k, _ in enumerate(ssites(fn)):
                t2 = copy.deepcopy(tree)
                f2 = dict(funcs_of(t2))[q]
                lst, i_ = ssites(f2)[k]
                lst[i_], lst[i_ + 1] = lst[i_ + 1], lst[i_]
                yield q, f"swap-stmts #{k} line {lst[i_].lineno}", ast.unparse(ast.fix_missing_locations(t2))
        if "kw-reorder" in kinds:
            def ksimple(e):
                return all(isinstance(x, (ast.Name, ast.Attribute, ast.Constant, ast.Subscript, ast.expr_context, ast.Slice)) for x in ast.walk(e))

            def ksites(f):
                return [n for n in ast.walk(f) if isinstance(n, ast.Call) and len(n.keywords) >= 2 and all(k_.arg for k_ in n.keywords)
                        and all(ksimple(k_.value) for k_ in n.keywords)]
            for k, _ in enumerate(ksites(fn)):
                t2 = copy.deepcopy(tree)
                f2 = dict(funcs_of(t2))[q]
                n = ksites(f2)[k]
                n.keywords = list(reversed(n.keywords))
                yield q, f"kw-reorder #{k} line {n.lineno}", ast.unparse(ast.fix_missing_locations(t2))
        if "pos-to-kw" in kinds and "." in q:
            clsname = q.split(".")[0]
            cdef = next((c for c in tree.body if isinstance(c, ast.ClassDef) and c.name == clsname), None)
            meths = {m.name: m for m in cdef.body if isinstance(m, ast.FunctionDef)} if cdef is not None else {}

            def psites(f):
                out_ = []
                for n in ast.walk(f):
                    if isinstance(n, ast.Call) and isinstance(n.func, ast.Attribute) and isinstance(n.func.value, ast.Name) and n.func.value.id == "self" \
                            and n.func.attr in meths and n.args and not any(isinstance(a_, ast.Starred) for a_ in n.args):
                        m = meths[n.func.attr]
                        if m.args.vararg is None and not m.args.posonlyargs and not any(ast.unparse(d) in ("staticmethod", "classmethod", "property") for d in m.decorator_list) \
                                and len(m.args.args) - 1 >= len(n.args):
                            out_.append(n)
                return out_
            for k, _ in enumerate(psites(fn)):
                t2 = copy.deepcopy(tree)
                f2 = dict(funcs_of(t2))[q]
                n = psites(f2)[k]
                m = meths[n.func.attr]
                names = [a_.arg for a_ in m.args.args][1:]
                n.keywords = [ast.keyword(nm, a_) for nm, a_ in zip(names, n.args)] + n.keywords
                n.args = []
                yield q, f"pos-to-kw #{k} line {n.lineno} {n.func.attr}", ast.unparse(ast.fix_missing_locations(t2))
        if "demorgan" in kinds:
            def cf(e):
                return not any(isinstance(x, (ast.Call, ast.NamedExpr)) and not (isinstance(x, ast.Call) and isinstance(x.func, ast.Name) and x.func.id in ("len", "isinstance"))
                               for x in ast.walk(e))

            def dsites(f):
                out_ = []
                for n in ast.walk(f):
                    if isinstance(n, ast.If):
                        t = n.test
                        inner = t.operand if isinstance(t, ast.UnaryOp) and isinstance(t.op, ast.Not) else t
                        if isinstance(inner, ast.BoolOp) and all(cf(v) for v in inner.values):
                            out_.append(n)
                return out_
            for k, _ in enumerate(dsites(fn)):
                t2 = copy.deepcopy(tree)
                f2 = dict(funcs_of(t2))[q]
                n = dsites(f2)[k]
                t = n.test
                negated = isinstance(t, ast.UnaryOp) and isinstance(t.op, ast.Not)
                inner = t.operand if negated else t
                dual = ast.BoolOp(ast.Or() if isinstance(inner.op, ast.And) else ast.And(), [ast.UnaryOp(ast.Not(), v) for v in inner.values])
                n.test = dual if negated else ast.UnaryOp(ast.Not(), dual)
                yield q, f"demorgan #{k} line {n.lineno}", ast.unparse(ast.fix_missing_locations(t2))
        if "cmp-flip" in kinds:
            FL = {ast.Lt: ast.Gt, ast.Gt: ast.Lt, ast.LtE: ast.GtE, ast.GtE: ast.LtE, ast.Eq: ast.Eq, ast.NotEq: ast.NotEq}

            def simple(e):
                return all(isinstance(x, (ast.Name, ast.Attribute, ast.Constant, ast.expr_context)) or
                           (isinstance(x, ast.Call) and isinstance(x.func, ast.Name) and x.func.id == "len") for x in ast.walk(e))

            def csites(f):
                return [n for n in ast.walk(f) if isinstance(n, ast.Compare) and len(n.ops) == 1 and type(n.ops[0]) in FL and simple(n.left) and simple(n.comparators[0])]
            for k, _ in enumerate(csites(fn)):
                t2 = copy.deepcopy(tree)
                f2 = dict(funcs_of(t2))[q]
                n = csites(f2)[k]
                n.left, n.comparators, n.ops = n.comparators[0], [n.left], [FL[type(n.ops[0])]()]
                yield q, f"cmp-flip #{k} line {n.lineno}", ast.unparse(ast.fix_missing_locations(t2))


