"""Mutation operators for the thorough tier's sensitivity self-test (DESIGN.md Appendix C).

Each operator edits ONE construct of the current tree (in a scratch copy), keeps the file parseable, and must be
reported by the quick check of every property it is listed for.  An operator whose site no longer exists returns
False ("not-applicable": reported in the evidence, because the rule it exercised may have gone vacuous).
Operators are regular-expression rewrites anchored on the construct (not on line numbers).
"""
from __future__ import annotations

import os
import re
from typing import Callable, Dict, List

PY = "py/formak/python.py"
CPP = "py/formak/cpp.py"
COMMON = "py/formak/common.py"
FRAG = "py/formak/ast_fragments.py"
RT = "py/formak/runtime.py"
HDR = "cpp/runtime/include/formak/runtime/ManagedFilter.h"
IFH = "cpp/include/formak/innovation_filtering.h"
TPL_S = "py/formak/templates/sensor_model.hpp"
TPL_P = "py/formak/templates/process_model.cpp"
UI = "py/formak/ui_model.py"
SM = "py/formak/ui_state_machine.py"
IMU = "py/formak/reference_models/strapdown_imu.py"


def sub(rel, pattern, repl, count=1, flags=re.S):
    def apply(root):
        p = os.path.join(root, rel)
        s = open(p).read()
        new, n = re.subn(pattern, repl, s, count=count, flags=flags)
        if n == 0 or new == s:
            return False
        open(p, "w").write(new)
        return True
    return apply


OPS: List[dict] = []


def op(name, props, rel, pattern, repl, also=(), **kw):
    """`also`: further (file, pattern, replacement) edits of the same change (two cooperating edits); every one must apply"""
    first = sub(rel, pattern, repl, **kw)
    rest = [sub(r_, p_, x_) for r_, p_, x_ in also]

    def apply(root):
        return first(root) and all(f(root) for f in rest)
    OPS.append(dict(name=name, props=props, apply=apply if rest else first))


# ---------------------------------------------------------------- python.py layout / Jacobians (C01, C03, C04, C05, C13)
op("py-arglist-swap-segments", ["C01", "C03", "C04", "C13"], PY, r"(\+ self\.arglist_calibration\n\s*)\+ self\.arglist_control", r"+ self.arglist_control\n            + self.arglist_calibration")
op("py-model-exec-swap-actuals", ["C01", "C13"], PY, r"self\._impl\.execute\(dt, \*state, \*self\.calibration_vector, \*control\)", "self._impl.execute(dt, *state, *control, *self.calibration_vector)")
op("py-state-sort-dropped", ["C01", "C13", "C15"], PY, r"self\.arglist_state = sorted\(list\(symbolic_model\.state\), key=lambda x: x\.name\)", "self.arglist_state = list(symbolic_model.state)")
op("py-model-zip-reversed", ["C01", "C13"], PY, r"zip\(\n\s*self\.arglist_state,\n(\s*self\._impl\.execute\(dt)", r"zip(\n                    self.arglist_state[::-1],\n\1")
op("py-procjac-transposed-store", ["C03", "C04"], PY, r"jacobian\[row, col\] = result", "jacobian[col, row] = result")
op("py-ctljac-stride", ["C03", "C04"], PY, r"computed_jacobian\[row \* self\.control_size \+ col\]", "computed_jacobian[row * self.state_size + col]")
op("py-sensorjac-col-major", ["C03", "C05"], PY, r"row \* \(self\.state_size \+ self\.calibration_size\) \+ col", "col * (self.state_size + self.calibration_size) + row")
op("py-procjac-wrt-control", ["C03", "C04"], PY, r"symbolic_process_jacobian = process_matrix\.jacobian\(\n\s*self\._state_model\.arglist_state\n\s*\)", "symbolic_process_jacobian = process_matrix.jacobian(\n            self.arglist_control\n        )")
op("py-sensor-exec-swap", ["C03", "C05"], PY, r"impl_sensor_jacobian\.execute\(\*state, \*self\.calibration_vector\)", "impl_sensor_jacobian.execute(*self.calibration_vector, *state)")
# ---------------------------------------------------------------- prediction / update formulas (C04, C05, C07, C09)
op("py-pred-GtPG", ["C04", "C07", "C09"], PY, r"G_t, np\.matmul\(covariance\.data, G_t\.transpose\(\)\)", "G_t.transpose(), np.matmul(covariance.data, G_t)")
op("py-pred-drop-noise", ["C04", "C07"], PY, r"next_covariance = next_state_covariance \+ next_control_covariance", "next_covariance = next_state_covariance")
op("py-pred-state-wrong-dt", ["C04"], PY, r"next_state = self\._state_model\.model\(dt, state, control\)", "next_state = self._state_model.model(self.config.max_dt_sec, state, control)")
op("py-noise-transposed-key", ["C04"], PY, r"elif iSymbol == jSymbol and iSymbol in process_noise:\n(\s*)value = process_noise\[iSymbol\]", r"elif iSymbol in process_noise:\n\1value = process_noise[iSymbol]")
op("py-process-model-mutates-input", ["C04"], PY, r"(        G_t = self\.process_jacobian\(dt, state, control\))", r"        covariance.data[0, 0] += 0.0\n\1")
op("py-upd-S-no-noise", ["C05", "C07"], PY, r"np\.matmul\(H_t, np\.matmul\(covariance\.data, H_t\.transpose\(\)\)\) \+ Q_t\.data", "np.matmul(H_t, np.matmul(covariance.data, H_t.transpose()))")
op("py-upd-K-uses-S", ["C05", "C07"], PY, r"covariance\.data, np\.matmul\(H_t\.transpose\(\), S_inv\)", "covariance.data, np.matmul(H_t.transpose(), S_t)")
op("py-upd-innovation-sign", ["C05", "C06", "C07"], PY, r"sensor_reading\.data - expected_reading\.data", "expected_reading.data - sensor_reading.data")
op("py-innovation-cov-unsymmetrised", ["C09"], PY, r"self\.sensor_prediction_uncertainty\[sensor_key\] = S_t = \(\n\s*S_t \+ S_t\.transpose\(\)\n\s*\) / 2\.0", "self.sensor_prediction_uncertainty[sensor_key] = S_t")
op("py-upd-relinearised-cov", ["C05", "C09", "C07"], PY, r"(        next_state = state\.data \+ np\.matmul\(K_t, innovation\)\n)",
   r"\1        H_n = self.sensor_jacobian(sensor_key, self.State.from_data(next_state))\n        next_covariance = covariance.data - np.matmul(K_t, np.matmul(H_n, covariance.data))\n")
op("tpl-upd-relinearised-cov", ["C09", "C07"], TPL_S, r"next_covariance\.data = Sigma\.data - kalman_gain \* H \* Sigma\.data;",
   "next_covariance.data = Sigma.data - kalman_gain * ReadingT::SensorModel::jacobian(StateAndVariance{.state = next_state, .covariance = Sigma},\n{% if enable_calibration %}\n calibration,\n{% endif %}\n reading) * Sigma.data;")
op("py-upd-cov-plus", ["C05", "C07"], PY, r"next_covariance = covariance\.data - np\.matmul\(", "next_covariance = covariance.data + np.matmul(")
op("py-upd-H-not-transposed", ["C05"], PY, r"np\.matmul\(covariance\.data, H_t\.transpose\(\)\)\) \+ Q_t", "np.matmul(covariance.data, H_t)) + Q_t")
op("py-Q-vector-class", ["C05"], PY, r"self\.ReadingCovariance = common\.named_covariance\(", "self.ReadingCovariance = common.named_vector(")
# ---------------------------------------------------------------- innovation filtering (C06, C07)
op("py-filter-ge", ["C06", "C07"], PY, r"return normalized_innovation > expected_innovation", "return normalized_innovation >= expected_innovation")
op("py-filter-drop-m", ["C06", "C07"], PY, r"editing_threshold \* sqrt\(2 \* sensor_size\) \+ sensor_size", "editing_threshold * sqrt(2 * sensor_size)")
op("py-filter-m-from-cols", ["C06"], PY, r"\(sensor_size, _\) = innovation\.shape", "(_, sensor_size) = innovation.shape")
op("py-filter-return-updated-on-reject", ["C06"], PY, r"return StateAndCovariance\(state, covariance\)\n", "return StateAndCovariance(state, self.Covariance.from_data(covariance.data * 1.0001))\n")
op("py-filter-disabled-zero", ["C06"], PY, r"if self\.config\.innovation_filtering is None:\n(\s*)return False", r"if self.config.innovation_filtering is None:\n\1return True")
op("cpp-helper-ge", ["C06", "C07"], IFH, r"return normalizedInnovation > innovationExpectation;", "return normalizedInnovation >= innovationExpectation;")
op("cpp-helper-2m", ["C06", "C07"], IFH, r"std::sqrt\(2 \* reading_size\) \+ reading_size", "std::sqrt(reading_size) + reading_size")
op("cpp-helper-no-transpose", ["C06"], IFH, r"\(innovation\.transpose\(\) \* sensor_estimate_covariance_inverse \*\n\s*innovation\)\(0, 0\)", "(innovation * sensor_estimate_covariance_inverse * innovation)(0, 0)")
op("tpl-filter-guard-removed", ["C06", "C07"], TPL_S, r"if constexpr \(cpp::Config::innovation_filtering > 0\.0\) \{", "if constexpr (cpp::Config::innovation_filtering >= 0.0) {")
op("tpl-filter-return-next", ["C06", "C07"], TPL_S, r"// Skip update\n\s*return state;", "// Skip update\n    return StateAndVariance{};")
op("tpl-sinv-not-inverse", ["C06", "C07"], TPL_S, r"const typename ReadingT::CovarianceT S_inv =\n\s*sensor_estimate_covariance\.inverse\(\);", "const typename ReadingT::CovarianceT S_inv =\n    sensor_estimate_covariance;")
# ---------------------------------------------------------------- templates (C07, C12, C02)
op("tpl-pred-VMV-dropped", ["C07"], TPL_P, r" \+ V \* M \* V\.transpose\(\);", ";")
op("tpl-pred-G-untransposed", ["C07"], TPL_P, r"G \* Sigma\.data \* G\.transpose\(\)", "G * Sigma.data * G")
op("tpl-upd-K-H-order", ["C07", "C12", "C02"], TPL_S, r"Sigma\.data - kalman_gain \* H \* Sigma\.data", "Sigma.data - H * kalman_gain * Sigma.data")
op("tpl-upd-state-minus", ["C07"], TPL_S, r"mu\.data \+ kalman_gain \* innovation", "mu.data - kalman_gain * innovation")
op("tpl-proc-args-order", ["C07", "C12", "C02"], TPL_P, r"State next_state = ExtendedKalmanFilter::ProcessModel::model\(\n\s*dt,\n\s*state", "State next_state = ExtendedKalmanFilter::ProcessModel::model(\n    state,\n    dt")
op("hdr-drop-if-constexpr", ["C12"], HDR, r"if constexpr \(!std::is_same_v<typename Impl::Tag::CalibrationT,\n\s*std::false_type>\) \{\n\s*_state\.state = stampedReading\.data->sensor_model\(_impl, _state\.state,\n\s*_calibration\);\n\s*\} else \{\n\s*_state\.state = stampedReading\.data->sensor_model\(_impl, _state\.state\);\n\s*\}", "_state.state = stampedReading.data->sensor_model(_impl, _state.state, _calibration);")
op("frag-tag-control-swapped", ["C12"], FRAG, r'yield UsingDeclaration\(\n\s*"ControlT",\n\s*"Control",\n\s*\)', 'yield UsingDeclaration(\n            "ControlT",\n            "Calibration",\n        )')
op("frag-kalman-gain-dims", ["C12", "C07", "C02"], FRAG, r'"KalmanGainT",\n\s*f"Eigen::Matrix<double, \{generator\.state_size\}, \{reading_type\.size\}>"', '"KalmanGainT",\n                f"Eigen::Matrix<double, {reading_type.size}, {generator.state_size}>"')
op("frag-reading-body-no-this", ["C12"], FRAG, r'yield Return\("impl\.sensor_model\(state, \*this\)"\)', 'yield Return("impl.sensor_model(state, {})")')
# ---------------------------------------------------------------- generator layout (C02, C07, C13, C15)
op("cpp-jac-holes-swapped", ["C02", "C07", "C13"], CPP, r'assignment = f"jacobian\(\{idx\}, \{state_idx\}\)"', 'assignment = f"jacobian({state_idx}, {idx})"')
op("cpp-ctljac-wrt-state", ["C02"], CPP, r"expr_before = diff\(model, control\)", "expr_before = diff(model, symbol)")
op("cpp-sensor-prefix-wrong", ["C02"], CPP, r'(def _translate_sensor_model.*?)Symbol\("state\.state\.\{\}\(\)"\.format\(member\)\)', r'\1Symbol("state.{}()".format(member))')
op("cpp-subs-drop-calibration", ["C02"], CPP, r'(def _translate_process_jacobian.*?)\n            \+ \[\n\s*\(\n\s*member,\n\s*Symbol\("calibration\.\{\}\(\)"\.format\(member\)\),\n\s*\)\n\s*for member in self\.arglist_calibration\n\s*\]', r"\1")
op("cpp-sensorlist-unsorted", ["C02", "C13", "C15"], CPP, r"self\.sensorlist = sorted\(\n\s*\[\(k, v, sensor_noises\[k\]\) for k, v in sensor_models\.items\(\)\]\n\s*\)", "self.sensorlist = [(k, v, sensor_noises[k]) for k, v in sensor_models.items()]")
op("cpp-return-unsorted", ["C02", "C13"], CPP, r'str\(reading\)\n\s*for reading in sorted\(list\(sensor_model_mapping\.keys\(\)\)\)', "str(reading)\n                    for reading in sensor_model_mapping.keys()")
op("frag-accessor-offset", ["C02", "C13", "C07"], FRAG, r'(def Control\(generator\).*?)Return\(f"data\(\{idx\}, 0\)"\)', r'\1Return(f"data({idx + 1}, 0)")')
op("frag-cov-accessor-offdiag", ["C02", "C13"], FRAG, r'Return\(f"data\(\{idx\}, \{idx\}\)"\)', 'Return(f"data({idx}, 0)")')
op("frag-ctor-order-reversed", ["C02", "C13"], FRAG, r'", "\.join\(f"options\.\{name\}" for name in generator\.arglist_state\)', '", ".join(f"options.{name}" for name in reversed(generator.arglist_state))')
op("cpp-ctlcov-mirror-dropped", ["C02", "C09"], CPP, r'yield f"covariance\(\{i\}, \{j\}\)", value\n\s*if i != j:\n\s*yield f"covariance\(\{j\}, \{i\}\)", value', 'yield f"covariance({j}, {i})", covariance.get(iKey, 0.0)')
# ---------------------------------------------------------------- temporaries (C08, C01, C02)
op("py-tmp-prefix-offbyone", ["C08", "C01"], PY, r"self\._arglist \+ temporaries\[:i\]", "self._arglist + temporaries[: i + 1]")
op("py-tmp-key-not-own-symbol", ["C08", "C01"], PY, r"temporary_values\[str\(name\)\] = expr\(", "temporary_values[str(name) + '_'] = expr(")
op("py-tmp-body-before-prefix", ["C08", "C01"], PY, r"(        for name, expr in self\._prefix:\n\s*temporary_values\[str\(name\)\] = expr\(\*args, \*\*kwargs, \*\*temporary_values\)\n\n)(        for impl in self\._body:\n\s*yield impl\(\*args, \*\*kwargs, \*\*temporary_values\)\n)", r"\2\n\1")
op("py-tmp-body-no-temps", ["C08", "C01"], PY, r"self\._arglist \+ temporaries,\n", "self._arglist,\n")
op("py-cse-flag-gates-more", ["C08", "C01"], PY, r"temporaries = \[r\[0\] for r in prefix\]", "temporaries = [r[0] for r in prefix] if self._config.common_subexpression_elimination else [r[0] for r in prefix[1:]]")
op("cpp-tmp-targets-first", ["C08", "C02"], CPP, r"(        for target, expr in prefix:\n.*?yield MemberDeclaration\(\"double\", target, cc_expr\)\n\n)(        for target, expr in zip\(self\._targets, body\):\n.*?yield MemberDeclaration\(\"\", target, cc_expr\)\n)", r"\2\n\1")
op("cpp-tmp-reversed", ["C08", "C02"], CPP, r"for target, expr in prefix:", "for target, expr in reversed(prefix):")
op("cpp-tmp-zip-reversed-body", ["C08", "C02"], CPP, r"zip\(self\._targets, body\)", "zip(self._targets, reversed(body))")
# ---------------------------------------------------------------- runtime (C10, C11, C12)
op("rt-py-literal-step", ["C10"], RT, r"max_dt = -max_dt", "max_dt = -0.1")
op("rt-py-no-sign-flip", ["C10"], RT, r"if self\.current_time > output_time:\n\s*max_dt = -max_dt\n", "")
op("rt-py-drop-eps-guard", ["C10"], RT, r"if abs\(output_time - iter_time\) >= 1e-9:", "if True:")
op("rt-py-eps-large", ["C10"], RT, r">= 1e-9:", ">= 1e-3:")
op("rt-py-no-abs", ["C10"], RT, r"abs\(floor\(\(output_time - self\.current_time\) / max_dt\)\)", "floor((self.current_time - output_time) / max_dt)")
op("rt-py-holds-output", ["C11"], RT, r"_, state_and_variance = self\._process_model\(output_time, control\)\n\s*return state_and_variance", "self.current_time, state_and_variance = self._process_model(output_time, control)\n        self.state, self.covariance = state_and_variance\n        return state_and_variance")
op("rt-py-update-before-predict", ["C11"], RT, r"(            self\.current_time, \(self\.state, self\.covariance\) = self\._process_model\(\n[^\n]*\n[^\n]*\n            \)\n\n)(            if sensor_reading\._data is None:\n(?:[^\n]*\n){3}\n)(            \(self\.state, self\.covariance\) = self\._impl\.sensor_model\(\n(?:[^\n]*\n){4}            \)\n)", r"\2\3\n\1")
op("rt-py-reversed-readings", ["C11"], RT, r"for sensor_reading in readings:", "for sensor_reading in reversed(readings):")
op("rt-py-no-control-guard", ["C11"], RT, r"        if control is None and self\._impl\.control_size > 0:\n\s*raise TypeError\(\n[^\n]*\n\s*\)\n", "")
op("rt-py-time-not-held", ["C11"], RT, r"self\.current_time, \(self\.state, self\.covariance\) = self\._process_model\(", "_, (self.state, self.covariance) = self._process_model(")
op("rt-cpp-sign-flip", ["C10", "C12"], HDR, r"return -Impl::Tag::max_dt_sec;\n(\s*)\}\n(\s*)return Impl::Tag::max_dt_sec;", r"return Impl::Tag::max_dt_sec;\n\1}\n\2return -Impl::Tag::max_dt_sec;", count=1)
op("rt-cpp-literal", ["C10", "C12"], HDR, r"return -Impl::Tag::max_dt_sec;", "return -0.1;", count=1)
op("rt-cpp-loop-le", ["C10", "C12"], HDR, r"count < expected_iterations", "count <= expected_iterations", count=1)
op("rt-cpp-remainder-wrong", ["C10", "C12"], HDR, r"state = _impl\.process_model\(outputTime - iterTime, state, _calibration,\n\s*control\);", "state = _impl.process_model(iterTime - outputTime, state, _calibration,\n                                    control);")
op("rt-cpp-sorted-readings", ["C11", "C12"], HDR, r"for \(const auto& stampedReading : readings\) \{\n(\s*)_state = processUpdate\(stampedReading\.timestamp, control\);", r"auto ordered = readings;\n    for (const auto& stampedReading : ordered) {\n\1_state = processUpdate(stampedReading.timestamp, control);")
op("rt-cpp-update-local-only", ["C11", "C12"], HDR, r"_state = processUpdate\(stampedReading\.timestamp\);", "State moved = processUpdate(stampedReading.timestamp);")
# ---------------------------------------------------------------- named arrays / containers / validation (C13, C14)
op("nv-store-offset", ["C13"], COMMON, r"self\.data\[idx, 0\] = val", "self.data[idx - 1, 0] = val")
op("nv-guard-after-store", ["C13"], COMMON, r"(            allowed_keys = \[str\(arg\) for arg in arglist\]\n)(            for key in kwargs:\n                if key not in allowed_keys:\n                    raise TypeError\(\n.*?\n                    \)\n\n)(.*?)(        @classmethod\n        def __subclasshook__)", r"\1\3\2\4", count=1)
op("nv-cov-default-zero", ["C13"], COMMON, r"self\.data = np\.eye\(len\(arglist\)\)", "self.data = np.zeros((len(arglist), len(arglist)))")
op("nv-fromdata-no-shape-check", ["C13"], COMMON, r"if data\.shape != cls\.shape:\n\s*raise ValueError\(f\"Expected shape \{cls\.shape\}, got shape \{data\.shape\}\"\)\n", "")
op("nv-fromdict-repr-key", ["C13"], COMMON, r"\{str\(k\): v for k, v in mapping\.items\(\)\}", "{repr(k): v for k, v in mapping.items()}")
op("container-raw-setop", ["C13", "C14"], COMMON, r"model_version = set\(state_model\.calibration\)", "model_version = state_model.calibration | set()")
op("val-drop-calibration-equality", ["C14"], COMMON, r"if set\(calibration_map\.keys\(\)\) != model_version:", "if len(calibration_map) != len(model_version):")
op("val-sensor-symbols-allow-control", ["C14"], COMMON, r"allowed_symbols = set\(state_model\.state\) \| set\(state_model\.calibration\)", "allowed_symbols = set(state_model.state) | set(state_model.calibration) | set(state_model.control)")
op("val-ui-drop-coverage", ["C14"], UI, r"for k in state:\n\s*try:\n\s*assert k in state_model\n\s*except AssertionError:\n.*?\n\s*raise\n", "")
op("val-ui-size-only-ge", ["C14"], UI, r"if not len\(state_model\) == len\(state\):", "if len(state_model) < len(state):")
op("val-py-noise-count-dropped", ["C14"], PY, r"        assert len\(process_noise\) == self\.control_size\n", "")
op("val-py-sensor-keys-dropped", ["C14"], PY, r"        assert set\(sensor_models\.keys\(\)\) == set\(sensor_noises\.keys\(\)\)\n        assert isinstance\(sensor_noises, dict\)\n        assert len\(sensor_noises\) == len\(sensor_models\)\n", "")
op("val-cpp-negative-dropped", ["C14"], CPP, r"        for key, value in process_noise\.items\(\):\n\s*if value < 0\.0:\n\s*raise ModelConstructionError\(\n[^\n]*\n\s*\)\n", "")
op("val-cpp-validate-after-write", ["C14"], CPP, r"(    common\.model_validation\(\n        state_model,\n        process_noise,\n        sensor_models,\n        extra_validation=config\.extra_validation,\n        calibration_map=calibration_map,\n    \)\n\n)(    args = _compile_argparse\(\).*?)(    return _compile_impl\(args, generator=generator\)\n)$", r"\2    result = _compile_impl(args, generator=generator)\n\1    return result\n")
# ---------------------------------------------------------------- determinism (C15)
op("det-frag-set-iteration", ["C15", "C02", "C13"], FRAG, r"for member in generator\.arglist_calibration\n", "for member in set(generator.arglist_calibration)\n", count=1)
op("det-sort-key-hash", ["C15"], CPP, r"self\.arglist_control = sorted\(list\(state_model\.control\), key=lambda x: x\.name\)", "self.arglist_control = sorted(list(state_model.control), key=lambda x: hash(x))")
# ---------------------------------------------------------------- sklearn adapter (C16, C17)
op("sk-row-dt-from-data", ["C16"], PY, r"dt, state, covariance, controls_input\n", "X[idx, 0], state, covariance, controls_input\n")
op("sk-sensor-slice-offbyone", ["C16"], PY, r"the_rest\[:sensor_size\],\n", "the_rest[: sensor_size + 1],\n")
op("sk-nis-other-key", ["C16"], PY, r"np\.linalg\.inv\(\n\s*self\.model_\.sensor_prediction_uncertainty\[key\]\n\s*\),", "np.linalg.inv(\n                                    self.model_.sensor_prediction_uncertainty[sorted(list(self.model_.sensor_models))[0]]\n                                ),")
op("sk-nis-no-inverse", ["C16"], PY, r"np\.linalg\.inv\(\n\s*self\.model_\.sensor_prediction_uncertainty\[key\]\n\s*\),", "self.model_.sensor_prediction_uncertainty[key],")
op("sk-transform-writes-param", ["C16"], PY, r"(        if len\(self\.model_\.sensor_models\) <= 0:)", r"        self.calibration_map = dict(self.calibration_map or {})\n\1")
op("sk-score-weights", ["C16"], PY, r"variance_score = \(1\.0 / var \+ var\) / 2\.0", "variance_score = (1.0 / var + var)")
op("sk-getparams-wrong-attr", ["C17"], PY, r'"sensor_noises": self\.sensor_noises,\n(\s*"calibration_map": self\.calibration_map,\n\s*"config": self\.config,\n\s*\})', r'"sensor_noises": self.sensor_models,\n\1')
op("sk-init-copies-param", ["C17"], PY, r"        self\.process_noise = process_noise\n        self\.sensor_models = sensor_models", "        self.process_noise = dict(process_noise or {})\n        self.sensor_models = sensor_models")
op("sk-setparams-ignore-unknown", ["C17", "C18"], PY, r"            else:\n                raise ModelConstructionError\(\n\s*f\"set_params called with invalid key \{key\}\"\n\s*\)\n", "            else:\n                continue\n")
op("sk-reader-unsorted", ["C17"], PY, r"(def _inverse_flatten_scoring_params.*?)for key, mapping in sorted\(list\(self\.sensor_noises\.items\(\)\)\):", r"\1for key, mapping in self.sensor_noises.items():")
op("sk-reader-skip-psd", ["C17"], PY, r'params\["process_noise"\] = nearest_positive_definite\(\n\s*dict\(self\._inverse_flatten_dict_diagonal\(controls, arglist_control\)\)\n\s*\)', 'params["process_noise"] = dict(self._inverse_flatten_dict_diagonal(controls, arglist_control))')
op("sk-fit-ignore-failure", ["C17"], PY, r"        if not result\.success:\n\s*raise MinimizationFailure\(result\)\n", "")
# ---------------------------------------------------------------- workflow (C18)
op("sm-transition-unlisted", ["C18"], SM, r'return \["fit_model"\]', "return []")
op("sm-annotation-wrong", ["C18"], SM, r"def symbolic_model\(self, model: ui_model\.Model\) -> SymbolicModelState:", "def symbolic_model(self, model: ui_model.Model) -> StateMachineState:")
op("sm-history-not-extended", ["C18"], SM, r"(class SymbolicModelState.*?)history=history \+ \[self\.state_id\(\)\]", r"\1history=history")
op("sm-search-lifo", ["C18"], SM, r"current_state, transitions = frontier\[0\]\n\s*frontier = frontier\[1:\]", "current_state, transitions = frontier[-1]\n            frontier = frontier[:-1]")
op("sm-search-path-not-extended", ["C18"], SM, r"SearchState\(end_state_type, transitions \+ \[transition_name\]\)", "SearchState(end_state_type, [transition_name])")
op("sm-min-samples-after-split", ["C18"], SM, r"(        n_samples = len\(X\)\n        MIN_SAMPLES = 3\n        if n_samples < MIN_SAMPLES:\n            raise ModelFitError\(\n.*?\n            \)\n\n)(        X_train, X_test = train_test_split\(X, test_size=0\.5, random_state=1\)\n)", r"\2\n\1")
op("sm-grid-replaced", ["C18"], SM, r"param_grid=self\.parameter_space,", "param_grid={k: v[:1] for k, v in self.parameter_space.items()},")
# ---------------------------------------------------------------- strapdown (C19)
op("imu-axis-crossed", ["C19"], IMU, r"global_velocity\[1\]: global_velocity\[1\]\n\s*\+ integrate\(_global_accel_body_rates\[1, 0\], dt\)", "global_velocity[1]: global_velocity[1]\n    + integrate(_global_accel_body_rates[2, 0], dt)")
op("imu-rotate-by-active-only", ["C19"], IMU, r"orientation\.to_rotation_matrix\(\)", "active_orientation.to_rotation_matrix()")
op("imu-conjugate-sign", ["C19"], IMU, r"orientation\.a, -orientation\.b, -orientation\.c, -orientation\.d", "orientation.a, -orientation.b, orientation.c, -orientation.d")
op("imu-calibration-order", ["C19"], IMU, r"orientation = active_orientation\.mul\(calibration_orientation\)", "orientation = calibration_orientation.mul(active_orientation)")
op("imu-position-single-integral", ["C19"], IMU, r"\+ integrate\(global_velocity\[0\] \+ integrate\(_global_accel_body_rates\[0, 0\], dt\), dt\)", "+ integrate(global_velocity[0], dt)")
# ---------------------------------------------------------------- covariance gate (C09)
op("gate-abs-threshold", ["C09"], PY, r"covariance_eigenvalues < negative_tol \* scale", "covariance_eigenvalues < negative_tol")
op("gate-sym-abs", ["C09"], PY, r"np\.allclose\(covariance, covariance\.T, atol=1e-8 \* magnitude\)", "np.allclose(covariance, covariance.T, atol=1e-8)")


def operators(prop) -> List[dict]:
    return [o for o in OPS if prop in o["props"]]

# ---------------------------------------------------------------- skipped readings (continue in the fold)
op("rt-skip-past-readings", ["C11"], RT, r"(            assert isinstance\(sensor_reading, StampedReading\)\n)", r"\1            if sensor_reading.timestamp < self.current_time:\n                continue\n")
op("hdr-skip-past-readings", ["C11"], HDR, r"(    for \(const auto& stampedReading : readings\) \{\n)(      _state = processUpdate\(stampedReading\.timestamp\);)", r"\1      if (stampedReading.timestamp < _state.currentTime) {\n        continue;\n      }\n\2")

# ---------------------------------------------------------------- validation loops that do not see every element / weaker guards (C14)
op("val-handler-break", ["C14"], COMMON, r"(            except AttributeError:\n                )continue", r"\1break")
op("val-first-model-only", ["C14"], COMMON, r"for k2, model in model_set\.items\(\):", "for k2, model in list(model_set.items())[:1]:")
op("val-skip-calibrated", ["C14"], COMMON, r"(        for k2, model in model_set\.items\(\):\n)", r"\1            if k2 in calibration_map:\n                continue\n")
op("val-calibration-superset", ["C14"], COMMON, r"if set\(calibration_map\.keys\(\)\) != model_version:", "if not set(calibration_map.keys()) >= model_version:")
op("val-calibration-verbose-only", ["C14"], COMMON, r"if set\(calibration_map\.keys\(\)\) != model_version:", "if verbose and set(calibration_map.keys()) != model_version:")
op("val-calibration-issubset", ["C14"], COMMON, r"if set\(calibration_map\.keys\(\)\) != model_version:", "if not model_version.issubset(calibration_map.keys()):")

# ---------------------------------------------------------------- adapter: persistent start / regularised NIS (C16)
op("sk-start-from-last-state", ["C16"], PY, r"        state = self\.model_\.State\(\)\n(        covariance = self\.model_\.Covariance\(\)\n\n        assert_valid_covariance)", r"        state = getattr(self, '_last_state', None) or self.model_.State()\n\1")
op("sk-nis-regularised", ["C16"], PY, r"(np\.linalg\.inv\(\n\s*self\.model_\.sensor_prediction_uncertainty\[key\])\n", r"\1 + np.eye(sensor_size) * 1e-12\n")

# ---------------------------------------------------------------- k-loop counter (C10)
op("hdr-loop-from-one", ["C10"], HDR, r"for \(size_t count = 0; count < expected_iterations; \+\+count\)", "for (size_t count = 1; count < expected_iterations; ++count)")
op("rt-loop-from-one", ["C10"], RT, r"for _ in range\(expected_iterations\):", "for _ in range(1, expected_iterations):")
op("hdr-span-narrowed-to-float", ["C10"], HDR, r"std::abs\(std::floor\(\(outputTime - _state\.currentTime\) / max_dt\)\)\);\n\n(    for \(size_t count = 0; count < expected_iterations; \+\+count\) \{\n      if constexpr \(!std::is_same_v<typename Impl::Tag::CalibrationT,\n                                    std::false_type>\) \{\n        state = _impl\.process_model\(max_dt, state, _calibration\);)",
   r"std::abs(std::floor(static_cast<float>(outputTime - _state.currentTime) / max_dt)));\n\n\1")

# ---------------------------------------------------------------- hash-order dependence of the constructed generator (C15 DET-W)
op("cpp-ekf-control-sort-dropped", ["C15"], CPP, r"self\.arglist_control = sorted\(list\(state_model\.control\), key=lambda x: x\.name\)", "self.arglist_control = list(state_model.control)")
op("cpp-sensorlist-unsorted", ["C15"], CPP, r"self\.sensorlist = sorted\(\n\s*\[\(k, v, sensor_noises\[k\]\) for k, v in sensor_models\.items\(\)\]\n\s*\)", "self.sensorlist = [(k, v, sensor_noises[k]) for k, v in sensor_models.items()]")

# ---------------------------------------------------------------- round-4 rules
op("py-sensormodel-writes-input", ["C17"], PY, r"(        self\._impl = BasicBlock\(\n            arglist=self\.arglist,\n            statements=\[sensor_model\[k\] for k in self\.readings\],)",
   r"        for reading in self.readings:\n            self.sensor_models[reading] = sympy.sympify(self.sensor_models[reading])\n\1")
op("py-compile-ekf-sanitised-noise", ["C04"], PY, r"(    return ExtendedKalmanFilter\(\n        state_model=symbolic_model,\n        process_noise=)process_noise,", r"\1nearest_positive_definite(process_noise),")
op("py-model-substeps", ["C01", "C19"], PY, r"self\._impl\.execute\(dt, \*state, \*self\.calibration_vector, \*control\),\n(\s*)\)\n(\s*)\}\n(\s*)\)\n\n        return next_state",
   r"self._impl.execute(dt / 2.0, *state, *self.calibration_vector, *control),\n\1)\n\2}\n\3)\n\n        return next_state")
op("py-default-modules-late-binding", ["C01"], PY, r'DEFAULT_MODULES = \("scipy", "numpy", "math", \{"sec": lambda v: 1\.0 / np\.cos\(v\)\}\)',
   'DEFAULT_MODULES = ("scipy", "numpy", "math", {name: (lambda v: 1.0 / fn(v)) for name, fn in (("csc", np.sin), ("sec", np.cos))})')
op("cpp-control-covariance-one-triangle", ["C09"], CPP, r'                elif \(jKey, iKey\) in covariance:\n                    value = covariance\[\(jKey, iKey\)\]\n(.*?)                yield f"covariance\(\{i\}, \{j\}\)", value\n                if i != j:\n                    yield f"covariance\(\{j\}, \{i\}\)", value\n',
   r'\1                yield f"covariance({i}, {j})", value\n')
op("val-handler-swallows-typeerror", ["C14"], COMMON, r"            except AttributeError:\n                continue", "            except (AttributeError, TypeError):\n                continue")
# round 5
op("cpp-includes-aliased-module-table", ["C15"], CPP, r'    includes = \[\n        "#include <Eigen/Dense>    // Matrix",\n        "#include <formak/innovation_filtering.h>",\n    \]\n    if generator.enable_EKF:\n        includes.append\("#include <any>"\)',
   '    includes = _BASE_INCLUDES\n    if generator.enable_EKF:\n        includes.append("#include <any>")',
   also=[(CPP, r"\ndef header_from_ast\(", '\n_BASE_INCLUDES = [\n    "#include <Eigen/Dense>    // Matrix",\n    "#include <formak/innovation_filtering.h>",\n]\n\n\ndef header_from_ast(')])
op("cpp-process-noise-not-through-printer", ["C02"], CPP, r"        self\._control_covariance = BasicBlock\(\n            statements=self\._translate_control_covariance\(process_noise\),\n            indent=4,\n            config=config,\n        \)",
   "        self._control_covariance = list(self._translate_control_covariance(process_noise))",
   also=[(CPP, r"        yield from self\._control_covariance\.compile\(\)", '        for target, value in self._control_covariance:\n            yield MemberDeclaration("", target, value)')])
op("py-model-init-simplifies-callers-model", ["C17"], PY, r"(        self\._impl = BasicBlock\(\n            arglist=self\.arglist,\n            statements=\[)symbolic_model\.state_model(\[a\] for a in self\.arglist_state\],)",
   r"        state_model = symbolic_model.state_model\n        state_model.update({a: simplify(state_model[a]) for a in self.arglist_state})\n\1state_model\2")
op("py-model-zero-dt-shortcut", ["C01", "C19"], PY, r"(            raise\n\n)(        next_state = self\.State\(\n)", r"\1        if dt == 0.0:\n            return self.State.from_data(state.data.copy())\n\n\2")
op("sk-fit-solution-read-under-temporary-config", ["C17", "C18"], PY, r"        result = minimize\(minimize_this, x0, tol=1\.0e-1\)\n\n        if not result\.success:\n            raise MinimizationFailure\(result\)\n\n        soln_as_params = self\._inverse_flatten_scoring_params\(result\.x\)\n",
   "        user_config = self.config\n        self.config = Config(**{**dataclasses.asdict(user_config), \"extra_validation\": False})\n        try:\n            result = minimize(minimize_this, x0, tol=1.0e-1)\n            if not result.success:\n                raise MinimizationFailure(result)\n            soln_as_params = self._inverse_flatten_scoring_params(result.x)\n        finally:\n            self.config = user_config\n")
op("py-control-jacobian-column-major", ["C03", "C04"], PY, r"        symbolic_control_jacobian = \[\]\n        if self\.control_size > 0:\n            symbolic_control_jacobian = process_matrix\.jacobian\(self\.arglist_control\)\n",
   "        symbolic_control_jacobian = [process_matrix.diff(control) for control in self.arglist_control]\n",
   also=[(PY, r"            statements=\[expr for expr in symbolic_control_jacobian\],", "            statements=[expr for column in symbolic_control_jacobian for expr in column],")])
# round 6
op("py-sqrt-from-sympy", ["C06"], PY, r"from math import sqrt\n", "", also=[(PY, r"from sympy import Matrix, Symbol, cse, simplify\n", "from sympy import Matrix, Symbol, cse, simplify, sqrt\n")])
op("py-config-normalises-field", ["C17", "C18", "C06"], PY, r"(    innovation_filtering: float \| None = 5\.0\n)",
   r"\1\n    def __post_init__(self):\n        if not self.innovation_filtering:\n            object.__setattr__(self, 'innovation_filtering', None)\n")
op("py-ekf-class-level-records", ["C05", "C04", "C07"], PY, r"(class ExtendedKalmanFilter:\n    def __init__\()", r"class ExtendedKalmanFilter:\n    innovations: dict = {}\n    sensor_prediction_uncertainty: dict = {}\n\n    def __init__(",
   also=[(PY, r"        self\.innovations = \{\}  # type: Dict\[str, NDArray\]\n        self\.sensor_prediction_uncertainty = \{\}  # type: Dict\[str, NDArray\]\n", "")])
op("hdr-remainder-from-held-state", ["C10", "C11", "C12"], HDR, r"state = _impl\.process_model\(outputTime - iterTime, state\);", "state = _impl.process_model(outputTime - iterTime, _state.state);")
op("common-named-vector-putmask", ["C01", "C13", "C19"], COMMON, r"            for idx, key in enumerate\(allowed_keys\):\n                if key in kwargs:\n                    val = kwargs\[key\]\n                    self\.data\[idx, 0\] = val\n",
   "            if len(kwargs) > 0:\n                named = np.array([[key in kwargs] for key in allowed_keys])\n                values = np.fromiter((kwargs[key] for key in allowed_keys if key in kwargs), dtype=float, count=len(kwargs))\n                np.putmask(self.data, named, values)\n")
op("common-named-covariance-block-write", ["C09", "C05"], COMMON, r"            for idx, key in enumerate\(allowed_keys\):\n                if key in kwargs:\n                    self\.data\[idx, idx\] = kwargs\[key\]\n",
   "            named = [idx for idx, key in enumerate(allowed_keys) if key in kwargs]\n            if named:\n                self.data[np.ix_(named, named)] = [kwargs[allowed_keys[idx]] for idx in named]\n")
op("cpp-subs-from-free-symbols", ["C15"], CPP, r"( +)expr_after = expr_before\.subs\(subs_set\)",
   r"\1renames = dict(subs_set)\n\1expr_after = expr_before.subs([(s_, renames[s_]) for s_ in expr_before.free_symbols if s_ in renames])")

# ---------------------------------------------------------------- round 7: in-place library calls, coercion, data entry, rewriting functions, narrow counters, config dict, memo keys
op("py-cov-check-eig-overwrites", ["C04"], PY, r"covariance_eigenvalues = np\.linalg\.eig\(covariance\)\[0\]", "import scipy.linalg\n    covariance_eigenvalues = scipy.linalg.eigvalsh(covariance, overwrite_a=True)")
op("py-cov-check-abs-out", ["C04"], PY, r"(    covariance_eigenvalues = np\.linalg\.eig\(covariance\)\[0\])", r"    np.round(covariance, 12, out=covariance)\n\1")
op("cpp-sensor-model-sympified", ["C14"], CPP, r"            expr_before = model\n(            expr_after = expr_before\.subs\(subs_set\)\n            yield f\"double \{predicted_reading\}\")", r"            import sympy\n            expr_before = sympy.sympify(model)\n\1")
op("py-sensor-model-sympified", ["C14"], PY, r"statements=\[sensor_model\[k\] for k in self\.readings\]", "statements=[sympy.sympify(sensor_model[k]) for k in self.readings]")
op("sk-force-ndarray-squeeze", ["C16"], PY, r"    assert isinstance\(mat, np\.ndarray\)\n\n    return mat", "    assert isinstance(mat, np.ndarray)\n\n    return np.squeeze(mat)")
op("sk-force-ndarray-atleast2d", ["C16"], PY, r"    assert isinstance\(mat, np\.ndarray\)\n\n    return mat", "    assert isinstance(mat, np.ndarray)\n\n    return np.atleast_2d(mat)")
op("sk-force-ndarray-list-ravel", ["C16"], PY, r"    if isinstance\(mat, list\):\n        return np\.array\(mat\)", "    if isinstance(mat, list):\n        return np.array(mat).ravel()")
op("py-jacobian-powdenest", ["C03", "C04"], PY, r"statements=\[expr for expr in symbolic_process_jacobian\]", "statements=[sympy.powdenest(expr, force=True) for expr in symbolic_process_jacobian]")
op("py-sensor-jacobian-nsimplify", ["C03", "C05"], PY, r"statements=\[expr for expr in symbolic_sensor_jacobian\]", "statements=[sympy.nsimplify(expr, rational=True) for expr in symbolic_sensor_jacobian]")
op("py-model-cancel", ["C01"], PY, r"(from sympy import Matrix, Symbol, cse, simplify)", r"\1, cancel", also=[(PY, r"statements=\[symbolic_model\.state_model\[a\] for a in self\.arglist_state\]", "statements=[cancel(symbolic_model.state_model[a]) for a in self.arglist_state]")])
op("hdr-count-int", ["C10", "C11"], HDR, r"size_t expected_iterations = static_cast<size_t>\(", "int expected_iterations = static_cast<int>(")
op("hdr-counter-uint32", ["C10"], HDR, r"for \(size_t count = 0; count < expected_iterations; \+\+count\)", "for (uint32_t count = 0; count < expected_iterations; ++count)")
op("hdr-count-cast-unsigned", ["C10"], HDR, r"size_t expected_iterations = static_cast<size_t>\(", "size_t expected_iterations = static_cast<unsigned>(")
op("py-block-fills-user-modules", ["C17"], PY, r"(    def _compile\(self\):\n        prefix = \[\]\n)", r"\1        for entry in self._config.python_modules:\n            if isinstance(entry, dict):\n                entry.setdefault('sec', None)\n")
op("py-block-sorts-arglist", ["C17"], PY, r"(    def _compile\(self\):\n        prefix = \[\]\n)", r"\1        self._arglist.sort(key=str)\n")
op("cpp-sensor-jacobian-memo-by-names", ["C02"], CPP, r"(        self\.sensorlist = sorted\()", r"        self._jac_memo = {}\n\1",
   also=[(CPP, r"        yield from BasicBlock\(\n            statements=self\._translate_sensor_jacobian_impl\(sensor_model_mapping\),\n            indent=4,\n            config=self\.config,\n        \)\.compile\(\)",
          "        key = tuple(sorted(sensor_model_mapping))\n        if key not in self._jac_memo:\n            self._jac_memo[key] = list(BasicBlock(\n                statements=self._translate_sensor_jacobian_impl(sensor_model_mapping),\n                indent=4,\n                config=self.config,\n            ).compile())\n        yield from self._jac_memo[key]")])

# ---------------------------------------------------------------- round 8: statement source, default cse names, float literal, constructor drops its start time, gate size from the wrong axis
op("py-model-statement-fallback", ["C01"], PY, r"statements=\[symbolic_model\.state_model\[a\] for a in self\.arglist_state\]", "statements=[symbolic_model.state_model.get(a, a) for a in self.arglist_state]")
op("py-model-statement-or", ["C01"], PY, r"statements=\[symbolic_model\.state_model\[a\] for a in self\.arglist_state\]", "statements=[symbolic_model.state_model[a] or a for a in self.arglist_state]")
op("cpp-cse-default-names", ["C02", "C08", "C07", "C09"], CPP, r"prefix, body = cse\(body, symbols=\(Symbol\(f\"_t\{i\}\"\) for i in count\(\)\)\)", "prefix, body = cse(body)")
op("py-cse-default-names", ["C01", "C08"], PY, r"prefix, body = cse\(body, symbols=\(Symbol\(f\"_t\{i\}\"\) for i in count\(\)\)\)", "prefix, body = cse(body)")
op("innov-h-float-literal", ["C06", "C07"], INNOV if "INNOV" in globals() else "cpp/include/formak/innovation_filtering.h", r"std::sqrt\(2 \* reading_size\)", "std::sqrt(2.0f * reading_size)")
op("hdr-ctor-drops-start-time", ["C11"], HDR, r"_state\{\.currentTime = initialTimestamp, \.state = initialState\} \{", "_state{.state = initialState} {")
op("py-gate-size-from-columns", ["C05", "C06"], PY, r"\(sensor_size, _\) = innovation\.shape", "(_, sensor_size) = innovation.shape")
op("py-setparams-config-from-defaults", ["C10", "C17"], PY, r"mutable_version = dataclasses\.asdict\(self\.config\)", "mutable_version = dataclasses.asdict(Config())")
