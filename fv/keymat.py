"""LAY-KEYMAT: matrix entry (i, j) filled from a name-keyed noise dict.

Three sibling implementations (python.ExtendedKalmanFilter._construct_process,
cpp.ExtendedKalmanFilter._translate_control_covariance, SklearnEKFAdapter._flatten_process_noise)
enumerate `for i, a in <controls>: for j, b in <controls>:` and choose `value` by a decision list.
The rule extracts that decision list, renames the loop variables canonically (outer = I, inner = J,
dict = D) and requires it to be one of the accepted normal forms:

    [(I,J) in D -> D[(I,J)]]  [(J,I) in D -> D[(J,I)]]   (these two in either order, each optional)
    [I == J and I in D -> D[I]]                          (equality on symbols or on indices; D[I] or D[J])
    else -> 0

and the sink to be entry (i, j) (plus optionally the mirrored (j, i)) of the matrix / the
`covariance({i}, {j})` target string.  Anything that evaluates to a different table is a
violation; a shape the extractor does not know is an ANALYSIS-ERROR (never a silent pass).
"""
from __future__ import annotations

import ast
from typing import List, Optional, Tuple

from . import core


class Canon(ast.NodeTransformer):
    def __init__(self, ren):
        self.ren = ren

    def visit_Name(self, n):
        return ast.copy_location(ast.Name(self.ren.get(n.id, n.id), n.ctx), n)


def _loop_vars(loop: ast.For):
    """-> (index name or None, element name) for `for i, a in enumerate(X)` / `for a in X`; and X"""
    it = loop.iter
    if isinstance(it, ast.Call) and isinstance(it.func, ast.Name) and it.func.id == "enumerate" and it.args:
        t = loop.target
        if isinstance(t, ast.Tuple) and len(t.elts) == 2 and all(isinstance(e, ast.Name) for e in t.elts):
            return t.elts[0].id, t.elts[1].id, it.args[0]
        return None
    if isinstance(loop.target, ast.Name):
        return None, loop.target.id, it
    return None


def find_nest(fn: ast.FunctionDef) -> Optional[Tuple[ast.For, ast.For]]:
    for n in ast.walk(fn):
        if isinstance(n, ast.For):
            for m in n.body:
                if isinstance(m, ast.For) and ast.dump(_iter_src(n)) == ast.dump(_iter_src(m)):
                    return n, m
    return None


def _iter_src(loop):
    v = _loop_vars(loop)
    return v[2] if v else loop.iter


def decision_list(inner: ast.For, ren, value_name_hint=None):
    """the if/elif/else chain in the inner loop body that assigns one variable; -> (var, [(cond, value)], default)"""
    for s in inner.body:
        if isinstance(s, ast.If):
            chain = []
            cur = s
            var = None
            while True:
                if len(cur.body) != 1 or not isinstance(cur.body[0], ast.Assign) or len(cur.body[0].targets) != 1 \
                        or not isinstance(cur.body[0].targets[0], ast.Name):
                    return None
                v = cur.body[0].targets[0].id
                if var is None:
                    var = v
                elif var != v:
                    return None
                chain.append((_canon(cur.test, ren), _canon(cur.body[0].value, ren)))
                if len(cur.orelse) == 1 and isinstance(cur.orelse[0], ast.If):
                    cur = cur.orelse[0]
                    continue
                if len(cur.orelse) == 1 and isinstance(cur.orelse[0], ast.Assign) and len(cur.orelse[0].targets) == 1 \
                        and isinstance(cur.orelse[0].targets[0], ast.Name) and cur.orelse[0].targets[0].id == var:
                    return var, chain, _canon(cur.orelse[0].value, ren)
                return None
    return None


def decision_from_candidates(inner: ast.For, ren):
    """`cand = [K1, K2]; if C: cand.append(K3); var = next((D[k] for k in cand if k in D), default)` -- the first candidate key the mapping holds.
    -> (var, [(cond, value)], default) in the same vocabulary as the if/elif chain, or None"""
    body = inner.body
    for i, s in enumerate(body):
        if not (isinstance(s, ast.Assign) and len(s.targets) == 1 and isinstance(s.targets[0], ast.Name) and isinstance(s.value, ast.Call)
                and isinstance(s.value.func, ast.Name) and s.value.func.id == "next" and len(s.value.args) == 2
                and isinstance(s.value.args[0], ast.GeneratorExp)):
            continue
        ge = s.value.args[0]
        if len(ge.generators) != 1 or len(ge.generators[0].ifs) != 1 or not isinstance(ge.generators[0].target, ast.Name):
            return None
        g = ge.generators[0]
        k = g.target.id
        # elt = D[k], condition = k in D
        if not (isinstance(ge.elt, ast.Subscript) and isinstance(ge.elt.slice, ast.Name) and ge.elt.slice.id == k and isinstance(g.ifs[0], ast.Compare)
                and len(g.ifs[0].ops) == 1 and isinstance(g.ifs[0].ops[0], ast.In) and isinstance(g.ifs[0].left, ast.Name) and g.ifs[0].left.id == k
                and ast.dump(g.ifs[0].comparators[0]) == ast.dump(ge.elt.value)):
            return None
        D = ge.elt.value
        cands = []          # (condition node or None, key node)
        if isinstance(g.iter, (ast.List, ast.Tuple)):
            cands = [(None, e) for e in g.iter.elts]
        elif isinstance(g.iter, ast.Name):
            cname = g.iter.id
            for p_ in body[:i]:
                if isinstance(p_, ast.Assign) and len(p_.targets) == 1 and isinstance(p_.targets[0], ast.Name) and p_.targets[0].id == cname \
                        and isinstance(p_.value, (ast.List, ast.Tuple)):
                    cands = [(None, e) for e in p_.value.elts]
                elif isinstance(p_, ast.If) and not p_.orelse and len(p_.body) == 1 and isinstance(p_.body[0], ast.Expr) and isinstance(p_.body[0].value, ast.Call) \
                        and isinstance(p_.body[0].value.func, ast.Attribute) and p_.body[0].value.func.attr == "append" \
                        and isinstance(p_.body[0].value.func.value, ast.Name) and p_.body[0].value.func.value.id == cname and len(p_.body[0].value.args) == 1:
                    cands.append((p_.test, p_.body[0].value.args[0]))
                elif any(isinstance(x, ast.Name) and x.id == cname for x in ast.walk(p_)):
                    return None
        if not cands:
            return None
        chain = []
        for cond, key in cands:
            member = ast.Compare(key, [ast.In()], [D])
            test = member if cond is None else ast.BoolOp(ast.And(), [cond, member])
            chain.append((_canon(ast.fix_missing_locations(ast.Expression(test)).body, ren), _canon(ast.Subscript(D, key, ast.Load()), ren)))
        return s.targets[0].id, chain, _canon(s.value.args[1], ren)
    return None


def _canon(node, ren):
    import copy
    return ast.unparse(Canon(ren).visit(copy.deepcopy(node)))


class _Unsupported(Exception):
    pass


class _Tok(str):
    """a symbolic value of the lookup evaluation (a loop variable, a stored noise entry, an opaque module-level object)"""
    __slots__ = ()


class _Stop(Exception):
    pass


def semantic_table(inner: ast.For, ren):
    """The lookup written any other way (dict.get cascades with a sentinel, nested .get defaults, conditional expressions, flag variables):
    the inner loop body is *evaluated* for every combination of the facts it can depend on -- is (I, J) a key, is (J, I), is I, is J, is I == J --
    with the mapping answering membership / item / .get symbolically.  The noise value touches the mapping only through those comparisons, so
    the 24 consistent combinations are ALL its behaviours.  -> (results {world: value token}, sinks [(kind, text)]) or raises _Unsupported."""
    inv = {v: k for k, v in ren.items()}
    Dn = inv.get("D")
    worlds = []
    for E in (False, True):
        for A in (False, True):
            for B in (False, True):
                for C in (False, True):
                    for Cj in (False, True):
                        if E and (A != B or C != Cj):
                            continue
                        worlds.append((E, A, B, C, Cj))
    results, sink_sets = {}, []

    def run_world(w):
        E, A, B, C, Cj = w
        member = {("I", "J"): A, ("J", "I"): B, "I": C, "J": Cj, ("I", "I"): A if E else None, ("J", "J"): A if E else None}
        env = {}
        for src, canon in ren.items():
            if canon in ("I", "J", "i", "j"):
                env[src] = _Tok(canon)
        sinks = []

        def key_of(v):
            def nm(t):
                if not isinstance(t, _Tok) or t not in ("I", "J"):
                    raise _Unsupported(f"key component {t!r}")
                return "I" if (E and t == "J") else str(t)
            if isinstance(v, tuple) and len(v) == 2:
                k = (nm(v[0]), nm(v[1]))
            else:
                k = nm(v)
            if E:
                k = ("I", "J") if k == ("I", "I") else k
            if member.get(k) is None:
                raise _Unsupported(f"key {k}")
            return k

        def item(k):
            return _Tok("D[%s]" % (", ".join(k) if isinstance(k, tuple) else k))

        def same(a, b):
            if isinstance(a, _Tok) and isinstance(b, _Tok) and {str(a), str(b)} <= {"I", "J", "i", "j"}:
                if {str(a), str(b)} in ({"I", "J"}, {"i", "j"}):
                    return E
                if str(a) == str(b):
                    return True
                raise _Unsupported("comparison of a symbol with an index")
            if isinstance(a, _Tok) or isinstance(b, _Tok):
                return str(a) == str(b) and type(a) is type(b)
            return a == b

        def ev(e):
            if isinstance(e, ast.Constant):
                return e.value
            if isinstance(e, ast.Name):
                if e.id in env:
                    return env[e.id]
                if e.id == Dn:
                    return _Tok("D")
                if e.id in ("True", "False", "None"):
                    return {"True": True, "False": False, "None": None}[e.id]
                return _Tok("@" + e.id)                     # a module-level object (a sentinel): equal only to itself
            if isinstance(e, ast.Attribute):
                return _Tok("@" + ast.unparse(e))
            if isinstance(e, ast.Tuple):
                return tuple(ev(x) for x in e.elts)
            if isinstance(e, ast.List):
                return [ev(x) for x in e.elts]
            if isinstance(e, ast.JoinedStr):
                return _Tok("f:" + _canon(e, ren))
            if isinstance(e, ast.UnaryOp) and isinstance(e.op, ast.Not):
                return not truth(ev(e.operand))
            if isinstance(e, ast.BoolOp):
                last = None
                for x in e.values:
                    last = ev(x)
                    if isinstance(e.op, ast.And) and not truth(last):
                        return last
                    if isinstance(e.op, ast.Or) and truth(last):
                        return last
                return last
            if isinstance(e, ast.IfExp):
                return ev(e.body) if truth(ev(e.test)) else ev(e.orelse)
            if isinstance(e, ast.Compare) and len(e.ops) == 1:
                l, r, op = ev(e.left), ev(e.comparators[0]), e.ops[0]
                if isinstance(op, (ast.In, ast.NotIn)):
                    if r == _Tok("D") and isinstance(r, _Tok):
                        res = member[key_of(l)]
                    elif isinstance(r, (list, tuple)):
                        res = any(same(l, x) for x in r)
                    else:
                        raise _Unsupported("membership in " + repr(r))
                    return res if isinstance(op, ast.In) else not res
                if isinstance(op, (ast.Eq, ast.Is)):
                    return same(l, r)
                if isinstance(op, (ast.NotEq, ast.IsNot)):
                    return not same(l, r)
                raise _Unsupported("comparison " + type(op).__name__)
            if isinstance(e, ast.Subscript):
                b = ev(e.value)
                if isinstance(b, _Tok) and b == "D":
                    k = key_of(ev(e.slice))
                    if not member[k]:
                        raise _Stop("KeyError")
                    return item(k)
                if isinstance(b, (list, tuple)) and isinstance(e.slice, ast.Constant) and isinstance(e.slice.value, int):
                    return b[e.slice.value]
                raise _Unsupported("subscript of " + repr(b))
            if isinstance(e, ast.Call):
                f = e.func
                if isinstance(f, ast.Attribute) and f.attr == "get" and not e.keywords and 1 <= len(e.args) <= 2:
                    b = ev(f.value)
                    if isinstance(b, _Tok) and b == "D":
                        kv = ev(e.args[0])
                        dflt = ev(e.args[1]) if len(e.args) == 2 else None       # the default is evaluated whether or not it is used
                        k = key_of(kv)
                        return item(k) if member[k] else dflt
                if isinstance(f, ast.Name) and f.id == "next" and len(e.args) == 2 and isinstance(e.args[0], ast.GeneratorExp) and len(e.args[0].generators) == 1:
                    g = e.args[0].generators[0]
                    if not isinstance(g.target, ast.Name):
                        raise _Unsupported("generator target")
                    saved = env.get(g.target.id)
                    try:
                        for x in ev(g.iter):
                            env[g.target.id] = x
                            if all(truth(ev(c)) for c in g.ifs):
                                return ev(e.args[0].elt)
                    finally:
                        if saved is None:
                            env.pop(g.target.id, None)
                        else:
                            env[g.target.id] = saved
                    return ev(e.args[1])
                if isinstance(f, ast.Name) and f.id in ("float",) and len(e.args) == 1:
                    return ev(e.args[0])
                raise _Unsupported("call " + ast.unparse(f)[:40])
            raise _Unsupported(type(e).__name__)

        def truth(v):
            if isinstance(v, bool):
                return v
            if v is None:
                return False
            if isinstance(v, (int, float)):
                return bool(v)
            if isinstance(v, (list, tuple)):
                return bool(v)
            if isinstance(v, _Tok) and v.startswith("D["):
                raise _Unsupported("truth value of a stored noise entry")     # 0.0 is a legitimate entry: truthiness would drop it
            if isinstance(v, _Tok):
                return True
            raise _Unsupported("truth of " + repr(v))

        def mark(e, val):
            """canonical text of a sink expression with the sub-expressions that evaluate to the chosen value replaced by VALUE"""
            class M(ast.NodeTransformer):
                def visit_Name(self, n):
                    if n.id in env and isinstance(env[n.id], (_Tok, float, int)) and not isinstance(env[n.id], bool) and env[n.id] == val \
                            and (not isinstance(env[n.id], _Tok) or str(env[n.id]) not in ("I", "J", "i", "j")):
                        return ast.copy_location(ast.Name("VALUE", ast.Load()), n)
                    return n
            import copy as _c
            return _canon(M().visit(_c.deepcopy(e)), ren)

        def block(stmts):
            for st in stmts:
                if isinstance(st, ast.Assign) and len(st.targets) == 1:
                    t = st.targets[0]
                    v = ev(st.value)
                    if isinstance(t, ast.Name):
                        env[t.id] = v
                    elif isinstance(t, ast.Subscript):
                        sinks.append(("store", _canon(t.slice, ren), v, st))
                    elif isinstance(t, (ast.Tuple, ast.List)) and isinstance(v, (tuple, list)) and len(v) == len(t.elts) and all(isinstance(x, ast.Name) for x in t.elts):
                        for x, y in zip(t.elts, v):
                            env[x.id] = y
                    else:
                        raise _Unsupported("assignment target")
                elif isinstance(st, ast.AnnAssign) and isinstance(st.target, ast.Name) and st.value is not None:
                    env[st.target.id] = ev(st.value)
                elif isinstance(st, ast.If):
                    block(st.body if truth(ev(st.test)) else st.orelse)
                elif isinstance(st, ast.Expr) and isinstance(st.value, ast.Yield) and st.value.value is not None:
                    y = st.value.value
                    if isinstance(y, ast.Tuple) and y.elts:
                        val = ev(y.elts[-1])
                        for x in y.elts[:-1]:
                            ev(x)
                        import copy as _c
                        y2 = _c.deepcopy(y)
                        y2.elts[-1] = ast.Name("VALUE", ast.Load())
                        sinks.append(("yield", _canon(y2, ren), val, st))
                    else:
                        raise _Unsupported("yield of a non-tuple")
                elif isinstance(st, ast.Expr) and isinstance(st.value, ast.Call) and isinstance(st.value.func, ast.Attribute) and st.value.func.attr == "append" \
                        and isinstance(st.value.func.value, ast.Name) and isinstance(env.get(st.value.func.value.id), list) and len(st.value.args) == 1:
                    env[st.value.func.value.id].append(ev(st.value.args[0]))
                elif isinstance(st, (ast.Pass, ast.Assert)):
                    continue
                elif isinstance(st, ast.Expr) and isinstance(st.value, ast.Constant):
                    continue
                else:
                    raise _Unsupported("statement " + type(st).__name__)
        try:
            block(inner.body)
        except _Stop as e:
            return _Tok("raises " + str(e)), sinks
        vals = {str(v) for _, _, v, _ in sinks}
        if len(vals) != 1:
            raise _Unsupported(f"sinks receive different values {sorted(vals)}")
        return next(v for _, _, v, _ in sinks), sinks
    per_e = {}
    for w in worlds:
        val, sinks = run_world(w)
        results[w] = val
        sk = [(k, t) for k, t, _, _ in sinks]
        if not isinstance(val, _Tok) or not val.startswith("raises"):
            if w[0] not in per_e:
                per_e[w[0]] = (sk, sinks)
            elif per_e[w[0]][0] != sk:
                raise _Unsupported("which entries are written depends on which keys the mapping holds")
    if not per_e:
        raise _Unsupported("no case reaches a sink")
    # which entries are written may depend on I == J (the mirrored entry is only written off the diagonal): all of them, each once
    out, seen = [], set()
    for e_ in (False, True):
        for s_ in per_e.get(e_, ([], []))[1]:
            if (s_[0], s_[1]) not in seen:
                seen.add((s_[0], s_[1]))
                out.append(s_)
    return results, out


def spec_value(w, prefer="IJ"):
    E, A, B, C, Cj = w
    if A and B:
        return "D[I, J]" if prefer == "IJ" else "D[J, I]"
    if A:
        return "D[I, J]"
    if B:
        return "D[J, I]"
    if E and C:
        return "D[I]"
    return "0.0"


def describe_world(w):
    E, A, B, C, Cj = w
    return ("I == J" if E else "I != J") + ", " + ", ".join(f"{k} {'in' if v else 'not in'} D" for k, v in (("(I, J)", A), ("(J, I)", B), ("I", C), ("J", Cj)))


ACCEPT_PAIR = {("(I, J) in D", "D[I, J]"), ("(J, I) in D", "D[J, I]")}
ACCEPT_DIAG_COND = {"I == J and I in D", "J == I and I in D", "I == J and J in D", "J == I and J in D",
                    "I in D and I == J", "I in D and J == I", "J in D and I == J", "J in D and J == I",
                    "i == j and I in D", "j == i and I in D", "i == j and J in D", "j == i and J in D",
                    "I in D and i == j", "J in D and i == j", "I in D and j == i", "J in D and j == i"}


def check_function(ctx: core.Ctx, rel, qual, fn: ast.FunctionDef, dict_param: str, rule="LAY-KEYMAT", mod=None, cls=None):
    """returns the canonical table (for sibling comparison) or None"""
    from . import normast
    # swapped arms / guard clauses / temporaries / a lookup helper (module function or method with guard returns): compare the decision table,
    # not its arrangement
    res = normast.class_resolver(mod, cls) if mod is not None else None
    fn = normast.Normaliser(res).function(fn)
    nest = find_nest(fn)
    where = f"{rel}:{qual}"
    if nest is None:
        ctx.error(f"{where}: no `for a in X: for b in X:` nest found for the noise matrix (LAY-KEYMAT)")
        return None
    outer, inner = nest
    vo, vi = _loop_vars(outer), _loop_vars(inner)
    if vo is None or vi is None:
        ctx.error(f"{where}: loop targets of the noise nest not understood")
        return None
    ren = {vo[1]: "I", vi[1]: "J", dict_param: "D"}
    if vo[0]:
        ren[vo[0]] = "i"
    if vi[0]:
        ren[vi[0]] = "j"
    dl = decision_list(inner, ren)
    if dl is None:
        dl = decision_from_candidates(inner, ren)
    sem_sinks = None
    if dl is None:
        # not one of the two written forms: evaluate the lookup over every combination of key facts
        try:
            results, sem_sinks = semantic_table(inner, ren)
        except _Unsupported as e:
            ctx.error(f"{where}: the value decision list of the noise nest is neither an if/elif/else chain nor evaluable case by case ({e})")
            return None

        def norm(v):
            if isinstance(v, _Tok):
                return "D[I]" if str(v) == "D[J]" else str(v)
            return "0.0" if isinstance(v, (int, float)) and not isinstance(v, bool) and v == 0 else repr(v)
        fits = {pref: [w for w in results if norm(results[w]) != spec_value(w, pref)] for pref in ("IJ", "JI")}
        pref = "IJ" if not fits["IJ"] else ("JI" if not fits["JI"] else None)
        if pref is None:
            w = fits["IJ"][0]
            ctx.oblige(rule, where, f"lookup evaluated in {len(results)} cases", False, file=rel, func=qual, construct="noise decision list",
                       msg=f"noise entry (I, J) is not chosen by the name-keyed table: when {describe_world(w)} the entry is {norm(results[w])}, the table gives "
                           f"{spec_value(w)} ({len(fits['IJ'])} of {len(results)} cases differ)", line=inner.lineno)
            return None
        pair = [("(I, J) in D", "D[I, J]"), ("(J, I) in D", "D[J, I]")]
        dl = ("VALUE", (pair if pref == "IJ" else pair[::-1]) + [("I == J and I in D", "D[I]")], "0.0")
        ctx.note(f"{qual}: noise lookup decided by evaluating it in {len(results)} key-presence cases")
    var, chain, default = dl
    ok = True
    why = []
    seen_pairs = set()
    diag_seen = False
    for cond, val in chain:
        if (cond, val) in ACCEPT_PAIR and not diag_seen:
            seen_pairs.add((cond, val))
            continue
        if cond in ACCEPT_DIAG_COND and val in ("D[I]", "D[J]") and not diag_seen:
            diag_seen = True
            continue
        ok = False
        why.append(f"branch `{cond} -> {val}`")
    if default not in ("0.0", "0", "0.0 * 1"):
        ok = False
        why.append(f"default `{default}`")
    if not diag_seen:
        ok = False
        why.append("no per-symbol diagonal branch (I == J and I in D -> D[I])")
    table = (tuple(chain), default)
    ctx.oblige(rule, where, f"decision list {chain} else {default}", ok, file=rel, func=qual,
               construct="noise decision list",
               msg=f"noise entry (I, J) is not chosen by the name-keyed table: {'; '.join(why)}", line=inner.lineno)
    # sinks
    sinks = []
    if sem_sinks is not None:
        sinks = [(k, t, node) for k, t, _, node in sem_sinks]
    for n in (ast.walk(inner) if sem_sinks is None else ()):
        if isinstance(n, ast.Assign) and len(n.targets) == 1 and isinstance(n.targets[0], ast.Subscript) \
                and isinstance(n.value, ast.Name) and n.value.id == var:
            sinks.append(("store", _canon(n.targets[0].slice, ren), n))
        elif isinstance(n, ast.Yield) and n.value is not None:
            sinks.append(("yield", _canon(n.value, ren), n))
    good = {"store": {"(i, j)", "(j, i)"},
            "yield": {"(f'covariance({i}, {j})', %s)" % var, "(f'covariance({j}, {i})', %s)" % var, "(I, J, %s)" % var}}
    primary = {"store": "(i, j)", "yield": None}
    nsink = 0
    have_primary = False
    for kind, txt, node in sinks:
        nsink += 1
        okk = txt in good[kind]
        if txt in ("(i, j)", "(f'covariance({i}, {j})', %s)" % var, "(I, J, %s)" % var):
            have_primary = True
        ctx.oblige(rule, where, f"sink {kind} {txt}", okk, file=rel, func=qual, construct=f"noise sink {kind}",
                   msg=f"noise value for the pair (I, J) is written to `{txt}`", line=node.lineno)
    # symmetry of what is written: an off-diagonal entry given once, as (a, b), must reach both (a, b) and (b, a) -- through the reversed lookup
    # (both visits find it) or through the mirrored sink; with neither the matrix is asymmetric
    both_lookups = ("(I, J) in D", "D[I, J]") in seen_pairs and ("(J, I) in D", "D[J, I]") in seen_pairs
    mirrored = any(txt in ("(j, i)", "(f'covariance({j}, {i})', %s)" % var) for kind, txt, node in sinks)
    if seen_pairs:
        ctx.oblige(rule, where, f"pair entries reach both triangles (reversed lookup: {both_lookups}, mirrored sink: {mirrored})", both_lookups or mirrored,
                   file=rel, func=qual, construct="noise symmetry",
                   msg="a correlated noise entry given once as (a, b) is written to (a, b) only: neither is the pair looked up in both orders nor is the "
                       "value mirrored to (j, i) -- the noise matrix, and every covariance predicted with it, is not symmetric", line=inner.lineno)
    if nsink == 0 or not have_primary:
        ctx.oblige(rule, where, "entry (i, j) receives the value chosen for (I, J)", False, file=rel, func=qual,
                   construct="noise sink missing", msg="no sink writes entry (i, j) with the value chosen for the pair (I, J)",
                   line=inner.lineno)
    # both loops must enumerate the same, sorted control list: left to E2 (LAY-SLOT); report the source text
    return table, ast.unparse(_iter_src(outer))
