"""LAY-KEYMAT: matrix entry (i, j) filled from a name-keyed noise dict.

Three sibling implementations (python.ExtendedKalmanFilter._construct_process,
cpp.ExtendedKalmanFilter._translate_control_covariance, SklearnEKFAdapter._flatten_process_noise)
enumerate `for i, a in <controls>: for j, b in <controls>:` and choose `value` by a decision list.
The rule extracts that decision list, renames the loop variables canonically (outer = I, inner = J,
dict = D) and requires it to be one of the accepted normal forms:

    [(I,J) in D -> D[(I,J)]]  [(J,I) in D -> D[(J,I)]]   (these two in either order, each optional)
    [I == J and I in D -> D[I]]                          (equality on symbols or on indices; D[I] or D[J])
    else -> 0

and the sink to be entry (i, j) (plus optionally the mirrored (j, i)) of the matrix / the
`covariance({i}, {j})` target string.  Anything that evaluates to a different table is a
violation; a shape the extractor does not know is an ANALYSIS-ERROR (never a silent pass).
"""
from __future__ import annotations

import ast
from typing import List, Optional, Tuple

from . import core


class Canon(ast.NodeTransformer):
    def __init__(self, ren):
        self.ren = ren

    def visit_Name(self, n):
        return ast.copy_location(ast.Name(self.ren.get(n.id, n.id), n.ctx), n)


def _loop_vars(loop: ast.For):
    """-> (index name or None, element name) for `for i, a in enumerate(X)` / `for a in X`; and X"""
    it = loop.iter
    if isinstance(it, ast.Call) and isinstance(it.func, ast.Name) and it.func.id == "enumerate" and it.args:
        t = loop.target
        if isinstance(t, ast.Tuple) and len(t.elts) == 2 and all(isinstance(e, ast.Name) for e in t.elts):
            return t.elts[0].id, t.elts[1].id, it.args[0]
        return None
    if isinstance(loop.target, ast.Name):
        return None, loop.target.id, it
    return None


def find_nest(fn: ast.FunctionDef) -> Optional[Tuple[ast.For, ast.For]]:
    for n in ast.walk(fn):
        if isinstance(n, ast.For):
            for m in n.body:
                if isinstance(m, ast.For) and ast.dump(_iter_src(n)) == ast.dump(_iter_src(m)):
                    return n, m
    return None


def _iter_src(loop):
    v = _loop_vars(loop)
    return v[2] if v else loop.iter


def decision_list(inner: ast.For, ren, value_name_hint=None):
    """the if/elif/else chain in the inner loop body that assigns one variable; -> (var, [(cond, value)], default)"""
    for s in inner.body:
        if isinstance(s, ast.If):
            chain = []
            cur = s
            var = None
            while True:
                if len(cur.body) != 1 or not isinstance(cur.body[0], ast.Assign) or len(cur.body[0].targets) != 1 \
                        or not isinstance(cur.body[0].targets[0], ast.Name):
                    return None
                v = cur.body[0].targets[0].id
                if var is None:
                    var = v
                elif var != v:
                    return None
                chain.append((_canon(cur.test, ren), _canon(cur.body[0].value, ren)))
                if len(cur.orelse) == 1 and isinstance(cur.orelse[0], ast.If):
                    cur = cur.orelse[0]
                    continue
                if len(cur.orelse) == 1 and isinstance(cur.orelse[0], ast.Assign) and len(cur.orelse[0].targets) == 1 \
                        and isinstance(cur.orelse[0].targets[0], ast.Name) and cur.orelse[0].targets[0].id == var:
                    return var, chain, _canon(cur.orelse[0].value, ren)
                return None
    return None


def decision_from_candidates(inner: ast.For, ren):
    """`cand = [K1, K2]; if C: cand.append(K3); var = next((D[k] for k in cand if k in D), default)` -- the first candidate key the mapping holds.
    -> (var, [(cond, value)], default) in the same vocabulary as the if/elif chain, or None"""
    body = inner.body
    for i, s in enumerate(body):
        if not (isinstance(s, ast.Assign) and len(s.targets) == 1 and isinstance(s.targets[0], ast.Name) and isinstance(s.value, ast.Call)
                and isinstance(s.value.func, ast.Name) and s.value.func.id == "next" and len(s.value.args) == 2
                and isinstance(s.value.args[0], ast.GeneratorExp)):
            continue
        ge = s.value.args[0]
        if len(ge.generators) != 1 or len(ge.generators[0].ifs) != 1 or not isinstance(ge.generators[0].target, ast.Name):
            return None
        g = ge.generators[0]
        k = g.target.id
        # elt = D[k], condition = k in D
        if not (isinstance(ge.elt, ast.Subscript) and isinstance(ge.elt.slice, ast.Name) and ge.elt.slice.id == k and isinstance(g.ifs[0], ast.Compare)
                and len(g.ifs[0].ops) == 1 and isinstance(g.ifs[0].ops[0], ast.In) and isinstance(g.ifs[0].left, ast.Name) and g.ifs[0].left.id == k
                and ast.dump(g.ifs[0].comparators[0]) == ast.dump(ge.elt.value)):
            return None
        D = ge.elt.value
        cands = []          # (condition node or None, key node)
        if isinstance(g.iter, (ast.List, ast.Tuple)):
            cands = [(None, e) for e in g.iter.elts]
        elif isinstance(g.iter, ast.Name):
            cname = g.iter.id
            for p_ in body[:i]:
                if isinstance(p_, ast.Assign) and len(p_.targets) == 1 and isinstance(p_.targets[0], ast.Name) and p_.targets[0].id == cname \
                        and isinstance(p_.value, (ast.List, ast.Tuple)):
                    cands = [(None, e) for e in p_.value.elts]
                elif isinstance(p_, ast.If) and not p_.orelse and len(p_.body) == 1 and isinstance(p_.body[0], ast.Expr) and isinstance(p_.body[0].value, ast.Call) \
                        and isinstance(p_.body[0].value.func, ast.Attribute) and p_.body[0].value.func.attr == "append" \
                        and isinstance(p_.body[0].value.func.value, ast.Name) and p_.body[0].value.func.value.id == cname and len(p_.body[0].value.args) == 1:
                    cands.append((p_.test, p_.body[0].value.args[0]))
                elif any(isinstance(x, ast.Name) and x.id == cname for x in ast.walk(p_)):
                    return None
        if not cands:
            return None
        chain = []
        for cond, key in cands:
            member = ast.Compare(key, [ast.In()], [D])
            test = member if cond is None else ast.BoolOp(ast.And(), [cond, member])
            chain.append((_canon(ast.fix_missing_locations(ast.Expression(test)).body, ren), _canon(ast.Subscript(D, key, ast.Load()), ren)))
        return s.targets[0].id, chain, _canon(s.value.args[1], ren)
    return None


def _canon(node, ren):
    import copy
    return ast.unparse(Canon(ren).visit(copy.deepcopy(node)))


ACCEPT_PAIR = {("(I, J) in D", "D[I, J]"), ("(J, I) in D", "D[J, I]")}
ACCEPT_DIAG_COND = {"I == J and I in D", "J == I and I in D", "I == J and J in D", "J == I and J in D",
                    "I in D and I == J", "I in D and J == I", "J in D and I == J", "J in D and J == I",
                    "i == j and I in D", "j == i and I in D", "i == j and J in D", "j == i and J in D",
                    "I in D and i == j", "J in D and i == j", "I in D and j == i", "J in D and j == i"}


def check_function(ctx: core.Ctx, rel, qual, fn: ast.FunctionDef, dict_param: str, rule="LAY-KEYMAT", mod=None, cls=None):
    """returns the canonical table (for sibling comparison) or None"""
    from . import normast
    # swapped arms / guard clauses / temporaries / a lookup helper (module function or method with guard returns): compare the decision table,
    # not its arrangement
    res = normast.class_resolver(mod, cls) if mod is not None else None
    fn = normast.Normaliser(res).function(fn)
    nest = find_nest(fn)
    where = f"{rel}:{qual}"
    if nest is None:
        ctx.error(f"{where}: no `for a in X: for b in X:` nest found for the noise matrix (LAY-KEYMAT)")
        return None
    outer, inner = nest
    vo, vi = _loop_vars(outer), _loop_vars(inner)
    if vo is None or vi is None:
        ctx.error(f"{where}: loop targets of the noise nest not understood")
        return None
    ren = {vo[1]: "I", vi[1]: "J", dict_param: "D"}
    if vo[0]:
        ren[vo[0]] = "i"
    if vi[0]:
        ren[vi[0]] = "j"
    dl = decision_list(inner, ren)
    if dl is None:
        dl = decision_from_candidates(inner, ren)
    if dl is None:
        ctx.error(f"{where}: the value decision list of the noise nest is not an if/elif/else chain assigning one variable")
        return None
    var, chain, default = dl
    ok = True
    why = []
    seen_pairs = set()
    diag_seen = False
    for cond, val in chain:
        if (cond, val) in ACCEPT_PAIR and not diag_seen:
            seen_pairs.add((cond, val))
            continue
        if cond in ACCEPT_DIAG_COND and val in ("D[I]", "D[J]") and not diag_seen:
            diag_seen = True
            continue
        ok = False
        why.append(f"branch `{cond} -> {val}`")
    if default not in ("0.0", "0", "0.0 * 1"):
        ok = False
        why.append(f"default `{default}`")
    if not diag_seen:
        ok = False
        why.append("no per-symbol diagonal branch (I == J and I in D -> D[I])")
    table = (tuple(chain), default)
    ctx.oblige(rule, where, f"decision list {chain} else {default}", ok, file=rel, func=qual,
               construct="noise decision list",
               msg=f"noise entry (I, J) is not chosen by the name-keyed table: {'; '.join(why)}", line=inner.lineno)
    # sinks
    sinks = []
    for n in ast.walk(inner):
        if isinstance(n, ast.Assign) and len(n.targets) == 1 and isinstance(n.targets[0], ast.Subscript) \
                and isinstance(n.value, ast.Name) and n.value.id == var:
            sinks.append(("store", _canon(n.targets[0].slice, ren), n))
        elif isinstance(n, ast.Yield) and n.value is not None:
            sinks.append(("yield", _canon(n.value, ren), n))
    good = {"store": {"(i, j)", "(j, i)"},
            "yield": {"(f'covariance({i}, {j})', %s)" % var, "(f'covariance({j}, {i})', %s)" % var, "(I, J, %s)" % var}}
    primary = {"store": "(i, j)", "yield": None}
    nsink = 0
    have_primary = False
    for kind, txt, node in sinks:
        nsink += 1
        okk = txt in good[kind]
        if txt in ("(i, j)", "(f'covariance({i}, {j})', %s)" % var, "(I, J, %s)" % var):
            have_primary = True
        ctx.oblige(rule, where, f"sink {kind} {txt}", okk, file=rel, func=qual, construct=f"noise sink {kind}",
                   msg=f"noise value for the pair (I, J) is written to `{txt}`", line=node.lineno)
    # symmetry of what is written: an off-diagonal entry given once, as (a, b), must reach both (a, b) and (b, a) -- through the reversed lookup
    # (both visits find it) or through the mirrored sink; with neither the matrix is asymmetric
    both_lookups = ("(I, J) in D", "D[I, J]") in seen_pairs and ("(J, I) in D", "D[J, I]") in seen_pairs
    mirrored = any(txt in ("(j, i)", "(f'covariance({j}, {i})', %s)" % var) for kind, txt, node in sinks)
    if seen_pairs:
        ctx.oblige(rule, where, f"pair entries reach both triangles (reversed lookup: {both_lookups}, mirrored sink: {mirrored})", both_lookups or mirrored,
                   file=rel, func=qual, construct="noise symmetry",
                   msg="a correlated noise entry given once as (a, b) is written to (a, b) only: neither is the pair looked up in both orders nor is the "
                       "value mirrored to (j, i) -- the noise matrix, and every covariance predicted with it, is not symmetric", line=inner.lineno)
    if nsink == 0 or not have_primary:
        ctx.oblige(rule, where, "entry (i, j) receives the value chosen for (I, J)", False, file=rel, func=qual,
                   construct="noise sink missing", msg="no sink writes entry (i, j) with the value chosen for the pair (I, J)",
                   line=inner.lineno)
    # both loops must enumerate the same, sorted control list: left to E2 (LAY-SLOT); report the source text
    return table, ast.unparse(_iter_src(outer))
