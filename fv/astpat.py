"""Small AST pattern matcher for the structural rules: patterns are written in Python syntax with metavariables, so that a rule names the
shape it requires and not the identifiers the author happened to choose.

  _K_      (single leading/trailing underscore, upper-case first letter)   binds an identifier; every occurrence must be the same identifier
  __E__    (double underscores)                                            binds an arbitrary expression; occurrences must be structurally equal
  ...      as a statement                                                  any run of statements (possibly empty)

`match(pattern_node, node, binds)` -> bool (binds updated);  `find(pattern_src, tree)` -> list of (binds, matched statements) for every place in
`tree` where the pattern's statement sequence matches a contiguous run of a statement list (or, for an expression pattern, every matching
sub-expression).  `resolver(fn, keep)` gives the usual identification aid: a local assigned exactly once is replaced by its defining expression.
"""
from __future__ import annotations

import ast
import copy
import re
from typing import Any, Dict, List, Optional, Tuple

NAME_MV = re.compile(r"^_[A-Z][A-Za-z0-9]*_$")
EXPR_MV = re.compile(r"^__[A-Z][A-Za-z0-9]*__$")
SKIP = {"ctx", "type_comment", "lineno", "col_offset", "end_lineno", "end_col_offset", "kind"}


def _is_ellipsis_stmt(s) -> bool:
    return isinstance(s, ast.Expr) and isinstance(s.value, ast.Constant) and s.value.value is Ellipsis


def _dump(n) -> str:
    return ast.dump(n, annotate_fields=False, include_attributes=False) if isinstance(n, ast.AST) else repr(n)


def match(p: Any, n: Any, b: Dict[str, Any]) -> bool:
    if isinstance(p, ast.Name) and EXPR_MV.match(p.id):
        if not isinstance(n, ast.expr):
            return False
        if p.id in b:
            return _dump(b[p.id]) == _dump(n)
        b[p.id] = n
        return True
    if isinstance(p, ast.Name) and NAME_MV.match(p.id):
        if not isinstance(n, ast.Name):
            return False
        if p.id in b:
            return b[p.id] == n.id
        b[p.id] = n.id
        return True
    if isinstance(p, ast.arg) and NAME_MV.match(p.arg):
        if not isinstance(n, ast.arg):
            return False
        if p.arg in b:
            return b[p.arg] == n.arg
        b[p.arg] = n.arg
        return True
    if isinstance(p, list):
        if not isinstance(n, list):
            return False
        if p and all(isinstance(x, ast.stmt) for x in p):
            return _match_stmts(p, n, b)
        if len(p) != len(n):
            return False
        return all(match(x, y, b) for x, y in zip(p, n))
    if isinstance(p, ast.AST):
        if type(p) is not type(n):
            return False
        for f in p._fields:
            if f in SKIP:
                continue
            if not match(getattr(p, f, None), getattr(n, f, None), b):
                return False
        return True
    return p == n


def _match_stmts(p: List[ast.stmt], n: List[ast.stmt], b: Dict[str, Any]) -> bool:
    if not p:
        return not n
    if _is_ellipsis_stmt(p[0]):
        for k in range(len(n) + 1):
            b2 = dict(b)
            if _match_stmts(p[1:], n[k:], b2):
                b.clear()
                b.update(b2)
                return True
        return False
    if not n:
        return False
    b2 = dict(b)
    if match(p[0], n[0], b2) and _match_stmts(p[1:], n[1:], b2):
        b.clear()
        b.update(b2)
        return True
    return False


def parse_pattern(src: str):
    """-> ('stmts', [stmt...]) | ('expr', expr)"""
    t = ast.parse(src.strip("\n"))
    if len(t.body) == 1 and isinstance(t.body[0], ast.Expr) and not _is_ellipsis_stmt(t.body[0]):
        return "expr", t.body[0].value
    return "stmts", t.body


def stmt_lists(tree):
    for n in ast.walk(tree):
        for f in ("body", "orelse", "finalbody"):
            v = getattr(n, f, None)
            if isinstance(v, list) and v and all(isinstance(x, ast.stmt) for x in v):
                yield v
        if isinstance(n, ast.Try):
            for h in n.handlers:
                yield h.body


def find(pattern_src: str, tree, binds: Optional[Dict[str, Any]] = None) -> List[Tuple[Dict[str, Any], Any]]:
    kind, pat = parse_pattern(pattern_src)
    out = []
    if kind == "expr":
        for n in ast.walk(tree):
            if isinstance(n, ast.expr):
                b = dict(binds or {})
                if match(pat, n, b):
                    out.append((b, n))
        return out
    anchored_tail = _is_ellipsis_stmt(pat[-1])
    core_len = len([p for p in pat if not _is_ellipsis_stmt(p)])
    for lst in stmt_lists(tree):
        for i in range(len(lst)):
            if anchored_tail:
                b = dict(binds or {})
                if _match_stmts(pat, lst[i:], b):
                    out.append((b, lst[i:]))
                continue
            for j in range(i + core_len, len(lst) + 1):
                b = dict(binds or {})
                if _match_stmts(pat, lst[i:j], b):
                    out.append((b, lst[i:j]))
                    break
    return out


def resolver(fn: ast.FunctionDef, keep=()):
    """-> (RA, R): RA(e) is e with every local that is assigned exactly once (simple `name = expr`, not in `keep`, not a loop target / with /
    augmented target) replaced by its defining expression (depth <= 6); R(e) is its text without blanks.  For IDENTIFYING what a value is, not
    for reordering evaluation."""
    defs: Dict[str, List[ast.expr]] = {}
    multi = set()
    for a in ast.walk(fn):
        if isinstance(a, ast.Assign):
            for t in a.targets:
                if isinstance(t, ast.Name):
                    defs.setdefault(t.id, []).append(a.value)
                else:
                    for x in ast.walk(t):
                        if isinstance(x, ast.Name) and isinstance(x.ctx, ast.Store):
                            multi.add(x.id)
        elif isinstance(a, (ast.AugAssign, ast.AnnAssign)) and isinstance(a.target, ast.Name):
            if isinstance(a, ast.AnnAssign) and a.value is not None:
                defs.setdefault(a.target.id, []).append(a.value)
            else:
                multi.add(a.target.id)
        elif isinstance(a, (ast.For, ast.comprehension)):
            for x in ast.walk(a.target):
                if isinstance(x, ast.Name):
                    multi.add(x.id)
        elif isinstance(a, ast.withitem) and a.optional_vars is not None:
            for x in ast.walk(a.optional_vars):
                if isinstance(x, ast.Name):
                    multi.add(x.id)
        elif isinstance(a, ast.NamedExpr) and isinstance(a.target, ast.Name):
            multi.add(a.target.id)
    params = {x.arg for x in fn.args.posonlyargs + fn.args.args + fn.args.kwonlyargs}

    def RA(e, depth=0):
        class T(ast.NodeTransformer):
            def visit_Name(self, n):
                if isinstance(n.ctx, ast.Load) and n.id not in keep and n.id not in multi and n.id not in params \
                        and len(defs.get(n.id, [])) == 1 and depth < 6:
                    return RA(defs[n.id][0], depth + 1)
                return n

            def visit_Lambda(self, n):
                return n
        return T().visit(copy.deepcopy(e))

    def R(e):
        return ast.unparse(RA(e)).replace(" ", "")
    return RA, R
