"""Abstract scenarios shared by the per-property checks: construct the repo's objects on abstract
models (every model at once) and evaluate their public methods with the E2/E3 interpreter."""
from __future__ import annotations

import ast
from typing import Any, Dict

from . import core
from .interp import Env, Interp, Join, Program
from .matform import MatForm
from .values import *  # noqa

_DUMMY = ast.parse("0").body[0]

OPAQUE = {
    "ExtendedKalmanFilter.process_jacobian": "G",
    "ExtendedKalmanFilter.control_jacobian": "V",
    "ExtendedKalmanFilter.sensor_jacobian": "H",
    "Model.model": "f(dt,x,u)",
    "SensorModel.model": "h(x)",
}
SYMMETRIC = {"P", "M", "Q"}


def program(ctx: core.Ctx) -> Program:
    try:
        p = Program(ctx.repo)
    except (OSError, SyntaxError) as e:
        raise core.AnalysisError(f"cannot parse the analysed modules: {e}")
    import hashlib
    for name, rel in p.paths.items():
        ctx.analysed[rel] = hashlib.sha256(p.sources[name].encode()).hexdigest()
    return p


def user_args():
    return dict(process_noise=MapV("process_noise", "CONTROL"),
                sensor_models=MapV("sensor_models", "SENSOR"),
                sensor_noises=MapV("sensor_noises", "SENSOR"),
                config=ConfigV(),
                calibration_map=MapV("calibration_map", "CALIB"))


class PyEKF:
    """python.ExtendedKalmanFilter constructed abstractly + its entry points evaluated."""

    def __init__(self, ctx: core.Ctx, prog: Program = None, run=("process_model", "sensor_model", "model")):
        self.ctx = ctx
        self.p = prog or program(ctx)
        self.it = Interp(self.p)
        self.it.opaque = dict(OPAQUE)
        self.env = Env("python")
        for cls in ("ExtendedKalmanFilter", "Model", "SensorModel", "BasicBlock"):
            core.need(self.p.classes["python"].get(cls), f"class python.{cls}")
        kw = dict(state_model=ModelV(), **user_args())
        self.ekf = self.it.construct(ClassV("python", "ExtendedKalmanFilter"), [], kw, self.env, _DUMMY)
        a = self.ekf.attrs
        for need in ("State", "Covariance", "Control", "sensor_models", "_state_model"):
            if need not in a:
                raise core.AnalysisError(f"python.ExtendedKalmanFilter.{need} not established by the constructor")
        # name the atoms that live in attributes (E3)
        pn = a.get("process_noise")
        if isinstance(pn, ArrV):
            pn.form = MatForm.atom("M", True)
        sn = a.get("sensor_noises")
        if isinstance(sn, ObjV) and isinstance(sn.attrs.get("__fam__"), NInst):
            self.Qcls = sn.attrs["__fam__"].cls
            sn.attrs["__fam__"] = NInst(self.Qcls, origin="Q")
        else:
            self.Qcls = None
        self.results: Dict[str, Any] = {}
        self.State, self.Cov, self.Control = a["State"], a["Covariance"], a["Control"]
        if "process_model" in run:
            self.results["process_model"] = self.call("ExtendedKalmanFilter", "process_model", self.ekf,
                                                      dt=SymV("DT"), state=NInst(self.State, "x"),
                                                      covariance=NInst(self.Cov, "P"),
                                                      control=NInst(self.Control, "u"))
        if "sensor_model" in run:
            sm = a["sensor_models"]
            smv = sm.value if isinstance(sm, FamV) else None
            if smv is None:
                raise core.AnalysisError("python.ExtendedKalmanFilter.sensor_models is not a per-sensor family of SensorModel")
            self.sensor_model_obj = smv
            rc = self.it.getattr(smv, "Reading", self.env, None)
            if not isinstance(rc, NCls):
                raise core.AnalysisError("SensorModel.Reading is not a named_vector class")
            self.Reading = rc
            self.results["sensor_model"] = self.call("ExtendedKalmanFilter", "sensor_model", self.ekf,
                                                     state=NInst(self.State, "x"), covariance=NInst(self.Cov, "P"),
                                                     sensor_key=SymV("SENSOR"), sensor_reading=NInst(rc, "z"))
        if "model" in run:
            m = a["_state_model"]
            self.results["model"] = self.call("Model", "model", m, dt=SymV("DT"),
                                              state=NInst(m.attrs["State"], "x"),
                                              control=NInst(m.attrs["Control"], "u"))

    def call(self, cls, name, obj, **params):
        fn = core.need(self.p.method("python", cls, name), f"python.{cls}.{name}")
        self.ctx.functions.append(f"python.{cls}.{name}")
        return self.it.call_func(FuncV(fn, "python", obj, cls), [], params, self.env, fn)

    def alts(self, r):
        return list(r.alts) if isinstance(r, Join) else [r]


def transfer(it: Interp, ctx: core.Ctx, *, rules=None, funcs=None, files=None, exclude_funcs=()):
    """copy the interpreter's obligations/findings that belong to a property into the check context."""
    def want(rule, file, func, stack):
        if rules is not None and rule not in rules:
            return False
        if files is not None and file not in files:
            return False
        # an obligation raised inside a helper belongs to the listed function that called it
        chain = (func,) + tuple(stack)
        if funcs is not None and not any(fn_ == f or fn_.endswith("." + f) or fn_.startswith(f) for f in funcs for fn_ in chain):
            return False
        if any(func == f or func.endswith("." + f) for f in exclude_funcs):
            return False
        return True
    n = 0
    for o in it.obligations:
        if want(o.rule, o.file, o.func, o.stack):
            ctx.obligations.append(core.Obligation(o.rule, o.where, o.fact, o.ok))
            n += 1
    for f in it.findings:
        if want(f.rule, f.file, f.func, f.stack):
            ctx.find(f.rule, f.file, f.func, f.construct, f.msg, f.line)
    return n


def count(it: Interp, rule, func=None):
    return sum(1 for o in it.obligations if o.rule == rule and (func is None or any(q == func or q.endswith("." + func) for q in (o.func,) + tuple(o.stack))))


def events_of(it: Interp, func: str, kinds=("store", "return")):
    """the events that happen while `func` runs -- in its own body or in a function it calls -- each with `rpath`, the branch conditions
    relative to func's entry (call-site conditions of the frames below func + the event's own).  A `return` of a callee is not a return of func."""
    out = []
    for e in it.events:
        if e["kind"] not in kinds:
            continue
        st = e.get("stack", ())
        if func not in st:
            continue
        i = len(st) - 1 - list(reversed(st)).index(func)
        inner = i < len(st) - 1
        if inner and e["kind"] == "return":
            continue
        rp = []
        for sp in e.get("sitepaths", ())[i + 1:]:
            rp += list(sp)
        e2 = dict(e)
        e2["rpath"] = rp + list(e["path"])
        e2["inner"] = inner
        out.append(e2)
    return out
