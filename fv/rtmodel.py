"""E5: runtime step / tick model.  runtime.py (via `ast`) and ManagedFilter.h (via clang's AST of an
instantiation against a stand-in Impl, one per control x calibration valuation) are lowered into the
IR of cppast.py and symbolically executed into a StepPlan / TickPlan, on which a sign analysis
({-,0,+}), a provenance check and an effect analysis are run (DESIGN.md section 2/E5, section 3/C10, C11).
"""
from __future__ import annotations

import ast
import os
import tempfile
from dataclasses import dataclass, field
from fractions import Fraction
from typing import Any, Dict, List, Optional, Tuple

from . import core, cppast
from .matform import Scalar

# ------------------------------------------------------------------------------------------ python lowering
OPS = {ast.Add: "+", ast.Sub: "-", ast.Mult: "*", ast.Div: "/", ast.FloorDiv: "//", ast.Mod: "%", ast.Pow: "**",
       ast.Gt: ">", ast.GtE: ">=", ast.Lt: "<", ast.LtE: "<=", ast.Eq: "==", ast.NotEq: "!=", ast.Is: "is", ast.IsNot: "is not",
       ast.In: "in", ast.NotIn: "not in", ast.USub: "-", ast.UAdd: "+", ast.Not: "!", ast.And: "&&", ast.Or: "||"}


def py_expr(n) -> Any:
    if isinstance(n, ast.Constant):
        return ("num", repr(n.value))
    if isinstance(n, ast.Name):
        return ("this",) if n.id == "self" else ("ref", n.id)
    if isinstance(n, ast.Attribute):
        return ("field", py_expr(n.value), n.attr)
    if isinstance(n, ast.BinOp):
        return ("bin", OPS.get(type(n.op), "?"), py_expr(n.left), py_expr(n.right))
    if isinstance(n, ast.UnaryOp):
        return ("un", OPS.get(type(n.op), "?"), py_expr(n.operand))
    if isinstance(n, ast.Compare) and len(n.ops) == 1:
        return ("bin", OPS.get(type(n.ops[0]), "?"), py_expr(n.left), py_expr(n.comparators[0]))
    if isinstance(n, ast.BoolOp):
        e = py_expr(n.values[0])
        for v in n.values[1:]:
            e = ("bin", OPS[type(n.op)], e, py_expr(v))
        return e
    if isinstance(n, ast.IfExp):
        return ("cond", py_expr(n.test), py_expr(n.body), py_expr(n.orelse))
    if isinstance(n, (ast.Tuple, ast.List)):
        return ("init", "tuple", [py_expr(e) for e in n.elts])
    if isinstance(n, ast.Call):
        args = [py_expr(a) for a in n.args] + [("kw", k.arg, py_expr(k.value)) for k in n.keywords]
        if isinstance(n.func, ast.Attribute):
            return ("mcall", py_expr(n.func.value), n.func.attr, args)
        if isinstance(n.func, ast.Name):
            return ("call", n.func.id, args)
        return ("call", py_expr(n.func), args)
    if isinstance(n, ast.Subscript):
        return ("bin", "[]", py_expr(n.value), py_expr(n.slice))
    if isinstance(n, ast.Starred):
        return ("un", "*", py_expr(n.value))
    return ("unknown", type(n).__name__)


def _py_block(stmts) -> List[Any]:
    out = []
    for s in stmts:
        if isinstance(s, ast.Assign) and len(s.targets) == 1:
            t = s.targets[0]
            if isinstance(t, ast.Name):
                out.append(("decl", t.id, py_expr(s.value), ""))
            elif isinstance(t, (ast.Tuple, ast.List)):
                out.append(("assign_tuple", py_expr(t), py_expr(s.value)))
            else:
                out.append(("assign", py_expr(t), py_expr(s.value)))
        elif isinstance(s, ast.Assign):
            v = py_expr(s.value)
            for t in s.targets:
                out.append(("decl", t.id, v, "") if isinstance(t, ast.Name) else ("assign", py_expr(t), v))
        elif isinstance(s, ast.AnnAssign) and s.value is not None and isinstance(s.target, ast.Name):
            out.append(("decl", s.target.id, py_expr(s.value), ""))
        elif isinstance(s, ast.AugAssign):
            t = py_expr(s.target)
            v = ("bin", OPS.get(type(s.op), "?"), t, py_expr(s.value))
            out.append(("decl", s.target.id, v, "") if isinstance(s.target, ast.Name) else ("assign", t, v))
        elif isinstance(s, ast.If):
            out.append(("if", py_expr(s.test), _py_block(s.body), _py_block(s.orelse), None))
        elif isinstance(s, ast.For):
            it = s.iter
            if isinstance(it, ast.Call) and isinstance(it.func, ast.Name) and it.func.id == "range" and len(it.args) == 1:
                out.append(("for_range", py_expr(s.target), py_expr(it.args[0]), _py_block(s.body)))
            elif isinstance(it, ast.Call) and isinstance(it.func, ast.Name) and it.func.id == "range" and len(it.args) == 2 and isinstance(s.target, ast.Name) \
                    and not it.keywords:
                # range(a, b): the C-style counter loop (its start is judged by the step executor)
                tg = s.target.id
                out.append(("for", [("decl", tg, py_expr(it.args[0]), "")], ("bin", "<", ("ref", tg), py_expr(it.args[1])), ("un", "++", ("ref", tg)), _py_block(s.body)))
            else:
                out.append(("rangefor", py_expr(s.target), py_expr(it), _py_block(s.body)))
        elif isinstance(s, ast.While):
            out.append(("while", py_expr(s.test), _py_block(s.body)))
        elif isinstance(s, ast.Return):
            out.append(("return", py_expr(s.value) if s.value is not None else None))
        elif isinstance(s, ast.Raise):
            out.append(("raise", py_expr(s.exc) if s.exc is not None else None))
        elif isinstance(s, ast.Assert):
            out.append(("static_assert", py_expr(s.test)))
        elif isinstance(s, ast.Expr):
            if isinstance(s.value, ast.Constant):
                continue
            out.append(("expr", py_expr(s.value)))
        elif isinstance(s, ast.Pass):
            continue
        elif isinstance(s, ast.Continue):
            out.append(("continue",))
        elif isinstance(s, ast.Break):
            out.append(("break",))
        elif isinstance(s, (ast.Try,)):
            out.extend(_py_block(s.body))
        elif isinstance(s, ast.With):
            out.extend(_py_block(s.body))
        else:
            out.append(("unknown_stmt", type(s).__name__))
    return out


def py_block(stmts) -> List[Any]:
    return structure_continue(_py_block(stmts))


# ------------------------------------------------------------------------------------------ symbolic numbers
class Sym:
    """numeric symbolic value: Scalar polynomial over atoms HELD, TARGET, MAX and opaque function atoms."""
    HELD = Scalar.atom("HELD")
    TARGET = Scalar.atom("TARGET")
    MAX = Scalar.atom("MAX")


def s_const(text):
    try:
        t = str(text).rstrip("fFlLuU")
        return Scalar.const(Fraction(t)) if "e" not in t.lower() and "inf" not in t else Scalar.const(Fraction(float(t)).limit_denominator(10**15))
    except Exception:
        return None


def opaque(fn, *args):
    return Scalar.atom((fn,) + tuple(a.key() if isinstance(a, Scalar) else a for a in args))


def sign_of(s: Scalar, facts: Dict[str, str]) -> str:
    """sign in {'+','-','0','?'} of a Scalar under atom-sign facts (facts map atom name -> '+','-','0')."""
    total = None
    if not s.t:
        return "0"
    for mono, c in s.t.items():
        sg = "+" if c > 0 else "-"
        for a, e in mono:
            asg = atom_sign(a, facts)
            if asg == "?":
                return "?"
            if asg == "0":
                sg = "0"
                break
            if asg == "-" and e % 2 == 1:
                sg = "+" if sg == "-" else "-"
        if sg == "0":
            continue
        if total is None:
            total = sg
        elif total != sg:
            return "?"
    return total or "0"


def atom_sign(a, facts):
    if isinstance(a, str):
        return facts.get(a, "?")
    if isinstance(a, tuple):
        fn = a[0]
        if fn == "sqrt":
            return "+"
        if fn == "abs":
            inner = sign_of(Scalar(dict(a[1])), facts)
            return "0" if inner == "0" else "+"
        if fn == "div":
            n, d = sign_of(Scalar(dict(a[1])), facts), sign_of(Scalar(dict(a[2])), facts)
            if "?" in (n, d) or d == "0":
                return "?"
            if n == "0":
                return "0"
            return "+" if n == d else "-"
        if fn in ("floor", "int", "size_t"):
            inner = sign_of(Scalar(dict(a[1])), facts)
            # floor of a non-negative quantity is >= 0; of a negative one is negative
            return {"+": "+0", "0": "0", "-": "-"}.get(inner, "?") if False else ({"+": "+", "0": "0", "-": "-"}.get(inner, "?"))
    return "?"


@dataclass
class Predict:
    dt: Any            # Scalar or None
    dt_text: str
    args: List[str]    # textual args after dt
    in_loop: Optional[Any]   # loop bound Scalar (or text) when inside the k-loop
    guard: Optional[Any]
    guard_lhs: Any = None    # evaluated left operand of the guard comparison
    line: Optional[int] = None


def _mentions_floor(e) -> bool:
    if isinstance(e, tuple):
        if len(e) >= 2 and e[0] in ("call", "mcall") and ("floor" in (e[1], e[2] if len(e) > 2 else None) or "trunc" in (e[1],) or "narrow_int" == e[1]):
            return True
        return any(_mentions_floor(x) for x in e)
    if isinstance(e, list):
        return any(_mentions_floor(x) for x in e)
    return False


@dataclass
class StepPlan:
    lang: str
    name: str
    scenario: str
    predicts: List[Predict] = field(default_factory=list)
    h: Any = None
    k: Any = None
    ret: Any = None
    ret_time: Any = None
    writes: List[str] = field(default_factory=list)
    problems: List[str] = field(default_factory=list)     # constructs outside the enumerated idioms
    violations: List[str] = field(default_factory=list)   # derived contradictions found while executing
    assumptions: List[str] = field(default_factory=list)  # sub-scenario: outcomes assumed for tests that the direction alone does not decide
    foreign_tests: List[str] = field(default_factory=list)  # tests comparing the held time with something that is not this move's target
    literals: List[str] = field(default_factory=list)


class StepExec:
    """symbolic execution of one step function (processUpdate / _process_model) under a direction scenario."""

    def __init__(self, lang, name, body, params: Dict[str, Any], scenario: str, anchors):
        self.lang, self.name, self.body, self.scenario = lang, name, body, scenario
        self.env: Dict[str, Any] = dict(params)
        self.anchors = anchors                   # function(expr) -> Scalar | special marker | None
        self.plan = StepPlan(lang, name, scenario)
        self.facts = {"MAX": "+", "EPS": "+"}
        d = {"fwd": "+", "bwd": "-", "eq": "0"}[scenario]
        self.dsign = d
        self.loop: Optional[Any] = None
        self.guard: Optional[Any] = None
        self.choices: List[bool] = []
        self.choice_ptr = 0
        self.needed_more = False

    # ---- numeric evaluation
    def num(self, e) -> Optional[Scalar]:
        a = self.anchors(e)
        if isinstance(a, Scalar):
            return a
        k = e[0]
        if k == "num":
            return s_const(e[1])
        if k == "ref":
            v = self.env.get(e[1])
            if isinstance(v, Scalar):
                return v
            if isinstance(e[1], str) and e[1].startswith("caller::"):
                return Scalar.atom("?" + e[1][8:])
            return None
        if k == "field" and self._rooted_in_caller(e):
            return Scalar.atom("?" + cppast.show(e).replace("caller::", ""))
        if k == "un" and e[1] == "-":
            v = self.num(e[2])
            return -v if v is not None else None
        if k == "un" and e[1] == "+":
            return self.num(e[2])
        if k == "bin" and e[1] in ("+", "-", "*", "/"):
            l, r = self.num(e[2]), self.num(e[3])
            if l is None or r is None:
                return None
            if e[1] == "+":
                return l + r
            if e[1] == "-":
                return l - r
            if e[1] == "*":
                return l * r
            if len(r.t) == 1 and () in r.t:
                return l * Scalar.const(1 / r.t[()])
            return opaque("div", l, r)
        if k == "call":
            f = e[1] if isinstance(e[1], str) else None
            if f == "narrow_float" and len(e[2]) == 1:
                msg = (f"the time arithmetic `{cppast.show(e[2][0])[:60]}` is narrowed to single precision: beyond about 2^24 steps' worth of time the step "
                       f"count and remainder are computed from a rounded span, so steps overshoot the target or exceed the configured maximum")
                if msg not in self.plan.violations:
                    self.plan.violations.append(msg)
                return self.num(e[2][0])
            if f == "narrow_int" and len(e[2]) == 1:
                msg = (f"`{cppast.show(e[2][0])[:60]}` is cast to an integer type of fewer than 64 bits: a move of more than 2^31 (2^32) whole steps -- a long gap "
                       f"with a small configured maximum -- is out of range for it, the loop then takes none (or the wrong number) of the whole steps and the "
                       f"remainder step is far longer than the configured maximum")
                if msg not in self.plan.violations:
                    self.plan.violations.append(msg)
                return self.num(e[2][0])
            if f in ("abs", "fabs", "floor", "int", "size_t") and len(e[2]) == 1:
                v = self.num(e[2][0])
                if v is None:
                    return None
                f = "abs" if f == "fabs" else f
                if f in ("int", "size_t"):
                    return v
                return opaque(f, v)
            if isinstance(e[1], tuple) and e[1][0] == "lambda":
                return self.call_lambda(e[1], e[2])
        if k == "mcall" and e[2] in ("float32", "float16", "single", "half") and len(e[3]) == 1:
            return self.num(("call", "narrow_float", [e[3][0]]))
        if k == "mcall" and e[2] in ("abs", "floor") and not e[3]:
            v = self.num(e[1])
            return opaque(e[2], v) if v is not None else None
        if k == "cond":
            t = self.truth(e[1])
            if t is True:
                return self.num(e[2])
            if t is False:
                return self.num(e[3])
            return None
        return None

    def _rooted_in_caller(self, e):
        while isinstance(e, tuple) and e and e[0] == "field":
            e = e[1]
        return isinstance(e, tuple) and e and e[0] == "ref" and isinstance(e[1], str) and e[1].startswith("caller::")

    def diff_sign(self, s: Scalar) -> str:
        """sign of a polynomial that is c*(TARGET - HELD) (+0) under the scenario, else via sign_of"""
        t = dict(s.t)
        ct = t.pop((("TARGET", 1),), 0)
        ch = t.pop((("HELD", 1),), 0)
        if not t and ct == -ch and ct != 0:
            base = self.dsign
            if base == "0":
                return "0"
            return base if ct > 0 else {"+": "-", "-": "+"}[base]
        return sign_of(s, self.facts)

    def floor_sign(self, s: Scalar):
        """'-' (<= -1), '0+' (>= 0) or None for a polynomial that is +-floor(q), from the sign of q under the scenario"""
        at = _single_atom(s)
        neg = False
        if at is None:
            at = _single_atom(-s)
            neg = True
        if at is None or at[0] != "floor":
            return None
        q = Scalar(dict(at[1]))
        qa = _single_atom(q)
        if qa is not None and qa[0] == "div":
            n, d = self.diff_sign(Scalar(dict(qa[1]))), self.diff_sign(Scalar(dict(qa[2])))
            if "?" in (n, d) or d == "0" or n == "0":
                return None
            qs = "+" if n == d else "-"
        else:
            qs = self.diff_sign(q)
        if qs not in ("+", "-"):
            return None
        fs = "0+" if qs == "+" else "-"
        if neg:
            fs = {"0+": "0-", "-": "+"}[fs]
        return fs

    def truth(self, c) -> Optional[bool]:
        if c[0] == "bin" and c[1] in (">", ">=", "<", "<=", "==", "!="):
            l, r = self.num(c[2]), self.num(c[3])
            if l is None or r is None:
                return None
            d = l - r
            fs = self.floor_sign(d)
            if fs is not None:
                # d is +-floor(quotient): integer valued, so "-" means <= -1 and "+" means >= 1
                tbl = {"-": {"<": True, "<=": True, ">": False, ">=": False, "==": False, "!=": True},
                       "+": {"<": False, "<=": False, ">": True, ">=": True, "==": False, "!=": True},
                       "0+": {"<": False, ">=": True}, "0-": {">": False, "<=": True}}
                if c[1] in tbl[fs]:
                    return tbl[fs][c[1]]
            t = dict(d.t)
            ct = t.pop((("TARGET", 1),), 0)
            ch = t.pop((("HELD", 1),), 0)
            c0 = t.pop((), 0)
            if t:
                foreign = [a for mono in t for a, _ in mono if isinstance(a, str) and a.startswith("?")]
                if foreign and (ct or ch):
                    self.plan.foreign_tests.append(cppast.show(c).replace("caller::", ""))
                return None
            if ct != -ch:
                return None
            a = ct
            op = c[1]
            if a == 0:
                v = c0
                return {">": v > 0, ">=": v >= 0, "<": v < 0, "<=": v <= 0, "==": v == 0, "!=": v != 0}[op]
            up = (a > 0) == (self.dsign == "+")        # value ranges over (c0, +inf) if up else (-inf, c0)
            if self.dsign == "0":
                v = c0
                return {">": v > 0, ">=": v >= 0, "<": v < 0, "<=": v <= 0, "==": v == 0, "!=": v != 0}[op]
            if op in (">", ">="):
                if up:
                    res = True if c0 >= 0 else "BOTH"
                else:
                    res = False if c0 <= 0 else "BOTH"
            elif op in ("<", "<="):
                if up:
                    res = False if c0 >= 0 else "BOTH"
                else:
                    res = True if c0 <= 0 else "BOTH"
            else:
                zero_in = (c0 < 0) if up else (c0 > 0)
                res = "BOTH" if zero_in else (op == "!=")
            if res == "BOTH":
                if self.choice_ptr < len(self.choices):
                    pick = self.choices[self.choice_ptr]
                else:
                    pick = True
                    self.needed_more = True
                self.choice_ptr += 1
                self.plan.assumptions.append(("" if pick else "not ") + cppast.show(c))
                return pick
            return res
        if c[0] == "un" and c[1] == "!":
            t = self.truth(c[2])
            return None if t is None else (not t)
        return None

    def call_lambda(self, lam, args):
        _, params, body = lam
        saved = dict(self.env)
        args = [self.resolve(a) for a in args]           # in the caller's scope: a parameter may carry the name of the argument it is bound to
        for p, a in zip(params, args):
            if a == ("ref", p):
                continue                                  # same name, same thing
            self.env[p] = ("alias", a)
        result = self._lambda_value(body)
        self.env = saved
        return result

    def _lambda_value(self, body):
        for s in body:
            if s[0] == "static_assert":
                continue
            if s[0] == "if":
                t = self.truth(self.resolve(s[1]))
                if t is None:
                    self.plan.problems.append("step-length lambda: condition not decidable under the direction scenario: " + cppast.show(s[1]))
                    return None
                v = self._lambda_value(s[2] if t else s[3])
                if v is not None:
                    return v
                continue
            if s[0] == "return":
                return self.num(self.resolve(s[1]))
            if s[0] == "decl":
                self.env[s[1]] = self.num(self.resolve(s[2])) if s[2] is not None else None
                continue
            self.plan.problems.append(f"step-length lambda: statement {s[0]} not understood")
            return None
        return None

    def resolve(self, e):
        """replace refs that alias other expressions (lambda params bound to arguments)"""
        if not isinstance(e, tuple):
            return e
        if e[0] == "ref":
            v = self.env.get(e[1])
            if isinstance(v, tuple) and v and v[0] == "alias":
                return self.resolve(v[1])
            return e
        return tuple(self.resolve(x) if isinstance(x, tuple) else ([self.resolve(y) for y in x] if isinstance(x, list) else x) for x in e)

    # ---- statements
    def run(self):
        self.block(self.body)
        return self.plan

    def block(self, stmts):
        for s in stmts:
            self.stmt(s)

    def is_predict(self, e):
        return e[0] == "mcall" and e[2] == "process_model" and self.anchors(e[1]) == "IMPL"

    def record_predict(self, e):
        args = [a for a in e[3]]
        dt = args[0] if args else None
        if dt is not None and dt[0] == "kw":
            dt = dt[2]
        dtv = self.num(self.resolve(dt)) if dt is not None else None
        g = self.guard
        glhs = None
        if g is not None and g[0] == "bin" and len(g) == 4:
            glhs = self.num(self.resolve(g[2]))
        self.plan.predicts.append(Predict(dtv, cppast.show(dt) if dt else "?", [cppast.show(a[2] if a[0] == "kw" else a) for a in args[1:]],
                                          self.loop, g, glhs))

    def scan_calls(self, e):
        if not isinstance(e, tuple):
            return
        if self.is_predict(e):
            self.record_predict(e)
        for x in e:
            if isinstance(x, tuple):
                self.scan_calls(x)
            elif isinstance(x, list):
                for y in x:
                    self.scan_calls(y)

    def stmt(self, s):
        k = s[0]
        if k == "static_assert":
            return
        if k == "decl":
            _, name, init, dty = s
            if init is not None and self.lang == "cpp" and dty and cppast.is_narrow_int(dty) and _mentions_floor(self.resolve(init)):
                msg = (f"the step count `{name}` is held in `{dty}` (fewer than 64 bits): a move of more than 2^31 (2^32) whole steps is out of range for it, "
                       f"the whole steps are then not taken and the remainder step is far longer than the configured maximum")
                if msg not in self.plan.violations:
                    self.plan.violations.append(msg)
            if init is not None:
                self.scan_calls(init)
                v = self.num(self.resolve(init))
                self.env[name] = v if v is not None else ("opaque", init)
            return
        if k == "assign_tuple":
            self.scan_calls(s[2])
            for t in s[1][2]:
                if t[0] == "ref":
                    self.env[t[1]] = ("opaque", s[2])
                else:
                    self.note_write(t)
            return
        if k == "assign":
            self.scan_calls(s[2])
            t = s[1]
            if t[0] == "ref":
                v = self.num(self.resolve(s[2]))
                self.env[t[1]] = v if v is not None else ("opaque", s[2])
            else:
                self.note_write(t)
            return
        if k == "expr":
            self.scan_calls(s[1])
            e = s[1]
            if e[0] == "un" and e[1] in ("++", "--"):
                return
            return
        if k == "if":
            _, cond, then, els, cval = s
            if cval is not None:
                self.block(then if cval else els)
                return
            t = self.truth(self.resolve(cond))
            if t is True:
                self.block(then)
            elif t is False:
                self.block(els)
            else:
                # undecidable numerically: a guard (e.g. abs(target - it) >= eps) -- execute under it
                saved = self.guard
                self.guard = cond
                before = dict(self.env)
                self.block(then)
                after_then = self.env
                self.env = dict(before)
                if els:
                    self.guard = ("un", "!", cond)
                    self.block(els)
                # merge: keep values equal in both, else cond
                merged = {}
                for name in set(after_then) | set(self.env):
                    a, b = after_then.get(name), self.env.get(name)
                    merged[name] = a if _same(a, b) else ("phi", a, b)
                self.env = merged
                self.guard = saved
            return
        if k == "for":
            _, init, cond, inc, body = s
            bound = None
            cvar, c0 = None, None
            for d in init:
                if d[0] == "decl":
                    self.env[d[1]] = ("loopvar",)
                    cvar, c0 = d[1], d[2]
                    if self.lang == "cpp" and len(d) > 3 and d[3] and cppast.is_narrow_int(d[3]):
                        msg = (f"the k-loop counter `{d[1]}` is a `{d[3]}` (fewer than 64 bits): it cannot count a move of more than 2^31 (2^32) whole steps "
                               f"(it overflows or never reaches the bound)")
                        if msg not in self.plan.violations:
                            self.plan.violations.append(msg)
            if cond is not None and cond[0] == "bin" and cond[1] in ("<", "!=", "<="):
                bound = self.num(self.resolve(cond[3]))
                if cond[1] == "<=":
                    self.plan.violations.append("the k-loop runs while count <= bound: one step more than floor(|target - held| / max) is taken, "
                                                "overshooting the target")
            # the counter: starts at 0, advances by exactly one, is the left operand of the loop test and is not touched by the body
            if cvar is None or len([d for d in init if d[0] == "decl"]) != 1:
                self.plan.problems.append(f"k-loop `{cppast.show(cond) if cond else '?'}`: the counter declaration is not recognised")
            else:
                start = c0
                while isinstance(start, tuple) and start and start[0] in ("cast", "init") and len(start) >= 3 and start[2]:
                    start = start[2][0] if isinstance(start[2], list) else start[2]
                if not (isinstance(start, tuple) and start[0] == "num"):
                    self.plan.problems.append(f"k-loop counter `{cvar}` starts at `{cppast.show(c0) if c0 else '?'}`, not a literal")
                else:
                    try:
                        sv = float(str(start[1]).rstrip("uUlL"))
                    except ValueError:
                        sv = None
                    if sv is None:
                        self.plan.problems.append(f"k-loop counter `{cvar}` starts at `{start[1]}`")
                    elif sv != 0:
                        self.plan.violations.append(f"the k-loop counter `{cvar}` starts at {start[1]}, not 0: the loop takes {start[1]} step(s) "
                                                    f"fewer than floor(|target - held| / max); the remainder step then exceeds the configured maximum")
                if not (cond is not None and cond[0] == "bin" and cond[2] == ("ref", cvar)):
                    self.plan.problems.append(f"k-loop test `{cppast.show(cond) if cond else '?'}` does not compare the counter `{cvar}` (left) with the bound")
                ok_inc = inc in (("un", "++", ("ref", cvar)), ("un", "post++", ("ref", cvar)), ("bin", "+=", ("ref", cvar), ("num", "1")))
                if not ok_inc:
                    txt = cppast.show(inc) if inc else "?"
                    if inc is not None and inc[0] == "bin" and inc[1] == "+=" and inc[2] == ("ref", cvar) and inc[3][0] == "num":
                        self.plan.violations.append(f"the k-loop counter advances by `{txt}`: only every {inc[3][1]}-th full step is taken")
                    else:
                        self.plan.problems.append(f"k-loop increment `{txt}` is not ++{cvar}")
                def writes_counter(b):
                    for x in b:
                        if x[0] in ("assign",) and x[1] == ("ref", cvar):
                            return True
                        if x[0] == "expr" and isinstance(x[1], tuple) and x[1][0] in ("un", "bin") and ("ref", cvar) in x[1][2:3] and x[1][1] in ("++", "--", "post++", "post--", "+=", "-=", "="):
                            return True
                        if x[0] == "if" and (writes_counter(x[2]) or writes_counter(x[3])):
                            return True
                        if x[0] == "block" and writes_counter(x[1]):
                            return True
                    return False
                if writes_counter(body):
                    self.plan.problems.append(f"the k-loop body changes its own counter `{cvar}`")
            self.run_loop(bound, cppast.show(cond) if cond else "?", body)
            return
        if k == "for_range":
            bound = self.num(self.resolve(s[2]))
            self.run_loop(bound, cppast.show(s[2]), s[3])
            return
        if k in ("rangefor", "while"):
            self.plan.problems.append(f"unexpected {k} loop in step function")
            return
        if k == "return":
            if s[1] is not None:
                self.scan_calls(s[1])
            self.plan.ret = self.resolve(s[1]) if s[1] is not None else None
            r = self.plan.ret
            if r is not None and r[0] == "init" and r[2]:
                self.plan.ret_time = self.num(r[2][0])
            return
        if k == "raise":
            return
        self.plan.problems.append(f"statement kind {k} not understood")

    def run_loop(self, bound, text, body):
        saved = self.loop
        self.loop = bound if bound is not None else ("text", text)
        self.block(body)
        self.loop = saved

    def note_write(self, t):
        self.plan.writes.append(cppast.show(t))


def _same(a, b):
    try:
        return a == b
    except Exception:
        return False


def step_plans(lang, name, body, scenario, anchors, max_depth=3):
    """all StepPlans of one step function under a direction scenario: one per feasible outcome of the tests that the direction alone
    does not decide (e.g. `target - held < 1e-9` when target > held)"""
    out = []
    todo = [[]]
    while todo:
        choices = todo.pop(0)
        ex = StepExec(lang, name, body, {}, scenario, anchors)
        ex.choices = list(choices)
        plan = ex.run()
        if ex.needed_more and len(choices) < max_depth:
            # the run asked for more outcomes than supplied: it took True for the first missing one; enumerate both explicitly
            n = len(choices)
            todo.append(choices + [True])
            todo.append(choices + [False])
            continue
        out.append(plan)
    return out


# ------------------------------------------------------------------------------------------ C++ harness
STUB_TU = r"""
#include <formak/runtime/ManagedFilter.h>
#include <type_traits>
namespace stub {
struct SV { double t = 0; };
struct Cal { int c = 0; };
struct Ctl { int u = 0; };
}
%(impls)s
void drive() {
%(drive)s
}
"""

IMPL = r"""
namespace %(ns)s {
struct Impl;
struct Base { virtual stub::SV sensor_model(const Impl&, const stub::SV&%(calparam)s) const = 0; };
struct Impl {
  struct Tag { using StateAndVarianceT = stub::SV; using CalibrationT = %(calT)s;
               using ControlT = %(ctlT)s; using StampedReadingBaseT = Base;
               static constexpr double max_dt_sec = 0.1; };
  stub::SV process_model(double dt, const stub::SV& s%(calparam)s%(ctlparam)s) const { return s; }
};
}
"""


def cpp_runtime_ir(ctx: core.Ctx):
    """-> {valuation 'cal/ctl': {'processUpdate': [(params, body)], 'tick': [(params, body)]}} from clang's AST"""
    prev = cppast.INT_CASTS_VISIBLE
    cppast.INT_CASTS_VISIBLE = True
    try:
        return _cpp_runtime_ir(ctx)
    finally:
        cppast.INT_CASTS_VISIBLE = prev


def _cpp_runtime_ir(ctx: core.Ctx):
    hdr = "cpp/runtime/include/formak/runtime/ManagedFilter.h"
    ctx.read(hdr)
    impls, drive = [], []
    for cal in (0, 1):
        for ctl in (0, 1):
            ns = f"v{cal}{ctl}"
            impls.append(IMPL % dict(ns=ns, calT="stub::Cal" if cal else "std::false_type",
                                     ctlT="stub::Ctl" if ctl else "std::false_type",
                                     calparam=", const stub::Cal&" if cal else "",
                                     ctlparam=", const stub::Ctl&" if ctl else ""))
            ctor = f"formak::runtime::ManagedFilter<{ns}::Impl> mf{ns}(0.0, stub::SV{{}}{', stub::Cal{}' if cal else ''});"
            c = ", stub::Ctl{}" if ctl else ""
            rd = f"std::vector<formak::runtime::ManagedFilter<{ns}::Impl>::StampedReading>{{}}"
            drive.append(f"  {ctor}\n  mf{ns}.tick(1.0{c});\n  mf{ns}.tick(1.0{c}, {rd});")
    src = STUB_TU % dict(impls="\n".join(impls), drive="\n".join(drive))
    td = tempfile.mkdtemp(prefix="fvrt.")
    try:
        tu = os.path.join(td, "rt.cpp")
        open(tu, "w").write(src)
        inc = [os.path.join(ctx.repo, "cpp/runtime/include")]
        r = cppast.clang(sum((["-I", i] for i in inc), []) + [tu])
        diag = r.stderr.strip()
        docs = cppast.ast_json(tu, inc, "ManagedFilter")
    finally:
        import shutil
        shutil.rmtree(td, ignore_errors=True)
    out: Dict[str, Any] = {"__diag__": diag, "__rc__": r.returncode}
    for d in docs:
        if d.get("kind") != "ClassTemplateDecl":
            continue
        for spec in cppast.kids(d):
            if spec.get("kind") != "ClassTemplateSpecializationDecl":
                continue
            val = None
            for c in cppast.kids(spec):
                if c.get("kind") == "TemplateArgument":
                    q = c.get("type", {}).get("qualType", "")
                    if "::Impl" in q:
                        val = q.split("::")[0]
            if val is None:
                continue
            fields = {}
            entry = out.setdefault(val, {"processUpdate": [], "tick": [], "fields": fields, "helpers": {}})
            for m in cppast.kids(spec):
                if m.get("kind") == "CXXMethodDecl" and m.get("name") in ("processUpdate", "tick"):
                    body = structure_continue(cppast.body_of(m))
                    if body is not None:
                        entry[m["name"]].append((cppast.params_of(m), body, m.get("loc", {}).get("line")))
                elif m.get("kind") == "CXXMethodDecl" and m.get("name") and not m["name"].startswith("operator"):
                    body = structure_continue(cppast.body_of(m))
                    if body is not None:
                        entry["helpers"].setdefault(m["name"], []).append((cppast.params_of(m), body))
                elif m.get("kind") == "FunctionTemplateDecl" and m.get("name") not in ("ManagedFilter",):
                    # member function templates: the instantiated specialisations (concrete parameter lists)
                    for inst in cppast.kids(m):
                        if inst.get("kind") == "CXXMethodDecl":
                            body = structure_continue(cppast.body_of(inst))
                            if body is not None and inst.get("name") in ("processUpdate", "tick"):
                                # the step function / tick written as a member template (e.g. over an optional control pack): each
                                # instantiation is one concrete overload
                                entry[inst["name"]].append((cppast.params_of(inst), body, inst.get("loc", {}).get("line")))
                            elif body is not None:
                                entry["helpers"].setdefault(inst["name"], []).append((cppast.params_of(inst), body))
                if m.get("kind") == "CXXRecordDecl" and m.get("name") == "State":
                    fields["State"] = [f.get("name") for f in cppast.kids(m) if f.get("kind") == "FieldDecl"]
                # user-written constructors as instantiated (plain, or the specialisations of a constructor template): which parameters they read at
                # all (clang's own use marking)
                for cm in [m] + ([i_ for i_ in cppast.kids(m)] if m.get("kind") == "FunctionTemplateDecl" else []):
                    if cm.get("kind") == "CXXConstructorDecl" and not cm.get("isImplicit") and any(c_.get("kind") == "CXXCtorInitializer" for c_ in cppast.kids(cm)):
                        ps = [(c_.get("name"), bool(c_.get("isUsed") or c_.get("isReferenced"))) for c_ in cppast.kids(cm) if c_.get("kind") == "ParmVarDecl"]
                        entry.setdefault("ctors", []).append((ps, cm.get("loc", {}).get("line")))
    return out


_MISUSE_CACHE: Dict[str, Dict[Any, bool]] = {}


def misuse_witnesses(ctx: core.Ctx) -> Dict[Any, bool]:
    """compile-fail witnesses for the tick overloads: {(takes_control, takes_readings): does the WRONG kind of filter compile a call of it?}.
    A tick that takes control called on a filter without control inputs (ControlT = std::false_type), and a tick without control called on a
    filter that has them, must each be rejected by the compiler -- however the header expresses that (static_assert, requires, enable_if)."""
    key = ctx.repo
    if key in _MISUSE_CACHE:
        return _MISUSE_CACHE[key]
    out: Dict[Any, bool] = {}
    inc = [os.path.join(ctx.repo, "cpp/runtime/include")]
    td = tempfile.mkdtemp(prefix="fvmis.")
    try:
        for takes_control in (False, True):
            for takes_readings in (False, True):
                impl_ctl = 0 if takes_control else 1          # the wrong kind of filter for this overload
                ns = f"m{int(takes_control)}{int(takes_readings)}"
                impl = IMPL % dict(ns=ns, calT="std::false_type", ctlT="stub::Ctl" if impl_ctl else "std::false_type", calparam="",
                                   ctlparam=", const stub::Ctl&" if impl_ctl else "")
                carg = ", std::false_type{}" if takes_control else ""
                rd = f", std::vector<formak::runtime::ManagedFilter<{ns}::Impl>::StampedReading>{{}}" if takes_readings else ""
                drive = f"  formak::runtime::ManagedFilter<{ns}::Impl> mf(0.0, stub::SV{{}});\n  mf.tick(1.0{carg}{rd});"
                src = STUB_TU % dict(impls=impl, drive=drive)
                tu = os.path.join(td, f"{ns}.cpp")
                open(tu, "w").write(src)
                r = cppast.clang(sum((["-I", i] for i in inc), []) + [tu])
                out[(takes_control, takes_readings)] = r.returncode == 0
    finally:
        import shutil
        shutil.rmtree(td, ignore_errors=True)
    _MISUSE_CACHE[key] = out
    return out


# ------------------------------------------------------------------------------------------ IR-level inlining of private helpers
def _ir_decls(stmts, out):
    for x in stmts:
        if not isinstance(x, tuple) or not x:
            continue
        if x[0] == "decl":
            out.add(x[1])
        for sub in x:
            if isinstance(sub, list) and sub and isinstance(sub[0], tuple):
                _ir_decls(sub, out)
    return out


def _subst_ir(s, m):
    """replace refs by expressions (lambda parameters shadow)"""
    if isinstance(s, tuple):
        if s and s[0] == "ref" and s[1] in m:
            return m[s[1]]
        if s and s[0] == "decl" and s[1] in m and m[s[1]][0] == "ref":
            return ("decl", m[s[1]][1]) + tuple(_subst_ir(x, m) for x in s[2:])
        if s and s[0] == "lambda":
            inner = {k: v for k, v in m.items() if k not in set(s[1])}
            return ("lambda", s[1], _subst_ir(s[2], inner))
        return tuple(_subst_ir(x, m) for x in s)
    if isinstance(s, list):
        return [_subst_ir(x, m) for x in s]
    return s


def _resolve_constexpr(stmts):
    out = []
    for x in stmts:
        if x[0] == "if" and x[4] is not None:
            out.extend(_resolve_constexpr(x[2] if x[4] else x[3]))
        else:
            out.append(x)
    return out


def inline_ir(body, helpers, keep=("tick", "processUpdate"), depth=0, problems=None):
    """inline calls of private member functions (`x = this->h(a)`, `this->h(a);`, `return this->h(a);`): parameters substituted by the (pure)
    argument expressions, constexpr-ifs of the instantiation resolved, colliding locals renamed, a tail `return e` bound to the call's target"""
    if depth > 6:
        return body
    if depth == 0:
        body = _static_helper_calls(body, helpers, keep)
    used = _ir_decls(body, set())
    out = []
    counter = [0]

    def callee_of(e):
        if isinstance(e, tuple) and e and e[0] == "mcall" and e[1] == ("this",) and e[2] in helpers and e[2] not in keep:
            cands = [h for h in helpers[e[2]] if len(h[0]) == len(e[3])]
            if len(cands) >= 1:
                return cands[0]
        return None

    def expand(call, mk_tail):
        params, hb = callee_of(call)
        hb = _resolve_constexpr(hb)
        hb = [x for x in hb if x[0] != "static_assert"]
        rets = []

        def find_rets(stmts, top):
            for i, x in enumerate(stmts):
                if x[0] == "return":
                    rets.append((x, top and i == len(stmts) - 1))
                for sub in x:
                    if isinstance(sub, list) and sub and isinstance(sub[0], tuple) and x[0] != "decl":
                        find_rets(sub, False)
        find_rets(hb, True)
        if len(rets) > 1 or (rets and not rets[0][1]):
            if problems is not None:
                problems.append(f"helper {call[2]} has an early return: not inlined")
            return None
        m = {pn: a for (pn, _), a in zip(params, call[3])}
        counter[0] += 1
        for d in sorted(_ir_decls(hb, set())):
            if d in used or d in m:
                m[d] = ("ref", f"{call[2]}${depth}_{counter[0]}${d}")
        hb = _subst_ir(hb, m)
        used.update(_ir_decls(hb, set()))
        tail = []
        if hb and hb[-1][0] == "return":
            r = hb.pop()
            tail = mk_tail(r[1])
        else:
            tail = mk_tail(None)
        return inline_ir(hb, helpers, keep, depth + 1, problems) + tail
    for x in body:
        k = x[0]
        done = None
        if k == "decl" and callee_of(x[2]) is not None:
            done = expand(x[2], lambda v, x=x: [("decl", x[1], v, x[3])] if v is not None else [])
        elif k == "assign" and callee_of(x[2]) is not None:
            done = expand(x[2], lambda v, x=x: [("assign", x[1], v)] if v is not None else [])
        elif k == "expr" and callee_of(x[1]) is not None:
            done = expand(x[1], lambda v: [("expr", v)] if v is not None and _has_call_impl(v) else [])
        elif k == "return" and x[1] is not None and callee_of(x[1]) is not None:
            done = expand(x[1], lambda v: [("return", v)])
        if done is not None:
            out.extend(done)
            continue
        if k == "if":
            out.append(("if", x[1], inline_ir(x[2], helpers, keep, depth, problems), inline_ir(x[3], helpers, keep, depth, problems), x[4]))
        elif k in ("rangefor", "for_range", "while"):
            out.append(x[:-1] + (inline_ir(x[-1], helpers, keep, depth, problems),))
        elif k == "for":
            out.append(x[:-1] + (inline_ir(x[-1], helpers, keep, depth, problems),))
        else:
            out.append(x)
    if depth == 0:
        # a local lambda handed to an inlined helper is now called where the helper called its parameter
        out = cppast.beta_ir(_static_helper_calls(out, helpers, keep))
    return out


def _static_helper_calls(x, helpers, keep, depth=0):
    """`helper(args)` (a static member function named without `this->`) as the immediately-invoked function it is: single-return helpers are
    substituted, others become `(lambda(params){body})(args)` for the executors' call_lambda"""
    if isinstance(x, list):
        return [_static_helper_calls(y, helpers, keep, depth) for y in x]
    if not isinstance(x, tuple) or not x:
        return x
    x = tuple(_static_helper_calls(y, helpers, keep, depth) for y in x)
    if x[0] == "call" and isinstance(x[1], str) and x[1] in helpers and x[1] not in keep and depth < 4:
        cands = [h for h in helpers[x[1]] if len(h[0]) == len(x[2])]
        if cands:
            params, hb = cands[0]
            hb = _static_helper_calls(cppast.resolve_constexpr(hb), helpers, keep, depth + 1)
            return cppast.reduce_immediate(("call", ("lambda", [pn for pn, _ in params], hb), list(x[2])))
    return x


def structure_continue(body, in_loop=False, top=False):
    """`if c: ...; continue` followed by the rest of a loop body == `if c: ... else: <the rest>` (exact).  A trailing `continue` is dropped.  A
    `continue` in any other position (or a `break`) stays and is reported by the executors as a statement they do not understand."""
    if body is None:
        return None
    out = []
    i = 0
    body = list(body)
    while i < len(body):
        x = body[i]
        k = x[0]
        if k == "if":
            then, els = structure_continue(x[2], in_loop), structure_continue(x[3], in_loop)
            if in_loop and then and then[-1] == ("continue",) and not els:
                rest = structure_continue(body[i + 1:], in_loop, top)
                out.append(("if", x[1], then[:-1], rest, x[4]))
                return out
            if in_loop and els and els[-1] == ("continue",) and not (then and then[-1] == ("continue",)):
                rest = structure_continue(body[i + 1:], in_loop, top)
                out.append(("if", x[1], then + rest, els[:-1], x[4]))
                return out
            out.append(("if", x[1], then, els, x[4]))
        elif k in ("rangefor", "for_range", "while", "for"):
            out.append(x[:-1] + (structure_continue(x[-1], True, True),))
        elif k == "block":
            out.append(("block", structure_continue(x[1], in_loop)))
        elif k == "continue" and in_loop and top and i == len(body) - 1:
            pass
        else:
            out.append(x)
        i += 1
    return out


def cpp_anchor(target_param):
    def anchors(e):
        if e == ("field", ("field", ("this",), "_state"), "currentTime"):
            return Sym.HELD
        if e == ("ref", target_param):
            return Sym.TARGET
        if e == ("ref", "max_dt_sec") or (e[0] == "field" and e[2] == "max_dt_sec"):
            return Sym.MAX
        if e == ("field", ("this",), "_impl"):
            return "IMPL"
        return None
    return anchors


def py_anchor(target_param):
    def anchors(e):
        if e == ("field", ("this",), "current_time"):
            return Sym.HELD
        if e == ("ref", target_param):
            return Sym.TARGET
        if e[0] == "field" and e[2] == "max_dt_sec":
            return Sym.MAX
        if e == ("field", ("this",), "_impl"):
            return "IMPL"
        return None
    return anchors


def py_runtime(ctx: core.Ctx):
    rel = "py/formak/runtime.py"
    mod = ctx.parse(rel)
    cls = core.need(core.find_class(mod, "ManagedFilter"), "runtime.ManagedFilter")
    return rel, cls


def py_runtime_func(ctx: core.Ctx, cls, name, keep=("_process_model", "tick")):
    """the named method with its private helpers inlined and the generators it consumes fused (fv.normast); the step function and tick
    themselves stay calls (they are the units the rules talk about)"""
    from . import normast
    mod = ctx.parse("py/formak/runtime.py")
    fn = core.need(core.find_func(cls, name), f"runtime.ManagedFilter.{name}")
    # the held estimate read / written through a property pair is the attributes the pair reads / writes
    fn = normast.subst_rw_properties(fn, normast.rw_properties(cls, constructors=set(normast.module_namedtuples(mod))))
    out = normast.inline_only(fn, normast.class_resolver(mod, cls, exclude=set(keep)))
    inl = list(getattr(out, "_inlined", []))
    for h in inl:
        ctx.functions.append(f"runtime.ManagedFilter.{h} (inlined into {name})")
    # values packaged in a module-level namedtuple / plain dataclass are unpacked into their fields (RECORD: their read-only properties and class
    # constants first), module constants folded in
    out = normast.subst_record_members(out, normast.record_members(mod))
    out._inlined = inl
    nts = normast.module_namedtuples(mod)
    consts = normast.module_constants(mod)
    if nts or consts:
        nz = normast.Normaliser(None, consts=consts, namedtuples=nts)
        nz.caller_names = {n.id for n in ast.walk(out) if isinstance(n, ast.Name)}
        body = normast.split_assign(out.body, nts)
        body = normast.split_assign(nz.nt_unpack(body), nts)
        out.body = body
        if consts:
            class K(ast.NodeTransformer):
                def visit_Name(self, n):
                    if isinstance(n.ctx, ast.Load) and n.id in consts and n.id not in shadow:
                        return ast.copy_location(copy.deepcopy(consts[n.id]), n)
                    return n
            import copy
            shadow = {n.id for n in ast.walk(out) if isinstance(n, ast.Name) and isinstance(n.ctx, ast.Store)} | {a.arg for a in ast.walk(out) if isinstance(a, ast.arg)}
            out = K().visit(out)
        ast.fix_missing_locations(out)
    out._inlined = inl
    return out


# ------------------------------------------------------------------------------------------ C10 template check
def _single_atom(s: Scalar):
    if isinstance(s, Scalar) and len(s.t) == 1:
        (mono, c), = s.t.items()
        if c == 1 and len(mono) == 1 and mono[0][1] == 1 and isinstance(mono[0][0], tuple):
            return mono[0][0]
    return None


def check_stepplan(ctx: core.Ctx, plan: StepPlan, file: str, func: str, tag: str):
    sub = (" when " + " and ".join(plan.assumptions)) if plan.assumptions else ""
    where = f"{file}:{func} [{tag}, {plan.scenario}{sub}]"
    if plan.foreign_tests:
        ctx.oblige("DIR", where, f"direction tests {plan.foreign_tests}", False, file=file, func=func, construct=f"direction test operand {plan.scenario}",
                   msg=f"the step direction is decided by `{plan.foreign_tests[0]}`, which compares the held time with something other than the target "
                       f"of this move: a move that points the other way gets steps of the wrong sign")
        return
    for p in plan.problems:
        ctx.error(f"{where}: {p}")
    for v in plan.violations:
        ctx.oblige("TEMPLATE", where, v[:60], False, file=file, func=func, construct=f"plan violation {plan.scenario}: {v[:50]}", msg=v)
    loops = [p for p in plan.predicts if p.in_loop is not None]
    rems = [p for p in plan.predicts if p.in_loop is None]
    if len(loops) != 1 or len(rems) != 1:
        if not plan.problems and len(loops) <= 1 and len(rems) <= 1:
            # every statement of the step function was understood, and a step of the plan is simply not issued
            missing = ("the k full steps" if not loops else "") + (" and " if not loops and not rems else "") + ("the remainder step" if not rems else "")
            ctx.oblige("TEMPLATE", where, f"{len(loops)} loop step(s), {len(rems)} remainder step(s)", False, file=file, func=func,
                       construct=f"missing steps {plan.scenario}",
                       msg=f"the step function never issues {missing}: the estimate is reported for the target time without having been moved there")
        else:
            ctx.error(f"{where}: expected one PREDICT in the k-loop and one remainder PREDICT, found {len(loops)} / {len(rems)}")
        return
    lp, rp = loops[0], rems[0]
    want = {"fwd": "+", "bwd": "-"}[plan.scenario]
    D = Sym.TARGET - Sym.HELD
    facts = {"MAX": "+"}
    h = lp.dt
    # MAG
    if h is None:
        ctx.error(f"{where}: step length `{lp.dt_text}` could not be evaluated")
        return
    is_max = h == Sym.MAX or h == -Sym.MAX
    lit = len(h.t) == 1 and () in h.t
    ctx.oblige("MAG", where, f"loop step = {h!r}", is_max, file=file, func=func, construct=f"loop step {plan.scenario}{sub}",
               msg=(f"the {plan.scenario} loop step is the numeric literal {h!r}, not the configured maximum step" if lit
                    else f"the {plan.scenario} loop step is {h!r}, not +-(configured maximum step)"))
    sg = sign_of(h, facts)
    ctx.oblige("DIR", where, f"sign(loop step) = {sg}", sg == want, file=file, func=func, construct=f"loop step sign {plan.scenario}{sub}",
               msg=f"moving {'forwards' if want == '+' else 'backwards'} in time{sub} the loop step {h!r} has sign {sg}")
    # K
    k = lp.in_loop
    if not isinstance(k, Scalar):
        ctx.error(f"{where}: loop bound `{k}` could not be evaluated")
        return
    def strip_abs(sc):
        at = _single_atom(sc)
        if at is not None and at[0] == "abs":
            return Scalar(dict(at[1])), True
        return sc, False

    a = _single_atom(k)
    outer_abs = False
    shape = None
    if a is not None and a[0] == "abs":
        outer_abs = True
        a = _single_atom(Scalar(dict(a[1])))
    if a is not None and a[0] == "floor":
        inner, q_abs = strip_abs(Scalar(dict(a[1])))
        b = _single_atom(inner)
        if b is not None and b[0] == "div":
            num, n_abs = strip_abs(Scalar(dict(b[1])))
            den, d_abs = strip_abs(Scalar(dict(b[2])))
            shape = (num, n_abs, den, d_abs, q_abs)
    if shape is None:
        ctx.error(f"{where}: loop bound {k!r} is not of the form [abs] floor([abs] ([abs](target - held)) / [abs](step))")
        return
    num, n_abs, den, d_abs, q_abs = shape
    num_ok = num == D or num == -D
    den_ok = den == Sym.MAX or den == -Sym.MAX
    ctx.oblige("TEMPLATE", where, f"k = {k!r}", num_ok and den_ok, file=file, func=func, construct=f"loop bound operands {plan.scenario}",
               msg=f"loop bound divides {num!r} by {den!r}; required (target - held) / (+-max step)")
    if num_ok and den_ok:
        nsg = "+" if n_abs else (want if num == D else {"+": "-", "-": "+"}[want])
        dsg = "+" if d_abs else sign_of(den, facts)
        qsg = "+" if (q_abs or nsg == dsg) else "-"
        ctx.oblige("TEMPLATE", where, f"sign of the floored quotient under {plan.scenario} = {qsg}", qsg == "+",
                   file=file, func=func, construct=f"loop bound rounding {plan.scenario}",
                   msg=f"moving {plan.scenario}, the quotient {num!r}/{den!r} is negative where it is floored: floor rounds away "
                       f"from zero, so one step too many is taken and the remainder points against the direction of travel"
                       + ("" if outer_abs else " (and without abs the count is negative)"))
        direction_free = q_abs or (n_abs and d_abs) or (n_abs and den == Sym.MAX)
        same = den == h
        ctx.oblige("TEMPLATE", where, f"loop bound computed with the issued step ({den!r} vs {h!r})", same or direction_free, file=file,
                   func=func, construct=f"loop bound step identity {plan.scenario}",
                   msg=f"the loop bound is computed with step {den!r} but the steps issued are {h!r}")
    # remainder
    r = rp.dt
    want_r = D - h * k
    if r is None:
        ctx.error(f"{where}: remainder step `{rp.dt_text}` could not be evaluated")
    else:
        ctx.oblige("TEMPLATE", where, f"remainder = {r!r}", r == want_r, file=file, func=func, construct=f"remainder {plan.scenario}",
                   msg=f"remainder step is {r!r}; required target - (held + step*k) = {want_r!r}")
    g = rp.guard
    okg = False
    why = "the remainder step is issued without the |target - iter| >= 1e-9 guard (a zero-length step when the times coincide)"
    if g is not None and g[0] == "bin" and g[1] in (">=", ">"):
        lhs, rhs = g[2], g[3]
        eps = s_const(rhs[1]) if rhs[0] == "num" else None
        lhs_ok = False
        if r is not None and rp.guard_lhs is not None:
            lhs_ok = rp.guard_lhs in (opaque("abs", r), opaque("abs", -r))
        if eps is not None and () in eps.t:
            e = eps.t[()]
            if not lhs_ok:
                one_sided = r is not None and rp.guard_lhs is not None and rp.guard_lhs in (r, -r)
                why = (f"remainder guard tests `{cppast.show(lhs)}` without abs(): it is one-sided, so the remainder of a move in the other "
                       f"direction is silently skipped (or a sub-eps step of the wrong sign is taken)") if one_sided else \
                      f"remainder guard tests `{cppast.show(lhs)}`, which is not |target - (held + step*k)|"
            elif 0 < e <= Fraction(1, 10**9) + Fraction(1, 10**20):
                okg = True
            else:
                why = f"remainder guard tolerance is {float(e)!r}; the property allows at most 1e-9 s to be dropped"
        else:
            why = f"remainder guard compares with {cppast.show(rhs)}"
        plan.literals.append(cppast.show(rhs))
    elif g is not None:
        why = f"remainder guard `{cppast.show(g)}` is not |target - iter| >= eps"
    ctx.oblige("TEMPLATE", where, f"remainder guard {cppast.show(g) if g else None}", okg, file=file, func=func,
               construct=f"remainder guard {plan.scenario}", msg=why)
    ctx.oblige("READ-ONLY", where, f"writes {plan.writes}", not plan.writes, file=file, func=func, construct="step writes:" + ",".join(plan.writes),
               msg=f"the step function writes {plan.writes}: moving the estimate for output must not change what is held")


# ------------------------------------------------------------------------------------------ C11 tick plans
@dataclass
class TickEvent:
    kind: str                 # STEP | UPDATE | RETURN | WRITE | RAISE | LOOP-BEGIN | LOOP-END | CALL
    detail: Dict[str, Any]
    in_loop: bool
    guard: List[str]
    guard_ir: List[Any] = field(default_factory=list)   # [(condition IR, polarity)]


class TickExec:
    """flattens a tick body into an ordered event list (calls to the step function, to sensor_model, writes to
    held fields, returns), inlining calls to sibling tick overloads through `resolve_tick`."""

    def __init__(self, lang, step_name, held_fields, resolve_tick=None, benign=()):
        self.lang, self.step_name, self.held = lang, step_name, held_fields
        self.resolve_tick = resolve_tick
        self.events: List[TickEvent] = []
        self.in_loop = False
        self.guard: List[str] = []
        self.guard_ir: List[Any] = []
        self.problems: List[str] = []
        self.benign = benign
        self.loops: List[Any] = []
        self.env: Dict[str, Any] = {}
        self.alias: Dict[str, Any] = {}            # local name -> expression it is a plain copy of
        self.pending: Dict[str, Any] = {}          # local name -> (STEP/UPDATE event, component index or None)

    def res(self, e):
        """resolve local aliases (x = y) inside an expression"""
        if isinstance(e, tuple):
            if e and e[0] == "ref" and e[1] in self.alias:
                return self.res(self.alias[e[1]])
            return tuple(self.res(x) if isinstance(x, (tuple, list)) else x for x in e)
        if isinstance(e, list):
            return [self.res(x) for x in e]
        return e

    def ev(self, kind, **d):
        self.events.append(TickEvent(kind, d, self.in_loop, list(self.guard), list(self.guard_ir)))

    def is_step(self, e):
        return isinstance(e, tuple) and e[0] == "mcall" and e[1] == ("this",) and e[2] == self.step_name

    def is_update(self, e):
        return isinstance(e, tuple) and e[0] == "mcall" and e[2] == "sensor_model"

    def is_tick(self, e):
        return isinstance(e, tuple) and e[0] == "mcall" and e[1] == ("this",) and e[2] == "tick"

    def calls_in(self, e, out):
        if not isinstance(e, tuple):
            return
        # arguments first (evaluation order), then the call itself
        for x in e[1:]:
            if isinstance(x, tuple):
                self.calls_in(x, out)
            elif isinstance(x, list):
                for y in x:
                    self.calls_in(y, out)
        if self.is_step(e) or self.is_update(e) or self.is_tick(e):
            out.append(e)
        elif e[0] == "mcall" and e[1] == ("this",):
            # a method of the managed filter itself that is neither the step function nor tick and was not inlined: what it does to the held
            # estimate is unknown -- nothing may be concluded from the rest
            msg = f"call of the filter's own method `{e[2]}` could not be inlined (its effect on the held estimate is unknown)"
            if msg not in self.problems:
                self.problems.append(msg)

    def targets_text(self, t):
        if t is None:
            return []
        if t[0] == "init":
            out = []
            for x in t[2]:
                out.extend(self.targets_text(x))
            return out
        return [show2(t)]

    def handle_value(self, value, targets):
        calls = []
        self.calls_in(value, calls)
        for c in calls:
            args = c[3]
            pos = [a for a in args if a[0] != "kw"]
            kws = {a[1]: a[2] for a in args if a[0] == "kw"}
            is_outer = c is calls[-1]
            tg = targets if is_outer and _strip(value) == c else (targets if is_outer and _field_of(value, c) else [])
            if self.is_step(c):
                self.ev("STEP", target=show2(pos[0]) if pos else (show2(kws.get("output_time")) if kws else "?"),
                        args=[show2(a) for a in pos[1:]] + [f"{k}={show2(v)}" for k, v in kws.items()],
                        writes=tg, whole=_strip(value) == c, text=cppast.show(value))
            elif self.is_update(c):
                st = [show2(a) for a in pos] + [f"{k}={show2(v)}" for k, v in sorted(kws.items())]
                self.ev("UPDATE", receiver=show2(c[1]), args=st, writes=tg)
            elif self.is_tick(c):
                if self.resolve_tick is None:
                    self.problems.append("nested tick call cannot be resolved")
                else:
                    sub = self.resolve_tick(len(pos))
                    if sub is None:
                        self.problems.append(f"nested tick call with {len(pos)} argument(s) has no matching overload")
                    else:
                        params, body = sub
                        saved_env = dict(self.env)
                        for (pn, _), a in zip(params, pos):
                            self.env[pn] = a
                        self.block([_subst(s, {pn: a for (pn, _), a in zip(params, pos)}) for s in body], nested=True)
                        self.env = saved_env
        return calls

    def stmt(self, s, nested=False):
        k = s[0]
        if k == "static_assert":
            self.ev("ASSERT", text=cppast.show(s[1]) if s[1] else "")
            return
        if k == "decl":
            name, init = s[1], s[2]
            if init is not None:
                if init[0] == "init" and any(b in s[3] for b in self.benign):
                    return
                init = self.res(init)
                if init[0] in ("ref", "field") and not self._has_call(init):
                    if init[0] == "ref" and init[1] in self.pending:
                        self.pending[name] = self.pending[init[1]]
                    else:
                        self.alias[name] = init
                    return
                n0 = len(self.events)
                calls = self.handle_value(init, [name])
                new = [e for e in self.events[n0:] if e.kind in ("STEP", "UPDATE")]
                if new and calls:
                    self.pending[name] = (new[-1], None)
                self.env[name] = init
            return
        if k in ("assign", "assign_tuple"):
            value = self.res(s[2])
            tgt_nodes = s[1][2] if s[1][0] == "init" else [s[1]]
            tg = self.targets_text(s[1])
            # a local that holds the result of an earlier STEP / UPDATE is now written to held fields: that is the hold of that call
            src = value
            comp = None
            if src[0] == "ref" and src[1] in self.pending:
                evn, comp0 = self.pending[src[1]]
                held = [t for t in tg if t.startswith("@")]
                evn.detail["writes"] = [w for w in evn.detail["writes"] if w.startswith("@")] + held
                evn.detail["whole"] = True
                for i, t in enumerate(tgt_nodes):
                    if t[0] == "ref":
                        self.pending[t[1]] = (evn, i)
                return
            n0 = len(self.events)
            calls = self.handle_value(value, tg)
            new = [e for e in self.events[n0:] if e.kind in ("STEP", "UPDATE")]
            if new and calls:
                for i, t in enumerate(tgt_nodes):
                    if t[0] == "ref":
                        self.pending[t[1]] = (new[-1], i)
                    elif t[0] == "init":
                        for tt in t[2]:
                            if tt[0] == "ref":
                                self.pending[tt[1]] = (new[-1], i)
            if not calls:
                for t in tg:
                    self.ev("WRITE", target=t, value=show2(value))
            return
        if k == "expr":
            self.handle_value(self.res(s[1]), [])
            return
        if k == "if":
            _, cond, then, els, cval = s
            if cval is not None:
                self.block(then if cval else els)
                return
            cond = self.res(cond)
            self.guard.append(cppast.show(cond))
            self.guard_ir.append((cond, True))
            self.block(then)
            self.guard.pop()
            self.guard_ir.pop()
            if els:
                self.guard.append("!" + cppast.show(cond))
                self.guard_ir.append((cond, False))
                self.block(els)
                self.guard.pop()
                self.guard_ir.pop()
            return
        if k == "rangefor":
            self.ev("LOOP-BEGIN", var=cppast.show(s[1]) if isinstance(s[1], tuple) else s[1], range=s[2], range_text=cppast.show(s[2]) if s[2] else "?")
            was = self.in_loop
            self.in_loop = True
            self.block(s[3])
            self.in_loop = was
            self.ev("LOOP-END")
            return
        if k in ("for", "for_range", "while"):
            self.problems.append(f"unexpected {k} loop in tick")
            return
        if k == "return":
            val = self.res(s[1]) if s[1] is not None else None
            if val is not None:
                calls = self.handle_value(val, [])
            self.ev("RETURN", value=cppast.show(val) if val is not None else None, nested=nested)
            return
        if k == "raise":
            self.ev("RAISE", value=cppast.show(s[1]) if s[1] else "")
            return
        self.problems.append(f"statement kind {k} not understood in tick")

    def block(self, stmts, nested=False):
        for s in stmts:
            self.stmt(s, nested)


def _strip(e):
    return e


def _has_call_impl(e):
    if isinstance(e, tuple):
        if e and e[0] in ("call", "mcall"):
            return True
        return any(_has_call_impl(x) for x in e)
    if isinstance(e, list):
        return any(_has_call_impl(x) for x in e)
    return False


TickExec._has_call = staticmethod(_has_call_impl)


def show2(e) -> str:
    """like cppast.show but members of this/self are written @name (so a local `state` != the held @state)"""
    if not isinstance(e, tuple):
        return str(e)
    k = e[0]
    if k == "field":
        if e[1] == ("this",):
            return "@" + e[2]
        return f"{show2(e[1])}.{e[2]}"
    if k == "this":
        return "this"
    if k == "ref":
        return e[1]
    if k == "num":
        return str(e[1])
    if k == "kw":
        return f"{e[1]}={show2(e[2])}"
    if k == "call":
        f = e[1] if isinstance(e[1], str) else show2(e[1])
        return f"{f}({', '.join(show2(a) for a in e[2])})"
    if k == "mcall":
        return f"{show2(e[1])}.{e[2]}({', '.join(show2(a) for a in e[3])})"
    if k == "bin":
        return f"({show2(e[2])} {e[1]} {show2(e[3])})"
    if k == "un":
        return f"{e[1]}{show2(e[2])}"
    if k == "init":
        return "{" + ", ".join(show2(a) for a in e[2]) + "}"
    if k == "cond":
        return f"({show2(e[1])} ? {show2(e[2])} : {show2(e[3])})"
    return cppast.show(e)


def _field_of(value, call):
    """value is a field access / conversion around `call` (e.g. processUpdate(...).state)"""
    v = value
    while isinstance(v, tuple) and v[0] == "field":
        v = v[1]
    return v == call


def _subst(s, m):
    if isinstance(s, tuple):
        if s and s[0] == "ref" and s[1] in m:
            return m[s[1]]
        return tuple(_subst(x, m) for x in s)
    if isinstance(s, list):
        return [_subst(x, m) for x in s]
    return s
