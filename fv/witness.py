"""E4 witness translation units: the skeleton of what the generator emits for one flag valuation (derived from the
current ast_fragments.py / cpp.py by fv.minieval), the repo's real templates rendered statically, the repo's real
ManagedFilter.h and innovation_filtering.h, the dimension-typed stand-in Eigen, and a driver.  The compiler's type
checker decides; a diagnostic is the violation report."""
from __future__ import annotations

import ast
import os
import re
import shutil
import tempfile
from dataclasses import dataclass
from typing import Any, Dict, List, Optional, Tuple

from . import core, cppast, minieval
from .minieval import Node

FRAG = "py/formak/ast_fragments.py"
CPP = "py/formak/cpp.py"
TEMPLATES = "py/formak/templates"


@dataclass(frozen=True)
class Valuation:
    control: bool
    calibration: bool
    filtering: bool = True
    sensors: Tuple[Tuple[str, int], ...] = (("alpha", 3), ("beta", 1))
    n_state: int = 4
    n_control: int = 2
    n_calib: int = 5
    ekf: bool = True          # False: the plain cpp.Model generation (cpp.compile), no filter, no runtime

    @property
    def tag(self):
        return ("" if self.ekf else "model_") + f"ctl{int(self.control)}_cal{int(self.calibration)}_flt{int(self.filtering)}_s" + "x".join(str(n) for _, n in self.sensors)


_FACTORY: Dict[str, Any] = {}


def _mk(kind, **fields):
    """a node of the repo's own ast_tools class when an evaluator is available (so that the repo's printer prints it), else a plain stand-in"""
    ev = _FACTORY.get("ev")
    if ev is not None:
        c = ev.find_class(kind)
        if c is not None:
            return c(**fields)
    return Node(kind, **fields)


class FakeSym:
    """stand-in for a sympy expression in the construction code: printable, substitutable, differentiable"""

    def __init__(self, text="0.0"):
        self.text = text

    def subs(self, *a, **k):
        return self

    def __str__(self):
        return self.text

    def __lt__(self, o):
        return str(self) < str(o)


class FakeBlock:
    """stand-in for cpp.BasicBlock: compile() yields one `target = 0.0;` per statement (what the real block prints, with the expression stubbed)"""

    def __init__(self, statements=(), indent=0, config=None, decl=False):
        self.statements = [(str(t), "0.0") for t, _ in list(statements)]
        self.decl = decl

    def compile(self):
        return [_mk("MemberDeclaration", type_="", name=t, value=v) for t, v in self.statements]


class FakeCov:
    def __init__(self, n):
        self.shape = (n, n)
        self.data = {(i, j): 0.0 for i in range(n) for j in range(n)}


class FakeReading:
    def __init__(self, name, size, gen=None):
        self.typename = name.title()
        self.size = size
        self.identifier = f"SensorId::{name.upper()}"
        self.sensor_model_mapping = {f"{name}_r{i}": FakeSym() for i in range(size)}
        body = [_mk("Return", value="{}")]
        self.SensorModel_model_body = body
        self.SensorModel_covariance_body = body
        self.SensorModel_jacobian_body = body
        if gen is not None and gen._w is not None:
            # the generator's own body builders (local declaration, statements, return), with the sympy-printed expressions stubbed
            self.SensorModel_jacobian_body = gen._real("ExtendedKalmanFilter", "_translate_sensor_jacobian", self.typename, self.sensor_model_mapping)
            self.SensorModel_covariance_body = gen._real("ExtendedKalmanFilter", "_translate_sensor_covariance", self.typename, FakeCov(size))
        self.members = ""
        self.initializer_list = ""
        self.Options_members = ""


class FakeConfig:
    def __init__(self, v: Valuation):
        self.v = v

    def ccode(self):
        k = "5.0" if self.v.filtering else "0.0"
        return Node("Text", text="namespace cpp { struct Config { static constexpr bool common_subexpression_elimination = true; "
                                 "static constexpr bool extra_validation = false; static constexpr double max_dt_sec = 0.1; "
                                 f"static constexpr double innovation_filtering = {k}; }}; }}")


class _StubGenerator:
    def __init__(self, v: Valuation, w: "Witness" = None):
        self.v = v
        self._w = w
        self.config = None
        self.enable_EKF = v.ekf
        self.namespace = "gen"
        self.header_include = "witness.h"
        self.config = FakeConfig(v)
        if w is not None:
            cfg = w.evaluator().find_class("Config")
            # the repo's own cpp.Config (its ccode() prints the constants the templates and the runtime read)
            cands = [c for c in [cfg] if c is not None and c.mod == "cpp"]
            ev0 = w.evaluator()
            if "Config" in ev0.classes.get("cpp", {}):
                self.config = minieval.ClassRef(ev0, "cpp", ev0.classes["cpp"]["Config"])(innovation_filtering=5.0 if v.filtering else 0.0)
            _ = cands
        self.arglist_state = [f"s{i}" for i in range(v.n_state)]
        self.arglist_control = [f"u{i}" for i in range(v.n_control)] if v.control else []
        self.arglist_calibration = [f"k{i}" for i in range(v.n_calib)] if v.calibration else []
        self.state_size = len(self.arglist_state)
        self.control_size = len(self.arglist_control)
        self.calibration_size = len(self.arglist_calibration)
        # one entry per sensor, shaped like the real generator's (a plain triple, or the namedtuple the generator builds: see sensor_shape)
        names, roles = _SHAPE.get("shape", ((), ("name", "model", "noise")))
        rec = __import__("collections").namedtuple("SensorRec", names) if names else (lambda *a: tuple(a))
        self.sensorlist = []
        for n, sz in sorted(v.sensors):
            byrole = {"name": n, "model": {f"{n}_r{i}": None for i in range(sz)}, "noise": {}}
            self.sensorlist.append(rec(*[byrole[r] for r in roles]))
        st = self.arglist_state
        self._process_model = FakeBlock([(f"double {n}", None) for n in st])
        self._model = self._process_model
        self._process_jacobian = FakeBlock([(f"jacobian({i}, {j})", None) for i in range(len(st)) for j in range(len(st))])
        self._control_jacobian = FakeBlock([(f"jacobian({i}, {j})", None) for i in range(len(st)) for j in range(self.control_size)])
        self._control_covariance = FakeBlock([(f"covariance({i}, {j})", None) for i in range(self.control_size) for j in range(self.control_size)])
        self._return = "{}"
        if w is not None:
            self._return = self._real("ExtendedKalmanFilter" if v.ekf else "Model", "_translate_return")
        self._readings = [FakeReading(n, sz, self) for n, sz in sorted(v.sensors)] if v.ekf else []

    def _real(self, cls, name, *args, **kwargs):
        """evaluate the generator class's own method (from the current cpp.py) on this stand-in"""
        w = self._w
        ev = w.evaluator(natives={"BasicBlock": FakeBlock, "Symbol": FakeSym, "diff": (lambda a, b: FakeSym()), "sympy": None})
        c = core.find_class(w.cpp, cls)
        fn = core.find_func(c, name) if c is not None else None
        if fn is None:
            raise core.AnalysisError(f"anchor missing: cpp.{cls}.{name}")
        return ev.call(minieval.Func(ev, "cpp", fn, self_obj=self), list(args), dict(kwargs))

    def __getattr__(self, name):
        # any other method of the real generator class is evaluated from the current cpp.py on this stand-in
        w = self.__dict__.get("_w")
        if name.startswith("__") or w is None:
            raise AttributeError(name)
        cls = "ExtendedKalmanFilter" if self.__dict__["v"].ekf else "Model"
        c = core.find_class(w.cpp, cls)
        if c is not None and core.find_func(c, name) is not None:
            return lambda *a, **kw: self._real(cls, name, *a, **kw)
        raise AttributeError(name)

    def _body(self, name):
        if self._w is None:
            return self._stub()
        return self._real("ExtendedKalmanFilter" if self.v.ekf else "Model", name)

    def process_model_body(self):
        return self._body("process_model_body")

    def process_jacobian_body(self):
        return self._body("process_jacobian_body")

    def control_jacobian_body(self):
        return self._body("control_jacobian_body")

    def control_covariance_body(self):
        return self._body("control_covariance_body")

    def model_body(self):
        return self._body("model_body")

    def enable_control(self):
        if self._w is not None:
            return self._real("ExtendedKalmanFilter" if self.v.ekf else "Model", "enable_control")       # the generator's own definition
        return self.control_size > 0

    def enable_calibration(self):
        if self._w is not None:
            return self._real("ExtendedKalmanFilter" if self.v.ekf else "Model", "enable_calibration")
        return self.calibration_size > 0

    def reading_types(self, verbose=False):
        return list(self._readings)

    def _stub(self):
        return [_mk("Return", value="{}")]



_CACHE: Dict[Any, Any] = {}
_SHAPE: Dict[str, Any] = {}


# ------------------------------------------------------------------------------------------------ the generator, really constructed
import zlib as _zlib


class WSym:
    """a model symbol of the witness model: equal by name (like a sympy Symbol), hashed deterministically and NOT in name order, so that a
    collection of them iterates in an arbitrary (but reproducible) order unless the generator sorts it"""
    salt = b""

    def __init__(self, name, role=None, **_assumptions):
        self.name = str(name)
        self.role = role

    def __str__(self):
        return self.name

    def __repr__(self):
        return self.name

    def __eq__(self, o):
        return isinstance(o, WSym) and o.name == self.name

    def __hash__(self):
        return _zlib.crc32(WSym.salt + self.name.encode())

    def __lt__(self, o):
        return self.name < str(o)

    @property
    def free_symbols(self):
        return {self}

    def subs(self, lst, *a, **k):
        return WExpr([self]).subs(lst)

    def diff(self, *a):
        return WExpr([self])


class WExpr:
    """a model expression of the witness model: the symbols it depends on.  subs() is sympy's sequential substitution on them, printing gives
    their sum -- so the emitted C++ mentions exactly what the generator substituted (or failed to)"""
    log: List[Any] = []

    def __init__(self, syms):
        self.syms = list(syms)

    def subs(self, lst, *a, **k):
        lst = list(lst.items()) if isinstance(lst, dict) else list(lst)
        WExpr.log.append(lst)
        cur = list(self.syms)
        for src, dst in lst:
            cur = [dst if x == src else x for x in cur]
        return WExpr(cur)

    def diff(self, *a):
        return WExpr(self.syms)

    @property
    def free_symbols(self):
        return {x for x in self.syms if isinstance(x, WSym)}

    def __str__(self):
        return " + ".join(str(x) for x in self.syms) or "0.0"


class WNum(float):
    """a configured number of the witness model (a process-noise entry).  It is a float for every computation; as *text* it is only valid once the
    generator's block printer (cpp.BasicBlock -> sympy's C printer; here WBlock) has printed it.  Interpolating it into the generated code any
    other way (`str()`, an f-string, a node printed as it stands) yields a token that is not C++, so the witness stops compiling -- the static
    counterpart of `Rational(1, 4)` coming out as the integer division `1/4`."""

    def __str__(self):
        return f"NUMBER_NOT_PRINTED_BY_THE_C_PRINTER({float.__repr__(self)})"
    __repr__ = __str__

    def __format__(self, spec):
        return str(self)


def _cprint(e) -> str:
    return float.__repr__(e) if isinstance(e, WNum) else str(e)


class WMatrix:
    """stand-in for sympy.Matrix over witness expressions: a column of expressions, its Jacobian with respect to a list of symbols, and entry
    access -- an entry of the Jacobian is an expression over the same symbols as the differentiated one (what the substitution lists must cover)"""

    def __init__(self, *a):
        # Matrix(list) | Matrix(rows, cols, flat list) for a column | internal (rows, symbols)
        if len(a) == 3 and isinstance(a[0], int) and isinstance(a[1], int):
            if a[1] != 1:
                raise TypeError("witness Matrix: only column matrices are modelled")
            a = (list(a[2]),)
        rows = a[0]
        cols = a[1] if len(a) > 1 else None
        self.rows = [r[0] if isinstance(r, (list, tuple)) and len(r) == 1 else r for r in rows]
        self.cols = None if cols is None else list(cols)

    def jacobian(self, symbols):
        return WMatrix(self.rows, list(symbols))

    @property
    def shape(self):
        return (len(self.rows), 1 if self.cols is None else len(self.cols))

    def __len__(self):
        return len(self.rows) * (1 if self.cols is None else len(self.cols))

    def __iter__(self):
        if self.cols is None:
            return iter(self.rows)
        return iter([r.diff(c) for r in self.rows for c in self.cols])

    def __getitem__(self, key):
        if self.cols is None:
            if isinstance(key, tuple):
                return self.rows[key[0]]
            return self.rows[key]
        if isinstance(key, tuple) and len(key) == 2:
            i, j = key
            if not (0 <= i < len(self.rows) and 0 <= j < len(self.cols)):
                raise IndexError(f"Jacobian entry {key} outside {self.shape}")
            return self.rows[i].diff(self.cols[j])
        return list(self)[key]


class WBlock:
    """stand-in for cpp.BasicBlock (its CSE / simplify / ccode pipeline is the temporaries protocol's business, fv.tmprules): one statement per
    (target, expression), the expression printed as it stands after the generator's substitution"""

    def __init__(self, statements=(), indent=0, config=None):
        self.statements = [(str(t), _cprint(e)) for t, e in list(statements)]

    def __len__(self):
        return len(self.statements)

    def compile(self):
        return [_mk("MemberDeclaration", type_="", name=t, value=v) for t, v in self.statements]


class _WNamed:
    def __init__(self, name, arglist):
        self.name, self.arglist = name, list(arglist)

    def from_dict(self, d):
        n = len(self.arglist)
        c = FakeCov(n)
        for i, a in enumerate(self.arglist):
            for j, b in enumerate(self.arglist):
                v = d.get((a, b), d.get((b, a), d.get(a, 0.0) if i == j else 0.0)) if isinstance(d, dict) else 0.0
                c.data[(i, j)] = v
        return c

    def from_data(self, data):
        return data

    def __call__(self, *a, **k):
        return FakeCov(len(self.arglist))


class _WCommon:
    class UiModelBase:
        pass

    @staticmethod
    def named_vector(n, a):
        return _WNamed(n, a)

    @staticmethod
    def named_covariance(n, a):
        return _WNamed(n, a)

    @staticmethod
    def model_validation(*a, **k):
        return None


class _WCommonProxy:
    """`common` as the construction code sees it: the named-array classes and the validation are stand-ins (their own rules are C13 / C14's), any
    other function of the real common.py is evaluated from its source"""

    def __init__(self, ev_getter):
        self._ev_getter = ev_getter

    UiModelBase = _WCommon.UiModelBase
    named_vector = staticmethod(_WCommon.named_vector)
    named_covariance = staticmethod(_WCommon.named_covariance)
    model_validation = staticmethod(_WCommon.model_validation)

    def __getattr__(self, name):
        ev = self._ev_getter()
        fn = ev.funcs.get("common", {}).get(name) if ev is not None else None
        if fn is None:
            raise AttributeError(name)
        return minieval.Func(ev, "common", fn)


class WModel(_WCommon.UiModelBase):
    """the witness ui.Model of a valuation: n_state states s*, controls u*, calibrations k*; every update expression depends on all of them"""

    def __init__(self, v: Valuation):
        st = [WSym(f"s{i}", "STATE") for i in range(v.n_state)]
        ct = [WSym(f"u{i}", "CONTROL") for i in range(v.n_control)] if v.control else []
        cal = [WSym(f"k{i}", "CALIB") for i in range(v.n_calib)] if v.calibration else []
        self.dt = WSym("tau_step", "DT")         # deliberately not spelled like the C++ parameter: an unsubstituted time step is an undeclared identifier
        self.state, self.control, self.calibration = set(st), set(ct), set(cal)
        self.state_model = {s_: WExpr(st + cal + ct + [self.dt]) for s_ in st}
        self._st, self._ct, self._cal = st, ct, cal


def real_generator(v: Valuation, w: "Witness"):
    """the repo's own cpp.ExtendedKalmanFilter / cpp.Model, constructed by evaluating its __init__ (fv.minieval) on the witness model"""
    m = WModel(v)
    holder = {}
    natives = {"BasicBlock": WBlock, "Symbol": WSym, "diff": (lambda a, b, *r: a.diff(b)), "common": _WCommonProxy(lambda: holder.get("ev")), "sympy": None,
               "ccode": (lambda e, *a, **k: _cprint(e)), "Matrix": WMatrix}
    ev = w.evaluator(natives=natives)
    holder["ev"] = ev
    cfg_node = ev.classes.get("cpp", {}).get("Config")
    if cfg_node is None:
        raise core.AnalysisError("anchor missing: cpp.Config")
    config = minieval.ClassRef(ev, "cpp", cfg_node)(innovation_filtering=5.0 if v.filtering else 0.0)
    cal_map = {c: 0.0 for c in m._cal}
    if v.ekf:
        node = ev.classes.get("cpp", {}).get("ExtendedKalmanFilter")
        if node is None:
            raise core.AnalysisError("anchor missing: cpp.ExtendedKalmanFilter")
        sensor_models = {n_: {f"{n_}_r{i}": WExpr(m._st + m._cal) for i in range(sz)} for n_, sz in v.sensors}
        sensor_noises = {n_: {f"{n_}_r{i}": 1.0 for i in range(sz)} for n_, sz in v.sensors}
        gen = minieval.ClassRef(ev, "cpp", node)(state_model=m, process_noise={c: WNum(1.0) for c in m._ct}, sensor_models=sensor_models,
                                                  sensor_noises=sensor_noises, namespace="gen", header_include="witness.h", config=config,
                                                  calibration_map=cal_map)
    else:
        node = ev.classes.get("cpp", {}).get("Model")
        if node is None:
            raise core.AnalysisError("anchor missing: cpp.Model")
        gen = minieval.ClassRef(ev, "cpp", node)(symbolic_model=m, calibration_map=cal_map, namespace="gen", header_include="witness.h", config=config)
    gen.__dict__["v"] = v
    gen.__dict__["_wmodel"] = m
    return gen


def FakeGenerator(v: Valuation, w: "Witness" = None):
    """the generator a witness is derived from: the repo's own class constructed on the witness model (or, without a Witness, the hand-made stub)"""
    if w is None:
        return _StubGenerator(v, None)
    return real_generator(v, w)


def sensor_shape(ctx: core.Ctx):
    """field names and roles of the entries of cpp.ExtendedKalmanFilter.sensorlist, from the layout interpreter's evaluation of __init__
    (the stand-in generator must present the same record shape to the fragment code as the real one)"""
    key = ("shape", ctx.repo)
    if key in _CACHE:
        return _CACHE[key]
    from . import genlayout
    from .values import SeqV, MapV
    out = ((), ("name", "model", "noise"))
    try:
        g = genlayout.GenInfo(ctx)
        v = g.ekf.attrs.get("sensorlist")
        if isinstance(v, SeqV) and isinstance(v.elem, tuple) and v.elem and v.elem[0] == "TUPLE":
            tags = v.elem[1]
            names = tuple(v.elem[2]) if len(v.elem) >= 4 else ()
            roles = []
            for t in tags:
                if t == "key":
                    roles.append("name")
                elif isinstance(t, tuple) and len(t) == 2 and isinstance(t[1], MapV):
                    roles.append("model" if t[1].kind == "sensor" else "noise")
                else:
                    roles.append("?")
            if sorted(roles) == ["model", "name", "noise"]:
                out = (names, tuple(roles))
            else:
                raise core.AnalysisError(f"cpp.ExtendedKalmanFilter.sensorlist entries {tags} are not (name, model, noise) records")
    except core.AnalysisError:
        raise
    _CACHE[key] = out
    return out


TOOLS = "py/formak/ast_tools.py"


class Witness:
    def __init__(self, ctx: core.Ctx):
        self.ctx = ctx
        self.frag = ctx.parse(FRAG)
        self.cpp = ctx.parse(CPP)
        self.tools = ctx.parse(TOOLS)
        self.tpl_cache: Dict[str, str] = {}
        if not _SHAPE.get("busy"):
            _SHAPE["busy"] = True
            try:
                _SHAPE["shape"] = sensor_shape(ctx)
            finally:
                _SHAPE["busy"] = False

    def evaluator(self, natives=None):
        """partial evaluator over the repo's construction code: ast_fragments, cpp and the node classes + printer of ast_tools
        (jinja2 -- FromFileTemplate.compile -- is the one modelled external: the repo's template text rendered by fv.minieval.render_template)"""
        mods = {"ast_fragments": self.frag, "cpp": self.cpp, "ast_tools": self.tools}
        try:
            mods["common"] = self.ctx.parse("py/formak/common.py")       # helpers shared through common.py are evaluated from their source
        except core.AnalysisError:
            pass
        ev = minieval.MiniEval(mods, aliases={"fragments": "ast_fragments"}, natives=natives)

        def from_file(inst, options=None, **kw):
            ins = inst.inserts or {}
            return ([f"// ---- begin template {inst.name} {ins}"] + self.template(inst.name, ins).split("\n") + [f"// ---- end template {inst.name}"])
        ev.method_hooks[("FromFileTemplate", "compile")] = from_file
        _FACTORY["ev"] = ev
        return ev

    def print_nodes(self, ev, nodes) -> List[str]:
        """the text the repo's own printer (ast_tools.<Node>.compile) produces for these nodes"""
        cs_cls = ev.find_class("CompileState")
        if cs_cls is None:
            raise core.AnalysisError("anchor missing: ast_tools.CompileState")
        out: List[str] = []
        for n in nodes:
            if isinstance(n, minieval.Inst):
                for line in minieval.consume(n.compile(cs_cls(indent=0))):
                    if not isinstance(line, str):
                        raise core.AnalysisError(f"ast_tools printer yielded a non-string for {n.kind}: {line!r}")
                    out.extend(line.split("\n"))
            else:
                minieval.cpp_print(n, out, self.template)
        return out

    def template(self, name, inserts):
        rel = f"{TEMPLATES}/{name}"
        if rel not in self.tpl_cache:
            self.tpl_cache[rel] = self.ctx.read(rel)
        return minieval.render_template(self.tpl_cache[rel], inserts)

    def skeleton(self, v: Valuation) -> Tuple[List[str], Any]:
        ev = self.evaluator()
        gen = FakeGenerator(v, self)
        header = ev.call_named("cpp", "_header_body", generator=gen)
        source = ev.call_named("cpp", "_source_body", generator=gen)
        out: List[str] = []
        # Config namespace is emitted inside the generated namespace by _header_body (generator.config.ccode())
        out.append("namespace gen {")
        out += self.print_nodes(ev, header)
        out.append("// ---- source file part")
        out += self.print_nodes(ev, source)
        out.append("} // namespace gen")
        return out, gen

    def driver(self, v: Valuation, gen) -> List[str]:
        cal = ", cal" if v.calibration else ""
        ctl = ", u" if v.control else ""
        if not v.ekf:
            d = ["namespace drive {", "using namespace gen;", "void run() {", "  Model m;", "  State s;"]
            if v.calibration:
                d.append("  Calibration cal;")
            if v.control:
                d.append("  Control u;")
            d += [f"  State r = m.model(0.1, s{cal}{ctl});", "  State s0(StateOptions{});", "}", "} // namespace drive"]
            return d
        d = ["#include <formak/runtime/ManagedFilter.h>", "#include <vector>", "namespace drive {", "using namespace gen;",
             "using MF = formak::runtime::ManagedFilter<ExtendedKalmanFilter>;",
             "static_assert(MF::compatible, \"generated filter is not compatible with the managed runtime\");",
             "static_assert(MF::runtime_compatible());",
             "void run() {", "  StateAndVariance sv;"]
        if v.calibration:
            d.append("  Calibration cal;")
        if v.control:
            d.append("  Control u;")
        d.append(f"  MF mf(0.0, sv{cal});")
        d.append(f"  StateAndVariance r1 = mf.tick(1.0{ctl});")
        readings = list(gen.reading_types()) if not isinstance(gen, _StubGenerator) else gen._readings
        rs = ", ".join(f"MF::wrap({0.25 * (i + 1)}, {r.typename}{{}})" for i, r in enumerate(readings))
        d.append(f"  std::vector<MF::StampedReading> rs{{{rs}}};")
        d.append(f"  StateAndVariance r2 = mf.tick(2.0{ctl}, rs);")
        d.append("  ExtendedKalmanFilter ekf;")
        d.append(f"  StateAndVariance h1 = ekf.process_model(0.1, sv{cal}{ctl});")
        for r in readings:
            d.append(f"  StateAndVariance h_{r.typename} = ekf.sensor_model(h1{cal}, {r.typename}{{}});")
            d.append(f"  std::optional<typename {r.typename}::InnovationT> i_{r.typename} = ekf.innovations<{r.typename}>();")
            d.append(f"  {r.typename} o_{r.typename}({r.typename}Options{{}});")
        d.append("  State s0(StateOptions{});")
        d += ["}", "} // namespace drive"]
        return d

    def tu(self, v: Valuation) -> str:
        sk, gen = self.skeleton(v)
        pre = ["#include <Eigen/Dense>    // Matrix", "#include <formak/innovation_filtering.h>", "#include <any>", "#include <optional>",
               "#include <type_traits>", "#include <memory>"]
        return "\n".join(pre + sk + self.driver(v, gen)) + "\n"

    def includes(self):
        return [cppast.STUBS, os.path.join(self.ctx.repo, "cpp/include"), os.path.join(self.ctx.repo, "cpp/runtime/include")]

    def compile(self, v: Valuation, keep: Optional[str] = None):
        """-> (returncode, diagnostics mapped back to repo files where possible, tu text)"""
        key = (self.ctx.repo, v.tag, "compile")
        if key in _CACHE and keep is None:
            return _CACHE[key]
        res = self._compile(v, keep)
        _CACHE[key] = res
        return res

    def _compile(self, v: Valuation, keep: Optional[str] = None):
        self.ctx.read("cpp/runtime/include/formak/runtime/ManagedFilter.h")
        self.ctx.read("cpp/include/formak/innovation_filtering.h")
        src = self.tu(v)
        td = tempfile.mkdtemp(prefix="fvwit.")
        try:
            tu = os.path.join(td, f"witness_{v.tag}.cpp")
            open(tu, "w").write(src)
            args = sum((["-I", i] for i in self.includes()), []) + [tu]
            r = cppast.clang(args)
            diag = self.map_diag(r.stderr, tu, src)
            if keep:
                shutil.copy(tu, keep)
            return r.returncode, diag, src
        finally:
            shutil.rmtree(td, ignore_errors=True)

    def ast(self, v: Valuation, filt: str):
        key = (self.ctx.repo, v.tag, "ast", filt)
        if key not in _CACHE:
            _CACHE[key] = self._ast(v, filt)
        return _CACHE[key]

    def prefetch(self, vals, filt="ExtendedKalmanFilter"):
        """compile + AST of several valuations concurrently (clang processes run in parallel)"""
        from concurrent.futures import ThreadPoolExecutor
        jobs = [(v, "c") for v in vals] + [(v, "a") for v in vals]
        with ThreadPoolExecutor(8) as ex:
            list(ex.map(lambda j: self.compile(j[0]) if j[1] == "c" else self.ast(j[0], filt), jobs))

    def _ast(self, v: Valuation, filt: str):
        src = self.tu(v)
        td = tempfile.mkdtemp(prefix="fvwit.")
        try:
            tu = os.path.join(td, f"witness_{v.tag}.cpp")
            open(tu, "w").write(src)
            return cppast.ast_json(tu, self.includes(), filt)
        finally:
            shutil.rmtree(td, ignore_errors=True)

    def map_diag(self, stderr: str, tu: str, src: str) -> List[Dict[str, Any]]:
        """errors with the TU line mapped to `template <name>` sections or skeleton text"""
        lines = src.split("\n")
        out = []
        for m in re.finditer(r"^(.+?):(\d+):(\d+): (error|fatal error): (.*)$", stderr, re.M):
            path, ln, col, _, msg = m.groups()
            ln = int(ln)
            where = path
            text = ""
            if os.path.abspath(path) == os.path.abspath(tu):
                text = lines[ln - 1].strip() if 0 < ln <= len(lines) else ""
                sect = "generated skeleton"
                for i in range(ln - 1, -1, -1):
                    if lines[i].startswith("// ---- begin template"):
                        sect = "py/formak/templates/" + lines[i].split()[4]
                        break
                    if lines[i].startswith("// ---- end template") or lines[i].startswith("namespace drive"):
                        sect = "witness driver" if lines[i].startswith("namespace drive") else "generated skeleton"
                        break
                where = sect
            else:
                where = os.path.relpath(path, self.ctx.repo) if path.startswith(self.ctx.repo) else path
                where = f"{where}:{ln}"
            out.append({"where": where, "message": msg, "text": text})
        return out
