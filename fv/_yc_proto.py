"""yield-collector prototype: partial evaluation of ast_fragments generator functions under flag valuations."""
import ast, itertools, json
src = open('/repo/py/formak/ast_fragments.py').read()
tree = ast.parse(src)
funcs = {n.name: n for n in tree.body if isinstance(n, ast.FunctionDef)}

class Unsupported(Exception): pass

def ev_flag(test, flags):
    # generator.enable_calibration() / generator.enable_control() / generator.enable_EKF / reading_type is None
    if isinstance(test, ast.Call) and isinstance(test.func, ast.Attribute) and isinstance(test.func.value, ast.Name):
        return flags[test.func.attr]
    if isinstance(test, ast.Attribute) and isinstance(test.value, ast.Name):
        return flags[test.attr]
    if isinstance(test, ast.Compare) and isinstance(test.ops[0], (ast.Is, ast.IsNot)) and isinstance(test.left, ast.Name):
        v = flags[test.left.id + "_is_none"]
        return v if isinstance(test.ops[0], ast.Is) else not v
    raise Unsupported(ast.unparse(test))

def render(node, holes):
    if isinstance(node, ast.Constant): return node.value
    if isinstance(node, ast.JoinedStr):
        out = ''
        for v in node.values:
            if isinstance(v, ast.Constant): out += v.value
            else: out += holes(ast.unparse(v.value))
        return out
    raise Unsupported(ast.unparse(node))

def collect(fn, flags, holes):
    out = []
    def block(stmts):
        for s in stmts:
            if isinstance(s, ast.Expr) and isinstance(s.value, ast.Yield):
                c = s.value.value
                if not (isinstance(c, ast.Call) and isinstance(c.func, ast.Name)): raise Unsupported(ast.unparse(s))
                out.append((c.func.id, [render(a, holes) for a in c.args]))
            elif isinstance(s, ast.If):
                block(s.body if ev_flag(s.test, flags) else s.orelse)
            elif isinstance(s, ast.Expr) and isinstance(s.value, ast.Constant):
                pass
            else:
                raise Unsupported(ast.unparse(s))
    block(fn.body)
    return out

holes = lambda e: {'reading_type.typename': 'S'}.get(e, '<'+e+'>')
for cal, ctl in itertools.product([False, True], repeat=2):
    flags = dict(enable_calibration=cal, enable_control=ctl, enable_EKF=True, reading_type_is_none=True)
    print(f'== calibration={cal} control={ctl}')
    for name in ['standard_process_args', 'standard_reading_args', '_StampedReadingBase_args', '_Reading_sensor_model_args', '_Reading_sensor_model_body', '_EKF_Tag_body']:
        print('  ', name, collect(funcs[name], flags, holes))
# using-declaration table
print('== Matrix aliases')
for fn in funcs.values():
    for c in ast.walk(fn):
        if isinstance(c, ast.Call) and isinstance(c.func, ast.Name) and c.func.id == 'UsingDeclaration' and len(c.args) == 2:
            try:
                t = render(c.args[1], lambda e: '{'+e+'}')
            except Unsupported: continue
            if 'Eigen::Matrix' in t: print('  ', fn.name, render(c.args[0], str), '=', t)
        if isinstance(c, ast.Call) and isinstance(c.func, ast.Name) and c.func.id == 'MemberDeclaration' and len(c.args) == 3 and isinstance(c.args[1], ast.Constant) and c.args[1].value in ('rows', 'cols'):
            print('  ', fn.name, c.args[1].value, '=', ast.unparse(c.args[2]))
