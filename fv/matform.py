"""E3: normal forms of matrix formulas -- non-commutative polynomials with an involution (transpose).

A polynomial is a dict  word -> integer coefficient ; a word is a tuple of factors ; a factor is
    ("A", name, transposed)        an atom (a named matrix / vector source)
    ("INV", key, transposed)       the inverse of a polynomial (key = canonical frozen form)
Atoms declared symmetric ignore transposition.  Scalars other than +-1 do not occur in the
formulas of the properties (C04, C05, C06 NIS, C16); the scalar threshold of C06 is handled by
`Scalar` below (commutative normal form).
"""
from __future__ import annotations

from fractions import Fraction
from typing import Dict, Tuple

Poly = Dict[tuple, int]


class MatForm:
    """immutable polynomial wrapper"""

    __slots__ = ("p", "sym")

    def __init__(self, p: Poly, sym: frozenset = frozenset()):
        self.p = {w: (int(c) if isinstance(c, Fraction) and c.denominator == 1 else c) for w, c in p.items() if c != 0}
        self.sym = sym

    def scale(self, q):
        """rational multiple (e.g. the 1/2 of a symmetrisation (X + X^T)/2)"""
        q = Fraction(q)
        return MatForm({w: c * q for w, c in self.p.items()}, self.sym)

    # ---- constructors
    @staticmethod
    def atom(name, symmetric=False):
        return MatForm({(("A", name, False),): 1}, frozenset([name]) if symmetric else frozenset())

    @staticmethod
    def identity():
        return MatForm({(): 1})

    @staticmethod
    def zero():
        return MatForm({})

    # ---- algebra
    def _with(self, p, other=None):
        sym = self.sym | (other.sym if other is not None else frozenset())
        return MatForm(p, sym)

    def __add__(self, o):
        p = dict(self.p)
        for w, c in o.p.items():
            p[w] = p.get(w, 0) + c
        return self._with(p, o)

    def __neg__(self):
        return self._with({w: -c for w, c in self.p.items()})

    def __sub__(self, o):
        return self + (-o)

    def __mul__(self, o):
        p: Poly = {}
        for w1, c1 in self.p.items():
            for w2, c2 in o.p.items():
                w = _chol_rewrite(w1 + w2)
                p[w] = p.get(w, 0) + c1 * c2
        return self._with(p, o)

    @staticmethod
    def chol(a: "MatForm"):
        """lower Cholesky factor L of a (symmetric) form A:  L.L^T = A"""
        return MatForm({(("CHOL", a.key(), False),): 1}, a.sym)

    def T(self):
        sym = self.sym

        def tf(f):
            if f[0] == "A":
                return f if f[1] in sym else ("A", f[1], not f[2])
            if f[0] == "CHOL":
                return ("CHOL", f[1], not f[2])
            # INV: (X^-1)^T = (X^T)^-1 ; key holds the canonical form of X, recompute for X^T
            inner = MatForm(dict(f[1]), sym).T() if not f[3] else None
            if f[3]:  # inner polynomial known symmetric
                return f
            return ("INV", inner.key(), False, inner.is_symmetric())
        p = {}
        for w, c in self.p.items():
            w2 = tuple(tf(f) for f in reversed(w))
            p[w2] = p.get(w2, 0) + c
        return self._with(p)

    def inv(self):
        return self._with({(("INV", self.key(), False, self.is_symmetric()),): 1})

    def is_symmetric(self):
        return self.T_key() == self.key()

    def T_key(self):
        return self.T().key()

    def key(self):
        return tuple(sorted(self.p.items(), key=repr))

    def __eq__(self, o):
        return isinstance(o, MatForm) and self.key() == o.key()

    def __hash__(self):
        return hash(self.key())

    def __repr__(self):
        if not self.p:
            return "0"
        parts = []
        for w, c in sorted(self.p.items(), key=repr):
            s = "*".join(_fac_repr(f) for f in w) or "I"
            parts.append(("+" if c > 0 else "-") + (str(abs(c)) + "*" if abs(c) != 1 else "") + s)
        return " ".join(parts).lstrip("+")


def _chol_rewrite(w):
    """Inv(L^T).Inv(L) = Inv(L.L^T) = Inv(A) for L = Chol(A)   (the only Cholesky identity the checks need)"""
    out = list(w)
    i = 0
    while i + 1 < len(out):
        a, b = out[i], out[i + 1]
        if a[0] == "INV" and b[0] == "INV" and len(a[1]) == 1 and len(b[1]) == 1:
            (wa, ca), (wb, cb) = a[1][0], b[1][0]
            if ca == 1 and cb == 1 and len(wa) == 1 and len(wb) == 1 and wa[0][0] == "CHOL" and wb[0][0] == "CHOL" \
                    and wa[0][1] == wb[0][1] and wa[0][2] is True and wb[0][2] is False:
                out[i:i + 2] = [("INV", wa[0][1], False, True)]
                continue
        i += 1
    return tuple(out)


def _fac_repr(f):
    if f[0] == "A":
        return f[1] + ("^T" if f[2] else "")
    if f[0] == "CHOL":
        return "Chol(" + repr(MatForm(dict(f[1]))) + ")" + ("^T" if f[2] else "")
    return "Inv(" + repr(MatForm(dict(f[1]))) + ")"


# -------------------------------------------------------------------------------- scalars
class Scalar:
    """commutative rational-coefficient polynomial over opaque atoms, with sqrt(.) as an opaque
    function of a normal form.  Enough for  k*sqrt(2*m) + m."""

    def __init__(self, terms):
        self.t = {m: c for m, c in terms.items() if c != 0}

    @staticmethod
    def const(c):
        return Scalar({(): Fraction(c)})

    @staticmethod
    def atom(name):
        return Scalar({((name, 1),): Fraction(1)})

    def __add__(self, o):
        t = dict(self.t)
        for m, c in o.t.items():
            t[m] = t.get(m, 0) + c
        return Scalar(t)

    def __neg__(self):
        return Scalar({m: -c for m, c in self.t.items()})

    def __sub__(self, o):
        return self + (-o)

    def __mul__(self, o):
        t = {}
        for m1, c1 in self.t.items():
            for m2, c2 in o.t.items():
                d = dict(m1)
                for a, e in m2:
                    d[a] = d.get(a, 0) + e
                m = tuple(sorted(((a, e) for a, e in d.items() if e), key=repr))
                t[m] = t.get(m, 0) + c1 * c2
        return Scalar(t)

    def sqrt(self):
        return Scalar.atom(("sqrt", self.key()))

    def recip(self):
        """1/self for a single monomial (negative exponents); None otherwise"""
        if len(self.t) != 1:
            return None
        (mono, c), = self.t.items()
        return Scalar({tuple((a, -e) for a, e in mono): Fraction(1) / c})

    def key(self):
        return tuple(sorted(self.t.items(), key=repr))

    def __eq__(self, o):
        return isinstance(o, Scalar) and self.key() == o.key()

    def __hash__(self):
        return hash(self.key())

    def __repr__(self):
        if not self.t:
            return "0"
        out = []
        for m, c in sorted(self.t.items(), key=repr):
            fac = "*".join((_sa(a) + (f"^{e}" if e != 1 else "")) for a, e in m)
            out.append(f"{c}*{fac}" if fac and c != 1 else (fac or str(c)))
        return " + ".join(out)


def _sa(a):
    if isinstance(a, tuple) and a and a[0] == "sqrt":
        return "sqrt(" + repr(Scalar(dict(a[1]))) + ")"
    return str(a)
