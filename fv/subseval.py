"""Symbolic evaluation of the substitution lists the C++ back-end hands to expr.subs(...).

A substitution list is evaluated (not run) to an ordered list of entries
    Entry(src, dst)   src: ("ROLE", role) | ("DT",) | ("OTHER", text)
                      dst: ("SYM", template) | ("STR", template) | ("OTHER", text)
where `template` is the C++ text with "{}" standing for the element's name (one entry stands for every symbol of the role).
Forms understood: list literals of pairs, `+` / `+=` concatenation, list(...), single-assignment local names, comprehensions over a
role collection (role taken from the layout interpreter's iteration inventory), comprehensions that map an already evaluated list
pair-by-pair, string templates built with str.format / f-strings over the comprehension variable and constant-bound parameters, and calls
of module-level helper functions with a straight-line body ending in one return (parameters bound to the caller's expressions).
Anything else raises Unsupported with the offending text: the rule then reports an un-enumerated idiom instead of guessing.
"""
from __future__ import annotations

import ast
from typing import Any, Dict, List, Optional, Tuple


class Unsupported(Exception):
    pass


class Scope:
    def __init__(self, fn: ast.FunctionDef, bound: Optional[Dict[str, Tuple[ast.AST, "Scope"]]] = None):
        self.fn = fn
        self.bound = bound or {}
        self.assigns: Dict[str, List[ast.AST]] = {}
        self.augs: Dict[str, List[ast.AST]] = {}
        for a in ast.walk(fn):
            if isinstance(a, ast.Assign) and len(a.targets) == 1 and isinstance(a.targets[0], ast.Name):
                self.assigns.setdefault(a.targets[0].id, []).append(a.value)
            elif isinstance(a, ast.AnnAssign) and isinstance(a.target, ast.Name) and a.value is not None:
                self.assigns.setdefault(a.target.id, []).append(a.value)
            elif isinstance(a, ast.AugAssign) and isinstance(a.target, ast.Name) and isinstance(a.op, ast.Add):
                self.augs.setdefault(a.target.id, []).append(a.value)
            elif isinstance(a, ast.Call) and isinstance(a.func, ast.Attribute) and a.func.attr in ("append", "extend", "insert") \
                    and isinstance(a.func.value, ast.Name):
                self.augs.setdefault(a.func.value.id, []).append(a)


class SubsEval:
    def __init__(self, module: ast.Module, iter_role, max_depth=6):
        """iter_role(comp_node) -> role name or None (from the layout interpreter's iteration inventory)"""
        self.module = module
        self.iter_role = iter_role
        self.funcs = {f.name: f for f in module.body if isinstance(f, ast.FunctionDef)}
        self.max_depth = max_depth
        self.inlined: List[str] = []

    # -------------------------------------------------------------- strings
    def template(self, e, scope: Scope, var: Optional[str], depth=0) -> str:
        """C++ text of a string expression with "{}" for the comprehension variable"""
        if depth > self.max_depth:
            raise Unsupported(ast.unparse(e)[:80])
        if isinstance(e, ast.Constant) and isinstance(e.value, str):
            return e.value
        if isinstance(e, ast.JoinedStr):
            out = ""
            for v in e.values:
                if isinstance(v, ast.Constant):
                    out += v.value
                elif isinstance(v, ast.FormattedValue) and v.format_spec is None and v.conversion in (-1, 115):
                    out += self.piece(v.value, scope, var, depth)
                else:
                    raise Unsupported(ast.unparse(e)[:80])
            return out
        if isinstance(e, ast.Call) and isinstance(e.func, ast.Attribute) and e.func.attr == "format" and not e.keywords:
            base = self.template(e.func.value, scope, None, depth + 1)
            pieces = [self.piece(a, scope, var, depth) for a in e.args]
            n = base.count("{}")
            if n != len(pieces):
                raise Unsupported(ast.unparse(e)[:80])
            out = base
            for p in pieces:
                out = out.replace("{}", "\0" if p == "{}" else p, 1)
            return out.replace("\0", "{}")
        if isinstance(e, ast.BinOp) and isinstance(e.op, ast.Add):
            return self.template(e.left, scope, var, depth) + self.template(e.right, scope, var, depth)
        if isinstance(e, ast.Call) and isinstance(e.func, ast.Name) and e.func.id == "str" and len(e.args) == 1:
            return self.piece(e.args[0], scope, var, depth)
        if isinstance(e, ast.Name):
            if e.id == var:
                return "{}"
            r = self.resolve(e.id, scope)
            if r is not None:
                return self.template(r[0], r[1], None if r[1] is not scope else var, depth + 1)
        raise Unsupported(ast.unparse(e)[:80])

    def piece(self, e, scope, var, depth):
        if isinstance(e, ast.Name) and e.id == var:
            return "{}"
        if isinstance(e, ast.Attribute) and e.attr == "name" and isinstance(e.value, ast.Name) and e.value.id == var:
            return "{}"
        return self.template(e, scope, var, depth + 1)

    def resolve(self, name, scope: Scope):
        if name in scope.bound and name not in scope.assigns:
            return scope.bound[name]
        vs = scope.assigns.get(name, [])
        if len(vs) == 1 and name not in scope.bound:
            return vs[0], scope
        return None

    # -------------------------------------------------------------- entries
    def dst(self, e, scope, var, depth=0):
        if isinstance(e, ast.Call) and ast.unparse(e.func).split(".")[-1] == "Symbol" and len(e.args) == 1 and not e.keywords:
            try:
                return ("SYM", self.template(e.args[0], scope, var, depth))
            except Unsupported:
                return ("OTHER", ast.unparse(e)[:60])
        try:
            return ("STR", self.template(e, scope, var, depth))
        except Unsupported:
            return ("OTHER", ast.unparse(e)[:60])

    def src(self, e, scope, var, role):
        if isinstance(e, ast.Name) and e.id == var and role is not None:
            return ("ROLE", role)
        if isinstance(e, ast.Attribute) and e.attr == "dt":
            return ("DT",)
        return ("OTHER", ast.unparse(e)[:60])

    def pair(self, e, scope, var=None, role=None):
        if isinstance(e, ast.Tuple) and len(e.elts) == 2:
            return (self.src(e.elts[0], scope, var, role), self.dst(e.elts[1], scope, var))
        raise Unsupported(ast.unparse(e)[:80])

    def eval(self, e, scope: Scope, depth=0) -> List[Tuple[Any, Any]]:
        if depth > self.max_depth:
            raise Unsupported(ast.unparse(e)[:80])
        if isinstance(e, (ast.List, ast.Tuple)) and all(isinstance(x, ast.Tuple) for x in e.elts):
            return [self.pair(x, scope) for x in e.elts]
        if isinstance(e, ast.BinOp) and isinstance(e.op, ast.Add):
            return self.eval(e.left, scope, depth) + self.eval(e.right, scope, depth)
        if isinstance(e, ast.Call) and isinstance(e.func, ast.Name) and e.func.id in ("list", "tuple") and len(e.args) == 1 and not e.keywords:
            return self.eval(e.args[0], scope, depth)
        if isinstance(e, ast.Name):
            return self.eval_name(e.id, scope, depth)
        if isinstance(e, (ast.ListComp, ast.GeneratorExp)) and len(e.generators) == 1 and not e.generators[0].ifs:
            g = e.generators[0]
            role = self.iter_role(e)
            if scope.bound:
                # inside an inlined helper the comprehension node stands for every call of the helper: the iteration inventory's role for the node
                # is whichever call was seen last.  Not decidable in source form (the constructed generator decides)
                raise Unsupported(f"comprehension over a helper parameter: {ast.unparse(e)[:60]}")
            if role is not None and isinstance(g.target, ast.Name):
                return [self.pair(e.elt, scope, var=g.target.id, role=role)]
            inner = self.eval(g.iter, scope, depth + 1)
            return [self.map_entry(ent, g.target, e.elt, scope) for ent in inner]
        if isinstance(e, ast.Call) and isinstance(e.func, ast.Name) and e.func.id in self.funcs:
            return self.inline(self.funcs[e.func.id], e, scope, depth)
        raise Unsupported(ast.unparse(e)[:80])

    def eval_name(self, name, scope: Scope, depth):
        if name in scope.bound and name not in scope.assigns:
            ex, sc = scope.bound[name]
            return self.eval(ex, sc, depth + 1)
        vs = scope.assigns.get(name, [])
        if len(vs) != 1:
            raise Unsupported(f"{name} ({len(vs)} assignments)")
        out = self.eval(vs[0], scope, depth + 1)
        for a in scope.augs.get(name, []):
            if isinstance(a, ast.Call):
                if a.func.attr == "append" and len(a.args) == 1:
                    out = out + [self.pair(a.args[0], scope)]
                elif a.func.attr == "extend" and len(a.args) == 1:
                    out = out + self.eval(a.args[0], scope, depth + 1)
                elif a.func.attr == "insert" and len(a.args) == 2 and isinstance(a.args[0], ast.Constant) and a.args[0].value == 0:
                    out = [self.pair(a.args[1], scope)] + out
                else:
                    raise Unsupported(ast.unparse(a)[:80])
            else:
                out = out + self.eval(a, scope, depth + 1)
        return out

    def map_entry(self, ent, target, elt, scope):
        """[(f(a), g(b)) for a, b in <entries>]"""
        if not (isinstance(target, ast.Tuple) and len(target.elts) == 2 and all(isinstance(t, ast.Name) for t in target.elts)
                and isinstance(elt, ast.Tuple) and len(elt.elts) == 2):
            raise Unsupported(ast.unparse(elt)[:80])
        a, b = (t.id for t in target.elts)
        s, d = elt.elts
        if not (isinstance(s, ast.Name) and s.id == a):
            raise Unsupported(ast.unparse(elt)[:80])
        if isinstance(d, ast.Name) and d.id == b:
            return ent
        if isinstance(d, ast.Call) and ast.unparse(d.func).split(".")[-1] == "Symbol" and len(d.args) == 1 and not d.keywords \
                and isinstance(d.args[0], ast.Name) and d.args[0].id == b and ent[1][0] == "STR":
            return (ent[0], ("SYM", ent[1][1]))
        raise Unsupported(ast.unparse(elt)[:80])

    def inline(self, fn: ast.FunctionDef, call: ast.Call, scope: Scope, depth):
        a = fn.args
        if a.vararg or a.kwarg or any(isinstance(x, ast.Starred) for x in call.args) or any(k.arg is None for k in call.keywords):
            raise Unsupported(ast.unparse(call)[:80])
        bound: Dict[str, Tuple[ast.AST, Scope]] = {}
        pos = [p.arg for p in a.posonlyargs + a.args]
        if len(call.args) > len(pos):
            raise Unsupported(ast.unparse(call)[:80])
        for p, v in zip(pos, call.args):
            bound[p] = (v, scope)
        allowed = set(pos) | {p.arg for p in a.kwonlyargs}
        for k in call.keywords:
            if k.arg not in allowed or k.arg in bound:
                raise Unsupported(ast.unparse(call)[:80])
            bound[k.arg] = (k.value, scope)
        defaults = dict(zip(reversed(pos), reversed(a.defaults)))
        defaults.update({p.arg: d for p, d in zip(a.kwonlyargs, a.kw_defaults) if d is not None})
        for p in allowed:
            if p not in bound:
                if p not in defaults:
                    raise Unsupported(ast.unparse(call)[:80])
                bound[p] = (defaults[p], Scope(fn))
        body = [s for s in fn.body if not (isinstance(s, ast.Expr) and isinstance(s.value, ast.Constant))]
        rets = [s for s in ast.walk(fn) if isinstance(s, ast.Return)]
        if len(rets) != 1 or rets[0] is not body[-1] or any(isinstance(s, (ast.If, ast.For, ast.While, ast.Try, ast.With)) for s in body):
            raise Unsupported(f"{fn.name}: not a straight-line helper with one return")
        self.inlined.append(fn.name)
        return self.eval(rets[0].value, Scope(fn, bound), depth + 1)
