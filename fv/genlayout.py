"""Layout rules for the C++ generator (cpp.py + ast_fragments.py), shared by C02, C07, C13, C15.

The E2 interpreter evaluates cpp.ExtendedKalmanFilter / cpp.Model construction, reading_types(), the return-string builders
and every ast_fragments function on abstract models, recording (a) obligations at sinks (LAY-JAC, LAY-TGT, LAY-COVIDX,
LAY-DICT) and (b) an inventory of every loop / comprehension with the layout of what it iterates.  Rules on the inventory:

  GEN-ITER    every iteration that contributes to generated text runs over an *ordered* layout (Sorted(role, canonical key));
              iterating a dict / set / .items() / .values() directly is a violation unless it only feeds guards or a sorted()
  SLOT-AGREE  for each generated type, all enumerations of its fields (Options members, constructor initialiser list,
              accessor indices, positional / designated returns, Jacobian rows, noise rows) iterate the same layout
  SLOT-IDX    in `for idx, name in enumerate(L)` the accessor named `name` returns data(idx, 0) / data(idx, idx) -- the
              index holes are exactly the loop's own index, with no offset
  SUBS        each _translate_* substitutes exactly the roles that are parameters of the emitted function, with the accessor
              prefix that matches the parameter name / type printed by standard_*_args, and maps the model's dt symbol to
              the C++ parameter name
"""
from __future__ import annotations

import ast
import re
from typing import Any, Dict, List, Optional

from . import core, keymat, minieval, scenarios, witness
from .interp import Env, Interp, Program, FuncV, ClassV, Join, unwrap_elem
from .values import *  # noqa

CPPF = "py/formak/cpp.py"
FRAG = "py/formak/ast_fragments.py"
_D = ast.parse("0").body[0]

FRAG_ROLE = {
    "StateOptions": "STATE", "State": "STATE", "Covariance": "STATE", "StateOptionsConstructor": "STATE",
    "ControlOptions": "CONTROL", "Control": "CONTROL", "ControlConstructor": "CONTROL",
    "CalibrationOptions": "CALIB", "Calibration": "CALIB", "CalibrationConstructor": "CALIB",
    "ReadingOptions": ("READ", "k"), "Reading": ("READ", "k"), "ReadingConstructor": ("READ", "k"),
    "SensorId": "SENSOR",
}
CANON_KEY = {"STATE": "name", "CONTROL": "name", "CALIB": "name", "SENSOR": "natural", ("READ", "k"): "natural"}


def want_layout(role):
    return Layout((("SORT", role, CANON_KEY[role]),))


class GenInfo:
    def __init__(self, ctx: core.Ctx, prog: Program = None):
        self.ctx = ctx
        self.p = prog or scenarios.program(ctx)
        self.it = Interp(self.p)
        it = self.it
        env = Env("cpp")
        self.env = env
        for cls in ("ExtendedKalmanFilter", "Model", "BasicBlock"):
            core.need(self.p.classes["cpp"].get(cls), f"class cpp.{cls}")
        kw = dict(state_model=ModelV(), namespace=Const("ns"), header_include=Const("h"), **scenarios.user_args())
        self.ekf = it.construct(ClassV("cpp", "ExtendedKalmanFilter"), [], kw, env, _D)
        fn = core.need(self.p.method("cpp", "ExtendedKalmanFilter", "reading_types"), "cpp.ExtendedKalmanFilter.reading_types")
        r = it.call_func(FuncV(fn, "cpp", self.ekf, "ExtendedKalmanFilter"), [], {}, env, fn)
        self.reading_type = None
        if isinstance(r, tuple) and r and r[0] == "GENFN" and r[1] and isinstance(r[1][0], TupleV):
            self.reading_type = r[1][0]
        else:
            raise core.AnalysisError("cpp.ExtendedKalmanFilter.reading_types does not yield a ReadingT namedtuple")
        kwm = dict(symbolic_model=ModelV(), calibration_map=MapV("calibration_map", "CALIB"), namespace=Const("ns"),
                   header_include=Const("h"), config=ConfigV())
        self.model = it.construct(ClassV("cpp", "Model"), [], kwm, env, _D)
        for cls, obj in (("ExtendedKalmanFilter", self.ekf), ("Model", self.model)):
            f = self.p.method("cpp", cls, "_translate_return")
            if f is not None:
                it.call_func(FuncV(f, "cpp", obj, cls), [], {}, env, f)
        self.frag_called = []
        fenv = Env("ast_fragments")
        for name, f in self.p.funcs["ast_fragments"].items():
            params = [a.arg for a in f.args.args]
            kw = {}
            if "generator" in params:
                kw["generator"] = self.ekf
            if "reading_type" in params:
                kw["reading_type"] = self.reading_type
            if len(kw) != len(params):
                continue
            it.call_func(FuncV(f, "ast_fragments"), [], kw, fenv, f)
            self.frag_called.append(name)
            ctx.functions.append("ast_fragments." + name)
        ctx.functions += ["cpp.ExtendedKalmanFilter.__init__", "cpp.ExtendedKalmanFilter.reading_types", "cpp.Model.__init__"]

    def layout(self, src):
        lay = self.it.layout_of_iter(src[1] if isinstance(src, tuple) and src and src[0] == "ENUM" else src)
        return lay


def _parents(tree):
    par = {}
    for n in ast.walk(tree):
        for c in ast.iter_child_nodes(n):
            par[c] = n
    return par


def _guard_only(loop: ast.For):
    """the loop body only tests and raises (validation), so its iteration order cannot reach generated text"""
    for n in ast.walk(ast.Module(body=loop.body, type_ignores=[])):
        if isinstance(n, (ast.Yield, ast.YieldFrom, ast.Return)):
            return False
        if isinstance(n, ast.Call) and isinstance(n.func, ast.Attribute) and n.func.attr in ("append", "extend", "write", "join"):
            return False
        if isinstance(n, (ast.Assign, ast.AugAssign)):
            tg = n.targets if isinstance(n, ast.Assign) else [n.target]
            if any(isinstance(t, (ast.Attribute, ast.Subscript)) for t in tg):
                return False
    return any(isinstance(n, ast.Raise) for n in ast.walk(ast.Module(body=loop.body, type_ignores=[])))


def _feeds_only_guards(node, chain, parents):
    """a comprehension over an unordered source whose result is bound to a local that is only tested (if x: / len(x) / in a raise message)"""
    assign = next((c for c in chain[:3] if isinstance(c, ast.Assign) and len(c.targets) == 1 and isinstance(c.targets[0], ast.Name)), None)
    if assign is None:
        return False
    direct = assign.value is node
    # first-offender idiom: x = next((e for e in S if cond), None) / any(...) / all(...)
    wrapped = isinstance(assign.value, ast.Call) and isinstance(assign.value.func, ast.Name) and assign.value.func.id in ("next", "any", "all", "list", "sorted") \
        and assign.value.args and assign.value.args[0] is node
    if not (direct or wrapped):
        return False
    name = assign.targets[0].id
    fn = next((c for c in chain if isinstance(c, (ast.FunctionDef, ast.AsyncFunctionDef))), None)
    if fn is None:
        p = parents.get(chain[-1]) if chain else None
        while p is not None and not isinstance(p, (ast.FunctionDef, ast.AsyncFunctionDef)):
            p = parents.get(p)
        fn = p
    if fn is None:
        return False
    def only_guards(nm, depth=0, scope=None):
        uses = [n for st_ in (scope if scope is not None else [fn]) for n in ast.walk(st_) if isinstance(n, ast.Name) and n.id == nm and isinstance(n.ctx, ast.Load)]
        for u in uses:
            p, okuse, hops = parents.get(u), False, 0
            prev = u
            while p is not None and hops < 8:
                if isinstance(p, ast.If) and (prev is p.test or any(prev is x for x in ast.walk(p.test))):
                    okuse = True
                    break
                if isinstance(p, (ast.Raise, ast.Assert)):
                    okuse = True
                    break
                if isinstance(p, ast.Assign) and depth < 2 and p.value is prev and all(isinstance(x, (ast.Name, ast.Tuple, ast.List, ast.expr_context)) for t in p.targets for x in ast.walk(t)):
                    # unpacked / copied into locals that are themselves only tested or reported
                    # (the unpacked names are looked at in the rest of the block they are bound in: the same name may be reused elsewhere)
                    holder = parents.get(p)
                    rest = None
                    for fld in ("body", "orelse", "finalbody"):
                        lst = getattr(holder, fld, None)
                        if isinstance(lst, list) and any(x is p for x in lst):
                            rest = lst[[i for i, x in enumerate(lst) if x is p][0] + 1:]
                    okuse = rest is not None and all(only_guards(x.id, depth + 1, rest) for t in p.targets for x in ast.walk(t) if isinstance(x, ast.Name))
                    break
                if isinstance(p, (ast.FunctionDef, ast.For, ast.Return, ast.Yield, ast.Assign)):
                    break
                prev, p = p, parents.get(p)
                hops += 1
            if not okuse:
                return False
        return True
    return only_guards(name)


def check_iterations(ctx: core.Ctx, g: GenInfo, rule="GEN-ITER"):
    """GEN-ITER + SLOT-AGREE over the iteration inventory of generator code."""
    par = {m: _parents(g.p.modules[m]) for m in ("cpp", "ast_fragments")}
    n = 0
    per_type: Dict[Any, List[Any]] = {}
    for i in g.it.iterations:
        if i["file"] not in (CPPF, FRAG):
            continue
        mod = "cpp" if i["file"] == CPPF else "ast_fragments"
        src = unwrap_elem(i["source"])
        node = i["node"]
        func = i["func"]
        where = f"{i['file']}:{func}"
        while isinstance(src, tuple) and src and src[0] == "ENUM":
            src = unwrap_elem(src[1])                     # enumerate(X) iterates X in X's order
        if isinstance(src, tuple) and src and src[0] in ("RANGE", "PREFIX"):
            continue
        lay = g.layout(src)
        unordered = isinstance(src, (CollV, UnordSeqV, MapV, FamV)) or (isinstance(src, tuple) and src and src[0] in ("ITEMS", "KEYS", "VALUES", "UNORDLIST")) \
            or (lay is not None and not lay.ordered())
        if unordered:
            # allowed: directly inside sorted(...), or a guard-only loop, or a message-only comprehension inside a raise
            p = par[mod].get(node)
            chain = []
            while p is not None and len(chain) < 6:
                chain.append(p)
                p = par[mod].get(p)
            inside_sorted = any(isinstance(c, ast.Call) and isinstance(c.func, ast.Name) and c.func.id == "sorted" for c in chain[:3])
            inside_raise = any(isinstance(c, ast.Raise) for c in chain)
            ok = inside_sorted or inside_raise or (isinstance(node, ast.For) and _guard_only(node)) or _feeds_only_guards(node, chain, par[mod])
            n += 1
            ctx.oblige(rule, where, f"iteration over `{i['iter']}` (unordered) " + ("inside sorted()" if inside_sorted else "guard/message only" if ok else ""),
                       ok, file=i["file"], func=func, construct=f"unordered iteration {i['iter']}",
                       msg=f"generated text depends on the iteration order of `{i['iter']}` (a dict / set in declaration or hash order): "
                           f"the layout then depends on how the user wrote the definition, not on names", line=i["line"])
            continue
        if lay is None:
            continue
        n += 1
        segs = lay.segs
        role = None
        if len(segs) == 1:
            sg = segs[0]
            while sg[0] in ("REV", "PRIME"):
                sg = sg[1]
            if sg[0] == "SORT":
                role = sg[1]
        if role is None:
            continue
        okk = lay == want_layout(role) if role in CANON_KEY else True
        ctx.oblige(rule, where, f"`{i['iter']}` : {lay}", okk, file=i["file"], func=func, construct=f"iteration {i['iter']}",
                   msg=f"`{i['iter']}` iterates {lay}; every other producer/consumer of this role uses {want_layout(role) if role in CANON_KEY else '?'}",
                   line=i["line"])
        # SLOT-AGREE per fragment function
        short = func.split(".")[-1]
        if i["file"] == FRAG and short not in FRAG_ROLE:
            # an iteration inside a helper belongs to the fragment function that called it
            short = next((q.split(".")[-1] for q in reversed(i.get("stack", ())) if q.split(".")[-1] in FRAG_ROLE), short)
        if i["file"] == FRAG and short in FRAG_ROLE:
            exp = FRAG_ROLE[short]
            ctx.oblige("SLOT-AGREE", where, f"{short} enumerates {lay}", role == exp, file=i["file"], func=func, construct=f"role of {short}",
                       msg=f"{short} enumerates {lay}; the fields of this type are {want_layout(exp)}", line=i["line"])
            per_type.setdefault(exp, []).append(short)
    ctx.floor(rule, n, 28, "iterations in generator code classified (48 on the tree this was written for; shared helpers reduce the count)")
    # every fragment in the table was seen (a function that stopped iterating a role list is a vanished anchor)
    seen = {s for v in per_type.values() for s in v}
    missing = [f for f in FRAG_ROLE if f not in seen]
    if missing:
        ctx.error(f"{FRAG}: no role-typed iteration found in {missing} (anchor vanished or idiom not enumerated)")
    # unordered iteration in fragments evaluated as Unknown source
    for i in g.it.iterations:
        if i["file"] == FRAG and isinstance(i["source"], Unknown) and (i["func"].split(".")[-1] in FRAG_ROLE
                                                                       or any(q.split(".")[-1] in FRAG_ROLE for q in i.get("stack", ()))):
            ctx.error(f"{FRAG}:{i['func']}: iteration over `{i['iter']}` could not be evaluated")


def check_slot_idx(ctx: core.Ctx, g: GenInfo):
    """SLOT-IDX on the derived skeleton (fv.minieval evaluates the repo's construction code for stand-in generators whose names and sizes are
    pairwise distinct): in State / Control / Calibration the accessor named arglist[i] returns data(i, 0), in Covariance data(i, i); each
    name has exactly one mutable and one const accessor; the Options structs list the same names in the same order; rows == the size."""
    w = witness.Witness(ctx)
    n = 0
    for val in (witness.Valuation(True, True), witness.Valuation(True, True, n_state=3, n_control=4, n_calib=2)):
        ev = w.evaluator()
        gen = witness.FakeGenerator(val, w)
        header = ev.call_named("cpp", "_header_body", generator=gen)
        classes = {}

        def walk(nodes):
            for nd in nodes or []:
                if isinstance(nd, minieval.Node):
                    if nd.kind == "ClassDef":
                        classes.setdefault(nd.name, nd)
                    for f in ("body", "namespaces", "templated"):
                        v = getattr(nd, f, None)
                        if isinstance(v, list):
                            walk(v)
                        elif isinstance(v, minieval.Node):
                            walk([v])
        walk(header)
        table = [("State", gen.arglist_state, "vec"), ("Control", gen.arglist_control, "vec"), ("Calibration", gen.arglist_calibration, "vec"),
                 ("Covariance", gen.arglist_state, "cov")]
        for tname, arglist, kind in table:
            where = f"{FRAG}:{tname} [stand-in sizes {val.n_state}/{val.n_control}/{val.n_calib}]"
            c = classes.get(tname)
            if c is None:
                ctx.error(f"{where}: struct {tname} is not in the derived header skeleton")
                continue
            acc = [x for x in c.body if isinstance(x, minieval.Node) and x.kind == "FunctionDef" and str(x.name) in [str(a) for a in arglist]]
            n += 1
            got = {}
            bad = []
            for a in acc:
                rets = [r for r in (a.body or []) if isinstance(r, minieval.Node) and r.kind == "Return"]
                txt = str(rets[0].value).replace(" ", "") if len(rets) == 1 and len(a.body) == 1 else "?"
                got.setdefault(str(a.name), []).append((str(a.return_type).replace(" ", ""), str(a.modifier or "").strip(), txt))
            for i_, name in enumerate(arglist):
                slot = f"data({i_},0)" if kind == "vec" else f"data({i_},{i_})"
                want = sorted([("double&", "", slot), ("double", "const", slot)])
                have = sorted(got.get(str(name), []))
                if have != want:
                    bad.append(f"{name}: {have} (required {want})")
            ctx.oblige("SLOT-IDX", where, f"{len(arglist)} name(s): accessor k returns " + ("data(idx(k), 0)" if kind == "vec" else "data(idx(k), idx(k))"), not bad,
                       file=FRAG, func=tname, construct=f"accessor slots of {tname}",
                       msg=f"in the generated struct {tname} the accessors do not read the slot of their own name: " + "; ".join(bad[:3]))
            rows = [x for x in c.body if isinstance(x, minieval.Node) and x.kind == "MemberDeclaration" and x.name == "rows"]
            okr = len(rows) == 1 and str(rows[0].value) == str(len(arglist))
            ctx.oblige("SLOT-IDX", where, f"rows = {rows[0].value if rows else None}", okr, file=FRAG, func=tname, construct=f"rows of {tname}",
                       msg=f"struct {tname} declares rows = {rows[0].value if rows else None} for {len(arglist)} names")
            if kind == "vec":
                o = classes.get(tname + "Options")
                if o is None:
                    ctx.error(f"{where}: struct {tname}Options is not in the derived header skeleton")
                    continue
                mem = [str(x.name) for x in o.body if isinstance(x, minieval.Node) and x.kind == "MemberDeclaration"]
                ctx.oblige("SLOT-IDX", where, f"{tname}Options members {mem}", mem == [str(a) for a in arglist], file=FRAG, func=tname + "Options",
                           construct=f"members of {tname}Options", msg=f"{tname}Options lists {mem}; the names of the type in order are {[str(a) for a in arglist]}")
    ctx.floor("SLOT-IDX", n, 8, "accessor tables in the derived skeleton (State, Control, Calibration, Covariance x 2 stand-ins)")


def check_slot_idx_src(ctx: core.Ctx, g: GenInfo):
    """SLOT-IDX (source form): every `for idx, name in enumerate(L)` comprehension that builds accessors, where the source has that shape.
    The deciding rule is check_slot_idx (on the derived skeleton); this one adds the for-every-index argument when the idiom is recognisable."""
    frag = g.p.modules["ast_fragments"]
    n = 0
    for fn in frag.body:
        if not isinstance(fn, ast.FunctionDef):
            continue
        for comp in ast.walk(fn):
            if not isinstance(comp, (ast.ListComp, ast.GeneratorExp)):
                continue
            gen = comp.generators[0]
            it = gen.iter
            if not (isinstance(it, ast.Call) and isinstance(it.func, ast.Name) and it.func.id == "enumerate"):
                continue
            t = gen.target
            if not (isinstance(t, ast.Tuple) and len(t.elts) == 2 and all(isinstance(e, ast.Name) for e in t.elts)):
                continue
            idx, name = t.elts[0].id, t.elts[1].id
            start_ok = len(it.args) == 1 and not it.keywords
            where = f"{FRAG}:{fn.name}"
            n += 1
            ctx.oblige("SLOT-IDX", where, "enumerate starts at 0", start_ok, file=FRAG, func=fn.name, construct="enumerate start",
                       msg="accessor indices are enumerated with a start offset", line=comp.lineno)
            want_holes = 2 if fn.name == "Covariance" else 1
            for sub in ast.walk(comp.elt):
                if isinstance(sub, ast.Call) and isinstance(sub.func, ast.Name) and sub.func.id == "FunctionDef":
                    nm = sub.args[1] if len(sub.args) > 1 else None
                    okn = isinstance(nm, ast.Name) and nm.id == name
                    ctx.oblige("SLOT-IDX", where, f"accessor named by `{ast.unparse(nm) if nm else None}`", okn, file=FRAG, func=fn.name,
                               construct="accessor name", msg=f"the accessor at index `{idx}` is named `{ast.unparse(nm) if nm else None}`, "
                               f"not by the enumerated symbol `{name}`", line=sub.lineno)
                if isinstance(sub, ast.JoinedStr) and any(isinstance(v, ast.Constant) and "data(" in str(v.value) for v in sub.values):
                    holes = [v for v in sub.values if isinstance(v, ast.FormattedValue)]
                    okh = len(holes) == want_holes and all(isinstance(h.value, ast.Name) and h.value.id == idx and h.format_spec is None for h in holes)
                    txt = "".join(v.value if isinstance(v, ast.Constant) else "{" + ast.unparse(v.value) + "}" for v in sub.values)
                    shape_ok = txt.replace(" ", "") == ("data({i},{i})" if want_holes == 2 else "data({i},0)").replace("i", idx)
                    ctx.oblige("SLOT-IDX", where, f"accessor body `{txt}`", okh and shape_ok, file=FRAG, func=fn.name, construct="accessor slot",
                               msg=f"accessor `{name}` returns `{txt}`; required data({{{idx}}}, " + ("{" + idx + "}" if want_holes == 2 else "0") + ")",
                               line=sub.lineno)
                if isinstance(sub, ast.Constant) and isinstance(sub.value, str) and "data(" in sub.value and not isinstance(sub, ast.JoinedStr):
                    # a literal data(<number>, ...) inside an enumeration: a fixed slot for every name
                    pass
    ctx.note(f"SLOT-IDX: {n} accessor enumeration(s) recognised in source form")


def _standard_args(ctx, w: "witness.Witness", ekf: bool, cal: bool, ctl: bool):
    ev = w.evaluator()
    gen = witness.FakeGenerator(witness.Valuation(ctl, cal), w)
    gen.enable_EKF = ekf
    pa = ev.call_named("ast_fragments", "standard_process_args", gen)
    ra = ev.call_named("ast_fragments", "standard_reading_args", gen)
    return [(a.type_, a.name) for a in pa], [(a.type_, a.name) for a in ra]


def check_subs(ctx: core.Ctx, g: GenInfo):
    """SUBS: substitution completeness / accessor prefixes / dt mapping, per _translate_* function."""
    w = witness.Witness(ctx)
    pa, ra = _standard_args(ctx, w, True, True, True)
    pam, _ = _standard_args(ctx, w, False, True, True)

    def prefixes(args, roles):
        out = {}
        for typ, name in args:
            if "StateAndVariance" in typ:
                out["STATE"] = f"{name}.state."
            elif typ.replace("const ", "").strip().startswith("State"):
                out["STATE"] = f"{name}."
            elif "Calibration" in typ:
                out["CALIB"] = f"{name}."
            elif "Control" in typ:
                out["CONTROL"] = f"{name}."
        return {r: p for r, p in out.items() if r in roles}
    dtname = next((n for t, n in pa if t.strip() == "double"), None)
    expect = {
        ("ExtendedKalmanFilter", "_translate_process_model"): (prefixes(pa, {"STATE", "CALIB", "CONTROL"}), True),
        ("ExtendedKalmanFilter", "_translate_process_jacobian"): (prefixes(pa, {"STATE", "CALIB", "CONTROL"}), True),
        ("ExtendedKalmanFilter", "_translate_control_jacobian"): (prefixes(pa, {"STATE", "CALIB", "CONTROL"}), True),
        ("ExtendedKalmanFilter", "_translate_sensor_model"): (prefixes(ra, {"STATE", "CALIB"}), False),
        ("ExtendedKalmanFilter", "_translate_sensor_jacobian_impl"): (prefixes(ra, {"STATE", "CALIB"}), False),
        ("Model", "_translate_model"): (prefixes(pam, {"STATE", "CALIB", "CONTROL"}), True),
    }
    iter_lay = {id(i["node"]): g.layout(i["source"]) for i in g.it.iterations if i["file"] == CPPF}
    mod = g.p.modules["cpp"]
    n = 0
    unread: List[str] = []           # substitution sets the source-form evaluator could not read (decided on the constructed generator instead)
    for (cls, fname), (want, need_dt) in expect.items():
        c = core.find_class(mod, cls)
        fn = core.find_func(c, fname) if c else None
        if fn is None:
            unread.append(f"cpp.{cls}.{fname} does not exist under that name")
            continue
        ctx.functions.append(f"cpp.{cls}.{fname}")
        where = f"{CPPF}:{cls}.{fname}"
        subs_names = {ast.unparse(c2.args[0]) for c2 in ast.walk(fn) if isinstance(c2, ast.Call) and isinstance(c2.func, ast.Attribute)
                      and c2.func.attr == "subs" and c2.args}
        if not subs_names:
            unread.append(f"{where}: no `.subs(...)` call in the function itself")
            continue
        from . import subseval
        def iter_role(node):
            lay = iter_lay.get(id(node))
            return lay.segs[0][1] if lay is not None and len(lay.segs) == 1 and lay.segs[0][0] == "SORT" else None
        ev = subseval.SubsEval(mod, iter_role)
        scope = subseval.Scope(fn)
        entries = []
        bad = []
        for sname in sorted(subs_names):
            try:
                entries += ev.eval(ast.parse(sname, mode="eval").body, scope)
            except subseval.Unsupported as ex:
                bad.append(str(ex))
        for s_, d_ in entries:
            if s_[0] == "OTHER":
                bad.append(f"({s_[-1]}, {d_[-1]})")
            elif d_[0] != "SYM" and s_[0] == "DT":
                bad.append(f"({s_[-1]}, {d_[-1]})")
        if bad:
            for b in bad:
                unread.append(f"{where}: substitution entry `{b[:70]}` is not an enumerated source form")
            continue
        for h in ev.inlined:
            ctx.functions.append(f"cpp.{h}")
        got: Dict[Any, str] = {}
        dup = []
        for s_, d_ in entries:
            if s_[0] == "ROLE":
                # a role whose symbols are replaced by anything but a fresh accessor Symbol (a constant looked up at generation time, a string) is
                # recorded as such: the comparison with the required accessor text below reports it
                txt_ = d_[1] if d_[0] == "SYM" else f"<not an accessor symbol: {d_[1]}>"
                if s_[1] in got and got[s_[1]] != txt_:
                    dup.append(s_[1])
                got[s_[1]] = txt_
        dts = [d_[1] for s_, d_ in entries if s_[0] == "DT"]
        dt_ok = (len(dts) == 1 and dts[0] == dtname) if dts else None
        if dup:
            ctx.oblige("SUBS", where, f"roles substituted twice with different text: {dup}", False, file=CPPF, func=f"{cls}.{fname}",
                       construct="subs_set duplicate role", msg=f"{fname} substitutes {dup} twice with different C++ text", line=fn.lineno)
        # substitution is sequential: the pair that introduces the bare identifier `dt` must come after every pair whose source is a user symbol
        # (a control / calibration symbol that is itself spelled `dt` would otherwise capture the freshly introduced Symbol("dt"))
        if need_dt and dt_ok:
            order = [s_[0] if s_[0] == "DT" else s_[1] for s_, d_ in entries]
            last_ok = order[-1] == "DT"
            ctx.oblige("SUBS", where, f"substitution order {order}", last_ok, file=CPPF, func=f"{cls}.{fname}", construct="subs_set order",
                       msg="the time-step pair (model dt -> Symbol('dt')) is not the last entry of the sequential substitution: a control / calibration symbol "
                           "spelled `dt` then captures the freshly introduced Symbol('dt')", line=fn.lineno)
        n += 1
        wantfmt = {r: p + "{}()" for r, p in want.items()}
        ctx.oblige("SUBS", where, f"substitutes {got}", got == wantfmt, file=CPPF, func=f"{cls}.{fname}", construct="subs_set roles/prefixes",
                   msg=f"{fname} substitutes {got}; the emitted function's parameters require {wantfmt} "
                       f"(a role without substitution is printed under its bare user name, an undeclared C++ identifier)", line=fn.lineno)
        if need_dt:
            ctx.oblige("SUBS", where, f"dt symbol -> Symbol('{dtname}')", bool(dt_ok), file=CPPF, func=f"{cls}.{fname}", construct="subs_set dt",
                       msg=f"the model's time-step symbol is not substituted by the C++ parameter name `{dtname}`", line=fn.lineno)
    n += subs_on_constructed(ctx, w, dtname, unread)
    ctx.floor("SUBS", n, 3, "substitution sets judged (source form, per _translate_* function, + the distinct lists of the constructed generator)")


def subs_on_constructed(ctx: core.Ctx, w: "witness.Witness", dtname, unread) -> int:
    """SUBS on the generator as constructed (fv.witness.real_generator: the repo's own cpp.ExtendedKalmanFilter / cpp.Model built by evaluating
    their __init__ on a witness model): every substitution list handed to expr.subs() is recorded and judged as a concrete list --
    each model symbol is replaced by a fresh accessor Symbol `<object>.<name>()`, one object per role within a list, the time step by the C++
    parameter name and last.  (That the object is the right one for the emitted function, and that no role is left out, is what the witness
    translation unit's type check decides: an unsubstituted or wrongly prefixed symbol is an undeclared identifier / a missing member.)"""
    n = 0
    for v in (witness.Valuation(True, True), witness.Valuation(True, True, ekf=False)):
        witness.WExpr.log = []
        gen = witness.real_generator(v, w)
        if v.ekf:
            list(gen.reading_types())        # the sensor translators run when the reading types are built
        lists = witness.WExpr.log
        witness.WExpr.log = []
        seen = set()
        for lst in lists:
            key = tuple((str(a), str(b)) for a, b in lst)
            if key in seen:
                continue
            seen.add(key)
            n += 1
            where = f"{CPPF}:{'ExtendedKalmanFilter' if v.ekf else 'Model'} [constructed on the witness model]"
            bad, prefix, order = [], {}, []
            for src, dst in lst:
                role = getattr(src, "role", None)
                order.append(role or str(src))
                if role in ("STATE", "CALIB", "CONTROL"):
                    if not isinstance(dst, witness.WSym):
                        bad.append(f"{src} -> <not an accessor symbol: {str(dst)[:40]}>")
                        continue
                    m_ = re.fullmatch(r"(.+\.)" + re.escape(src.name) + r"\(\)", dst.name)
                    if not m_:
                        bad.append(f"{src} -> `{dst.name}` (not `<object>.{src.name}()`)")
                        continue
                    if prefix.setdefault(role, m_.group(1)) != m_.group(1):
                        bad.append(f"{role} symbols read through both `{prefix[role]}` and `{m_.group(1)}`")
                elif role == "DT":
                    if not (isinstance(dst, witness.WSym) and dst.name == dtname):
                        bad.append(f"time step -> `{dst}` (the C++ parameter is `{dtname}`)")
                else:
                    bad.append(f"`{src}` is not a symbol of the model")
            ctx.oblige("SUBS", where, f"substitution list {order[:12]} -> {prefix}", not bad, file=CPPF, func="<constructed generator>",
                       construct="subs list (constructed): " + "; ".join(bad)[:80],
                       msg=f"a substitution list of the constructed generator does not map model symbols to accessor symbols: {'; '.join(bad[:4])}")
            if "DT" in order:
                ctx.oblige("SUBS", where, f"time-step pair is last in {order[:12]}", order[-1] == "DT", file=CPPF, func="<constructed generator>",
                           construct="subs list order (constructed)",
                           msg="the time-step pair (model dt -> Symbol('dt')) is not the last entry of the sequential substitution: a control / calibration "
                               "symbol spelled `dt` then captures the freshly introduced Symbol('dt')")
        rc, diag, _ = w.compile(v)
        first = diag[0] if diag else {"where": "?", "message": "", "text": ""}
        ctx.oblige("SUBS", f"witness {v.tag}", f"the emitted expressions type-check (rc={rc})", rc == 0, file=first["where"].split(":")[0], func=v.tag,
                   construct=("witness: " + first["message"])[:120],
                   msg=f"the code emitted for the witness model does not type-check: {first['where']}: {first['message']}   [{first['text']}] -- a model symbol "
                       f"that is not (or wrongly) substituted is an undeclared identifier / a missing member")
    if unread:
        ctx.note(f"SUBS: {len(unread)} substitution set(s) not readable in source form, decided on the constructed generator: " + "; ".join(unread[:3]))
    return n


def check_obligations(ctx: core.Ctx, g: GenInfo):
    it = g.it
    scenarios.transfer(it, ctx, rules={"LAY-JAC", "LAY-TGT", "LAY-COVIDX", "LAY-DICT"}, files={CPPF})
    ctx.floor("LAY-JAC", scenarios.count(it, "LAY-JAC"), 2, "jacobian(i, j) target sites (process / control -- possibly one shared translator -- and sensor)")
    ctx.floor("LAY-TGT", scenarios.count(it, "LAY-TGT"), 1, "`double <name>` = model[<name>] sites (EKF process model, sensor model, Model -- possibly one shared translator)")
    ctx.floor("LAY-COVIDX", scenarios.count(it, "LAY-COVIDX"), 1, "sensor covariance(i, j) site")
    # Jacobian declared dimensions come from the witness type check (C02/C07 witnesses)
    mod = it.p.modules["cpp"]
    cls = core.need(core.find_class(mod, "ExtendedKalmanFilter"), "cpp.ExtendedKalmanFilter")
    fn = core.need(core.find_func(cls, "_translate_control_covariance"), "cpp.ExtendedKalmanFilter._translate_control_covariance")
    params = [a.arg for a in fn.args.args if a.arg != "self"]
    keymat.check_function(ctx, CPPF, "ExtendedKalmanFilter._translate_control_covariance", fn, params[0] if params else "covariance", mod=mod, cls=cls)


def check_returns(ctx: core.Ctx, g: GenInfo):
    """positional / designated return strings enumerate the type's own field layout"""
    n = 0
    for i in g.it.iterations:
        if i["file"] == CPPF and i["func"].endswith("_translate_return"):
            lay = g.layout(i["source"])
            n += 1
            ctx.oblige("SLOT-AGREE", f"{CPPF}:{i['func']}", f"State(...) lists {lay}", lay == want_layout("STATE"), file=CPPF, func=i["func"],
                       construct="State return order", msg=f"the returned State is initialised from {lay}; StateOptions' members are {want_layout('STATE')}",
                       line=i["line"])
    ctx.floor("SLOT-RET", n, 2, "_translate_return enumerations (Model, ExtendedKalmanFilter)")


def check_all(ctx: core.Ctx, g: GenInfo = None):
    for rid, t in (("GEN-ITER", "generator iterations run over ordered, canonical layouts"),
                   ("SLOT-AGREE", "all enumerations of one generated type's fields use the same layout"),
                   ("SLOT-IDX", "accessor `name` returns data(idx, 0|idx) with the enumeration's own index"),
                   ("SUBS", "substitution completeness, accessor prefixes and dt mapping of each _translate_*"),
                   ("LAY-JAC", "jacobian(i, j) = d(output i)/d(variable j) with i, j the enumeration indices"),
                   ("LAY-TGT", "`double <name>` receives the expression of the same name"),
                   ("LAY-COVIDX", "covariance(i, j) = data[i, j]"),
                   ("LAY-DICT", "from_dict binds noise by reading name into the sensor's own layout"),
                   ("LAY-KEYMAT", "control covariance entry (i, j) chosen by control names")):
        ctx.rule(rid, t)
    g = g or GenInfo(ctx)
    check_obligations(ctx, g)
    check_iterations(ctx, g)
    check_slot_idx(ctx, g)
    check_slot_idx_src(ctx, g)
    check_subs(ctx, g)
    check_returns(ctx, g)
    return g
