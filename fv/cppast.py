"""E4: clang++ as resolver / type checker.  Runs `clang++-14 -std=c++20 -fsyntax-only` on translation
units composed from the repo's C++ sources, and lowers clang's JSON AST into a small IR.

IR expressions (tuples):
  ("num", text)  ("ref", name)  ("this",)  ("field", base, name)  ("call", fname, [args])
  ("mcall", base, method, [args])  ("bin", op, l, r)  ("un", op, x)  ("init", type, [args])
  ("lambda", params, body)  ("cond", c, a, b)  ("unknown", kind)
IR statements:
  ("decl", name, init|None, type)  ("assign", target, value)  ("expr", e)  ("return", e|None)
  ("if", cond, then[], else[], constexpr_value|None)  ("for", init[], cond, inc, body[])
  ("rangefor", var, range, body[])  ("static_assert", cond)  ("block", stmts)
"""
from __future__ import annotations

import json
import os
import shutil
import subprocess
import tempfile
from typing import Any, Dict, List, Optional

from . import core

CLANG = shutil.which("clang++-14") or shutil.which("clang++")
STUBS = os.path.join(core.VERIF, "stubs")

TRANSPARENT = {"ImplicitCastExpr", "MaterializeTemporaryExpr", "ExprWithCleanups", "ParenExpr", "CXXBindTemporaryExpr",
               "ConstantExpr", "CXXStaticCastExpr", "CXXFunctionalCastExpr", "CStyleCastExpr", "FullExpr",
               "SubstNonTypeTemplateParmExpr_"}


def clang(args: List[str], cwd=None, timeout=120):
    if CLANG is None:
        raise core.AnalysisError("clang++ not found")
    return subprocess.run([CLANG, "-std=c++20", "-fsyntax-only", "-Wno-unused", "-Werror=return-type", "-ferror-limit=40"] + args,
                          capture_output=True, text=True, cwd=cwd, timeout=timeout)


def ast_json(tu_path: str, includes: List[str], filt: str) -> List[dict]:
    args = []
    for i in includes:
        args += ["-I", i]
    r = clang(args + ["-Xclang", "-ast-dump=json", "-Xclang", f"-ast-dump-filter={filt}", tu_path], timeout=180)
    if r.returncode != 0 and not r.stdout.strip():
        raise core.AnalysisError(f"clang could not parse {tu_path}: {r.stderr.strip().splitlines()[:3]}")
    txt = r.stdout
    dec = json.JSONDecoder()
    i, docs = 0, []
    while i < len(txt):
        while i < len(txt) and txt[i].isspace():
            i += 1
        if i >= len(txt):
            break
        d, j = dec.raw_decode(txt, i)
        docs.append(d)
        i = j
    return docs


# ------------------------------------------------------------------------------ lowering
def kids(n):
    return [c for c in n.get("inner", []) if c and c.get("kind")]


NARROW_INT = {"int", "unsigned int", "unsigned", "signed", "signed int", "short", "short int", "unsigned short", "unsigned short int", "char", "signed char",
              "unsigned char", "int32_t", "uint32_t", "int16_t", "uint16_t", "int8_t", "uint8_t", "int_least32_t", "uint_least32_t", "int_least16_t",
              "uint_least16_t", "int_least8_t", "uint_least8_t", "char16_t", "char32_t", "wchar_t"}


INT_CASTS_VISIBLE = False     # set while the managed-filter runtime is lowered (fv.rtmodel): only there the width of a count matters


def clean_type(t: str) -> str:
    t = " ".join(w for w in (t or "").replace("std::", "").replace("::", " ").split() if w not in ("const", "volatile", "constexpr", "static", "register"))
    return t.strip()


def is_narrow_int(ty) -> bool:
    """ty: clang's {"qualType", "desugaredQualType"} or a type string"""
    if isinstance(ty, dict):
        return clean_type(ty.get("desugaredQualType") or ty.get("qualType", "")) in NARROW_INT or clean_type(ty.get("qualType", "")) in NARROW_INT
    return clean_type(ty) in NARROW_INT


def lower_expr(n) -> Any:
    if n is None or not n.get("kind"):
        return ("unknown", "null")
    k = n["kind"]
    ks = kids(n)
    if k in ("CXXStaticCastExpr", "CXXFunctionalCastExpr", "CStyleCastExpr") and ks and n.get("type", {}).get("qualType", "") in ("float", "const float", "_Float16", "__fp16"):
        return ("call", "narrow_float", [lower_expr(ks[0])])       # an explicit narrowing of a double: not value preserving
    if INT_CASTS_VISIBLE and k in ("CXXStaticCastExpr", "CXXFunctionalCastExpr", "CStyleCastExpr") and ks and is_narrow_int(n.get("type", {})):
        return ("call", "narrow_int", [lower_expr(ks[0])])         # an explicit cast to an integer type of fewer than 64 bits
    if k in TRANSPARENT and ks:
        return lower_expr(ks[0])
    if k == "SubstNonTypeTemplateParmExpr":
        # inner: [NonTypeTemplateParmDecl, value expr]
        for c in ks:
            if c["kind"] == "NonTypeTemplateParmDecl":
                return ("ref", c.get("name", "?"))
        return lower_expr(ks[-1]) if ks else ("unknown", k)
    if k == "FloatingLiteral" and n.get("type", {}).get("qualType", "") in ("float", "const float", "_Float16", "__fp16"):
        # a single-precision literal (2.0f) drags the arithmetic it takes part in down to float: same effect as an explicit narrowing
        return ("call", "narrow_float", [("num", n.get("value"))])
    if k in ("IntegerLiteral", "FloatingLiteral"):
        return ("num", n.get("value"))
    if k == "CXXBoolLiteralExpr":
        return ("num", "true" if n.get("value") else "false")
    if k == "DeclRefExpr":
        return ("ref", n.get("referencedDecl", {}).get("name", "?"))
    if k in ("DependentScopeDeclRefExpr", "UnresolvedLookupExpr"):
        return ("ref", n.get("name", "?dependent"))
    if k == "CXXThisExpr":
        return ("this",)
    if k == "MemberExpr":
        return ("field", lower_expr(ks[0]) if ks else ("this",), n.get("name"))
    if k == "CXXDependentScopeMemberExpr":
        return ("field", lower_expr(ks[0]) if ks else ("this",), n.get("member"))
    if k == "UnresolvedMemberExpr":
        return ("field", lower_expr(ks[0]) if ks else ("this",), n.get("name", "?"))
    if k == "BinaryOperator" or k == "CompoundAssignOperator":
        return ("bin", n.get("opcode"), lower_expr(ks[0]), lower_expr(ks[1]))
    if k == "UnaryOperator":
        if n.get("opcode") == "*":
            return lower_expr(ks[0])            # `*p` names the object p points to, as `p->m` already does
        return ("un", n.get("opcode"), lower_expr(ks[0]))
    if k == "ConditionalOperator":
        return ("cond", lower_expr(ks[0]), lower_expr(ks[1]), lower_expr(ks[2]))
    if k == "CXXOperatorCallExpr":
        callee = lower_expr(ks[0])
        op = callee[1].replace("operator", "") if callee[0] == "ref" else "?"
        args = [lower_expr(a) for a in ks[1:]]
        if op == "()":
            if args and args[0][0] == "lambda":
                return ("call", args[0], args[1:])
            return ("mcall", args[0], "()", args[1:])
        if len(args) == 2:
            return ("bin", op, args[0], args[1])
        if len(args) == 1:
            return ("un", op, args[0])
        return ("call", "operator" + op, args)
    if k == "CXXMemberCallExpr":
        callee = lower_expr(ks[0])
        args = [lower_expr(a) for a in ks[1:]]
        if callee[0] == "field":
            return ("mcall", callee[1], callee[2], args)
        return ("call", callee, args)
    if k == "CallExpr":
        callee = lower_expr(ks[0])
        args = [lower_expr(a) for a in ks[1:] if a["kind"] != "CXXDefaultArgExpr"]
        if callee[0] == "field":
            return ("mcall", callee[1], callee[2], args)
        if callee[0] == "ref":
            return ("call", callee[1], args)
        if callee[0] == "lambda":
            return ("call", callee, args)
        return ("call", callee, args)
    if k == "CXXConstructExpr" or k == "CXXTemporaryObjectExpr":
        args = [lower_expr(a) for a in ks if a["kind"] != "CXXDefaultArgExpr"]
        if len(args) == 1:
            return args[0]          # copy / conversion construction is transparent
        return ("init", n.get("type", {}).get("qualType", ""), args)
    if k == "InitListExpr":
        return ("init", n.get("type", {}).get("qualType", ""), [lower_expr(a) for a in ks])
    if k == "CXXUnresolvedConstructExpr":
        return ("init", n.get("type", {}).get("qualType", ""), [lower_expr(a) for a in ks])
    if k == "DesignatedInitExpr":
        return lower_expr(ks[-1]) if ks else ("unknown", k)
    if k == "LambdaExpr":
        # inner: CXXRecordDecl (with operator()), captures..., CompoundStmt
        params, body = [], []
        for c in ks:
            if c["kind"] == "CXXRecordDecl":
                ms = []
                for m in kids(c):
                    if m["kind"] == "CXXMethodDecl" and m.get("name") == "operator()":
                        ms.append(m)
                    elif m["kind"] == "FunctionTemplateDecl" and m.get("name") == "operator()":
                        # a generic lambda (`auto` parameter): the pattern (first CXXMethodDecl) is the body as written
                        pat = next((x for x in kids(m) if x["kind"] == "CXXMethodDecl"), None)
                        if pat is not None:
                            ms.append(pat)
                for m in ms[:1]:
                    params = [p.get("name") for p in kids(m) if p["kind"] == "ParmVarDecl"]
                    for b in kids(m):
                        if b["kind"] == "CompoundStmt":
                            body = lower_block(b)
        return ("lambda", params, body)
    if k == "CXXDefaultArgExpr":
        return ("unknown", "default")
    if k == "StringLiteral":
        return ("num", n.get("value"))
    if k == "ArraySubscriptExpr":
        return ("bin", "[]", lower_expr(ks[0]), lower_expr(ks[1]))
    if k in ("CXXNewExpr",):
        return ("call", "new", [lower_expr(a) for a in ks])
    if len(ks) == 1:
        return lower_expr(ks[0])
    return ("unknown", k)


def lower_stmt(n) -> List[Any]:
    k = n.get("kind")
    ks = kids(n)
    if k == "CompoundStmt":
        return [("block", lower_block(n))]
    if k == "DeclStmt":
        out = []
        for d in ks:
            if d["kind"] == "VarDecl":
                init = None
                for c in kids(d):
                    init = lower_expr(c)
                out.append(("decl", d.get("name"), init, d.get("type", {}).get("qualType", "")))
            elif d["kind"] == "StaticAssertDecl":
                out.append(("static_assert", lower_expr(kids(d)[0]) if kids(d) else None))
        return out
    if k == "ReturnStmt":
        return [("return", lower_expr(ks[0]) if ks else None)]
    if k == "IfStmt":
        raw = n.get("inner", [])
        # layout: [init?] [cond] then [else]; clang json marks hasElse / isConstexpr
        parts = [c for c in raw if c and c.get("kind")]
        cond = parts[0]
        cval = None
        if cond.get("kind") == "ConstantExpr" and "value" in cond:
            cval = cond["value"] == "true"
        then = lower_stmt(parts[1]) if len(parts) > 1 else []
        els = lower_stmt(parts[2]) if len(parts) > 2 and n.get("hasElse") else []
        return [("if", lower_expr(cond), _flat(then), _flat(els), cval if n.get("isConstexpr") else None)]
    if k == "ForStmt":
        raw = n.get("inner", [])
        init = lower_stmt(raw[0]) if raw[0] and raw[0].get("kind") else []
        cond = lower_expr(raw[2]) if len(raw) > 2 and raw[2] and raw[2].get("kind") else None
        inc = lower_expr(raw[3]) if len(raw) > 3 and raw[3] and raw[3].get("kind") else None
        body = lower_stmt(raw[4]) if len(raw) > 4 and raw[4] and raw[4].get("kind") else []
        return [("for", init, cond, inc, _flat(body))]
    if k == "CXXForRangeStmt":
        var, rng, body = None, None, []
        raw = [c for c in n.get("inner", []) if c and c.get("kind")]
        bindings = {}
        for c in raw:
            if c["kind"] == "DeclStmt":
                for d in kids(c):
                    if d["kind"] == "VarDecl" and d.get("name", "").startswith("__range"):
                        rng = lower_expr(kids(d)[0]) if kids(d) else None
                    elif d["kind"] == "VarDecl" and not d.get("name", "").startswith("__"):
                        var = d.get("name")
                    elif d["kind"] == "DecompositionDecl":
                        # `for (const auto& [a, b] : xs)`: the element gets a name of its own, a / b are its members
                        for b in kids(d):
                            if b["kind"] == "BindingDecl" and kids(b) and kids(b)[0]["kind"] == "MemberExpr":
                                bindings[b.get("name")] = kids(b)[0].get("name")
                        var = "elem__" + "_".join(sorted(bindings)) if bindings else None
        if raw:
            body = lower_stmt(raw[-1])
        body = _flat(body)
        if bindings and var:
            body = subst_ir(body, {bn: ("field", ("ref", var), mn) for bn, mn in bindings.items()})
        return [("rangefor", var, rng, body)]
    if k == "NullStmt":
        return []
    if k == "ContinueStmt":
        return [("continue",)]
    if k == "BreakStmt":
        return [("break",)]
    # expression statement
    e = lower_expr(n)
    if e[0] == "bin" and e[1] == "=":
        return [("assign", e[2], e[3])]
    return [("expr", e)]


def _flat(stmts):
    out = []
    for s in stmts:
        if s[0] == "block":
            out.extend(s[1])
        else:
            out.append(s)
    return out


def lower_block(n) -> List[Any]:
    out = []
    for c in kids(n):
        out.extend(_flat(lower_stmt(c)))
    return out


def find_all(n, pred, out=None):
    if out is None:
        out = []
    if isinstance(n, dict):
        if pred(n):
            out.append(n)
        for c in n.get("inner", []) or []:
            find_all(c, pred, out)
    return out


def subst_ir(s, m):
    """replace refs (and by-name callees) by expressions; lambda parameters shadow"""
    if isinstance(s, tuple):
        if s and s[0] == "ref" and s[1] in m:
            return m[s[1]]
        if s and s[0] == "call" and isinstance(s[1], str) and s[1] in m:
            f = m[s[1]]
            args = [subst_ir(a, m) for a in s[2]]
            if f[0] == "ref":
                return ("call", f[1], args)                 # a callable parameter bound to a named function
            return ("call", f, args)
        if s and s[0] == "lambda":
            inner = {k: v for k, v in m.items() if k not in set(s[1])}
            return ("lambda", s[1], subst_ir(s[2], inner))
        return tuple(subst_ir(x, m) for x in s)
    if isinstance(s, list):
        return [subst_ir(x, m) for x in s]
    return s


def _pure_arg(e) -> bool:
    if not isinstance(e, tuple) or not e:
        return False
    if e[0] in ("ref", "num", "this"):
        return True
    if e[0] == "field":
        return _pure_arg(e[1])
    if e[0] == "bin" and e[1] in ("+", "-", "*", "/"):
        return _pure_arg(e[2]) and _pure_arg(e[3])           # arithmetic on names: no effects, same value wherever it is evaluated in the call
    if e[0] == "un" and e[1] in ("-", "+"):
        return _pure_arg(e[2])
    return False


def resolve_constexpr(stmts):
    out = []
    for x in stmts:
        if x[0] == "if" and x[4] is not None:
            out.extend(resolve_constexpr(x[2] if x[4] else x[3]))
        elif x[0] == "static_assert":
            continue
        else:
            out.append(x)
    return out


def single_return(body):
    """the expression of a lambda / helper body that is one `return E` once the instantiation's constexpr-ifs are resolved, else None"""
    b = resolve_constexpr(body)
    if len(b) == 1 and b[0][0] == "return" and b[0][1] is not None:
        return b[0][1]
    return None


def reduce_immediate(x):
    """`(lambda(ps){ return E; })(args)` with pure arguments -> E[ps := args], everywhere in x"""
    if isinstance(x, list):
        return [reduce_immediate(y) for y in x]
    if not isinstance(x, tuple) or not x:
        return x
    x = tuple(reduce_immediate(y) for y in x)
    if x[0] == "call" and isinstance(x[1], tuple) and x[1] and x[1][0] == "lambda":
        E = single_return(x[1][2])
        if E is not None and len(x[1][1]) == len(x[2]) and all(_pure_arg(a) for a in x[2]):
            return reduce_immediate(subst_ir(E, dict(zip(x[1][1], x[2]))))
    return x


def beta_ir(stmts):
    """a local bound once to a lambda whose body is one `return E` and that is only ever called: `f(a)` becomes E[p := a] (arguments are names /
    fields / literals, so evaluating them where the parameter stood is the same computation); the binding is dropped"""
    lams = {}
    for s in stmts:
        if s[0] == "decl" and isinstance(s[2], tuple) and s[2] and s[2][0] == "lambda" and single_return(s[2][2]) is not None and "const" in (s[3] or ""):
            lams[s[1]] = s[2]
    if not lams:
        return stmts
    state = {"other": set()}

    def rw(x):
        if isinstance(x, list):
            return [rw(y) for y in x]
        if not isinstance(x, tuple) or not x:
            return x
        if x[0] in ("mcall",) and x[2] == "()" and x[1][0] == "ref" and x[1][1] in lams:
            L = lams[x[1][1]]
            args = [rw(a) for a in x[3]]
            if len(args) == len(L[1]) and all(_pure_arg(a) for a in args):
                return rw(subst_ir(single_return(L[2]), dict(zip(L[1], args))))
            state["other"].add(x[1][1])
            return ("mcall", x[1], x[2], args)
        if x[0] == "call" and isinstance(x[1], str) and x[1] in lams:
            L = lams[x[1]]
            args = [rw(a) for a in x[2]]
            if len(args) == len(L[1]) and all(_pure_arg(a) for a in args):
                return rw(subst_ir(single_return(L[2]), dict(zip(L[1], args))))
            state["other"].add(x[1])
            return ("call", x[1], args)
        if x[0] == "ref" and x[1] in lams:
            state["other"].add(x[1])
            return x
        if x[0] == "decl" and x[1] in lams and x[2] is lams[x[1]]:
            return x
        return tuple(rw(y) for y in x)
    out = [rw(s) for s in stmts]
    return [s for s in out if not (s[0] == "decl" and s[1] in lams and s[1] not in state["other"] and s[2] is lams[s[1]])]


def _mentions(x, name) -> bool:
    if isinstance(x, tuple):
        if len(x) == 2 and x[0] == "ref" and x[1] == name:
            return True
        return any(_mentions(y, name) for y in x)
    if isinstance(x, list):
        return any(_mentions(y, name) for y in x)
    return False


def index_loops(stmts):
    """INDEX-LOOP: `for (i = 0; i < X.size(); ++i) { T& e = X[i]; S }` with i used nowhere else in S (the bound possibly held in a const local
    declared just before) is `for (T& e : X) S` -- the same elements in the same order"""
    out = []
    sizes = {}
    for st in stmts:
        if st[0] == "decl" and isinstance(st[2], tuple) and st[2] and st[2][0] == "mcall" and st[2][2] == "size" and not st[2][3] and "const" in (st[3] or ""):
            sizes[st[1]] = st[2][1]
        if st[0] == "for" and len(st[1]) == 1 and st[1][0][0] == "decl" and st[1][0][2] in (("num", "0"), ("num", 0)) and st[2] is not None and st[3] is not None:
            i = st[1][0][1]
            cond, inc, body = st[2], st[3], st[4]
            bound = None
            if cond[0] == "bin" and cond[1] == "<" and cond[2] == ("ref", i):
                b = cond[3]
                if b[0] == "mcall" and b[2] == "size" and not b[3]:
                    bound = b[1]
                elif b[0] == "ref" and b[1] in sizes:
                    bound = sizes[b[1]]
            inc_ok = inc[0] == "un" and inc[1] in ("++", "post++", "pre++") and inc[2] == ("ref", i)
            if bound is not None and inc_ok and body and body[0][0] == "decl" and body[0][2] == ("bin", "[]", bound, ("ref", i)) \
                    and not _mentions(body[1:], i) and not _mentions(body[1:], "break"):
                out.append(("rangefor", body[0][1], bound, index_loops(body[1:])))
                continue
        if st[0] in ("if",):
            st = ("if", st[1], index_loops(st[2]), index_loops(st[3]), st[4])
        elif st[0] in ("for", "rangefor", "while") and isinstance(st[-1], list):
            st = st[:-1] + (index_loops(st[-1]),)
        out.append(st)
    # a size local only the rewritten loop used is dead
    used_sizes = {k for k in sizes if _mentions([x for x in out if not (x[0] == "decl" and x[1] == k)], k)}
    return [x for x in out if not (x[0] == "decl" and x[1] in sizes and x[1] not in used_sizes)]


def body_of(fn_decl) -> Optional[List[Any]]:
    for c in kids(fn_decl):
        if c["kind"] == "CompoundStmt":
            return index_loops(beta_ir(lower_block(c)))
    return None


def params_of(fn_decl):
    return [(p.get("name"), p.get("type", {}).get("qualType", "")) for p in kids(fn_decl) if p["kind"] == "ParmVarDecl"]


def show(e) -> str:
    """compact text of an IR expression (for reports)"""
    k = e[0]
    if k == "num":
        return str(e[1])
    if k == "ref":
        return e[1]
    if k == "this":
        return "this"
    if k == "field":
        b = show(e[1])
        return e[2] if b == "this" else f"{b}.{e[2]}"
    if k == "call":
        f = e[1] if isinstance(e[1], str) else show(e[1])
        return f"{f}({', '.join(show(a) for a in e[2])})"
    if k == "mcall":
        return f"{show(e[1])}.{e[2]}({', '.join(show(a) for a in e[3])})"
    if k == "bin":
        return f"({show(e[2])} {e[1]} {show(e[3])})"
    if k == "un":
        return f"{e[1]}{show(e[2])}"
    if k == "init":
        return "{" + ", ".join(show(a) for a in e[2]) + "}"
    if k == "lambda":
        return f"[lambda({', '.join(e[1])})]"
    if k == "cond":
        return f"({show(e[1])} ? {show(e[2])} : {show(e[3])})"
    return f"<{e[1]}>"
