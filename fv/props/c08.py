"""C08 -- common-subexpression elimination never changes a result.

Decided: the temporaries protocol of both back-ends (TMP-1..TMP-4, TRUST-SIG; see fv/tmprules.py).  With the
protocol in place, CSE on/off equivalence reduces to sympy's contract for cse() and simplify() (trusted base):
every temporary is bound exactly once, before its first use, from inputs and earlier temporaries only.
"""
from .. import core, tmprules

META = dict(level="other",
            trusted_base=["sympy.cse returns replacements in dependency order, each using only earlier ones, with fresh names",
                          "sympy.simplify / lambdify / ccode are value-preserving when called with their default contract"],
            assumptions=["a generated C++ `double x = e;` binds x once (C++ semantics)"])


def run(ctx: core.Ctx) -> int:
    ctx.rule("TMP-1", "python prefix entry i = (T[i], lambdify(ARGS + T[:i], P[i].expr)); body entries lambdify(ARGS + T, b)")
    ctx.rule("TMP-2", "python execute: prefix in list order, stored under str(own symbol), passed by keyword to later entries and to every body callable")
    ctx.rule("TMP-3", "cpp compile: every replacement declared once as double, in cse order, before the first target; targets re-zipped in order")
    ctx.rule("TMP-4", "the CSE flag gates only cse() and simplify()")
    ctx.rule("TRUST-SIG", "cse / simplify / lambdify / ccode are called with the trusted signatures only")
    py = ctx.parse("py/formak/python.py")
    cp = ctx.parse("py/formak/cpp.py")
    from . import c06 as _c06
    _c06.config_pass(ctx)
    tmprules.check_python_block(ctx, py)
    tmprules.check_cpp_block(ctx, cp)
    return core.finish(ctx, explanation="symbolic evaluation of the two BasicBlock classes against the temporaries protocol, "
                                        "for both settings of the CSE flag", **META)
