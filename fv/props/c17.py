"""C17 -- estimator parameters round-trip; fitting only retunes noise.

Decided (table agreement, branch structure, writer/reader agreement of the scoring vector via the E2 iteration inventory,
must-pass-through and guard-dominance queries):
  TABLES     allowed_keys == keys of get_params()'s dict == keyword parameters of __init__ == keys passed by Create; get_params[k] reads
             self.k; __init__ stores every parameter unmodified under its own name (sklearn's clone contract)
  SET-PARAMS per key: allowed key -> setattr(self, key, value); Config field -> self.config rebuilt from asdict(self.config) *taken in that
             iteration* with exactly that key replaced; anything else -> raise ModelConstructionError
  VECTOR     writer (_flatten_scoring_params) and reader (_inverse_flatten_scoring_params) enumerate the same ordered segments
             [controls sorted by name] + for sensors in sorted key order [reading keys sorted]; the reader consumes prefixes of exactly those
             sizes; the reader changes only process_noise and sensor_noises; process noise passes through nearest_positive_definite,
             which floors diagonal entries at a positive constant
  FIT        MinimizationFailure is raised when the optimiser fails, before the final set_params; the final parameters come from the
             reader applied to the optimiser's result; pre-conditions only refuse None (an empty noise map of a control-free model is valid)
Not decided: finiteness of the optimum; other exceptions escaping fit for some data.
"""
import ast

from .. import core, scenarios
from ..interp import Env, FuncV
from ..values import *  # noqa

META = dict(level="other", trusted_base=["sklearn.base.clone uses get_params / __init__", "dataclasses.asdict / Config(**dict)"],
            assumptions=["estimators are created with an explicit Config (the property's quantifier)"])
F = "py/formak/python.py"
CLS = "SklearnEKFAdapter"
KEYS = ["symbolic_model", "process_noise", "sensor_models", "sensor_noises", "calibration_map", "config"]


def run(ctx: core.Ctx) -> int:
    for rid, t in (("TABLES", "the four parameter tables agree; parameters stored unmodified"), ("SET-PARAMS", "allowed -> setattr; config field -> fresh asdict rebuild; else raise"),
                   ("VECTOR", "scoring vector writer == reader; only noise changes; process noise floored positive"),
                   ("FIT", "failure raises before the final set_params; only None is refused")):
        ctx.rule(rid, t)
    prog = scenarios.program(ctx)
    mod = prog.modules["python"]
    cls = core.need(core.find_class(mod, CLS), f"python.{CLS}")
    q = lambda n: f"{CLS}.{n}"
    # ---------------------------------------------------------------- TABLES
    ak = None
    for s in cls.body:
        if isinstance(s, ast.Assign) and ast.unparse(s.targets[0]) == "allowed_keys" and isinstance(s.value, (ast.List, ast.Tuple)):
            ak = [e.value for e in s.value.elts if isinstance(e, ast.Constant)]
    init = core.need(core.find_func(cls, "__init__"), q("__init__"))
    gp = core.need(core.find_func(cls, "get_params"), q("get_params"))
    cr = core.need(core.find_func(cls, "Create"), q("Create"))
    init_params = [a.arg for a in init.args.args if a.arg != "self"] + [a.arg for a in init.args.kwonlyargs]
    gp_dict = next((r.value for r in ast.walk(gp) if isinstance(r, ast.Return) and isinstance(r.value, ast.Dict)), None)
    gp_keys = [k.value for k in gp_dict.keys] if gp_dict is not None else None
    if gp_dict is None:
        # {k: getattr(self, k) for k in self.allowed_keys}: the table is allowed_keys itself and every entry reads its own attribute
        dc = next((r.value for r in ast.walk(gp) if isinstance(r, ast.Return) and isinstance(r.value, ast.DictComp)), None)
        if dc is not None and len(dc.generators) == 1 and isinstance(dc.generators[0].target, ast.Name):
            kv = dc.generators[0].target.id
            if ast.unparse(dc.generators[0].iter) in ("self.allowed_keys", "cls.allowed_keys", f"{CLS}.allowed_keys") and ast.unparse(dc.key) == kv \
                    and ast.unparse(dc.value).replace(" ", "") == f"getattr(self,{kv})" and not dc.generators[0].ifs:
                gp_keys = list(ak or [])
        if gp_keys is None:
            # dict(zip(K, attrgetter(*K)(self))) with K the allowed_keys table (>= 2 names, so attrgetter returns a tuple): the same table;
            # read on the normalised method (a private helper that builds it is inlined, the getter bound to a local is read through)
            from .. import normast as _nmg, astpat as _ap
            gpn = _nmg.Normaliser(_nmg.class_resolver(mod, cls)).function(gp)
            RAg = _ap.resolver(gpn)[0]
            for r in ast.walk(gpn):
                if isinstance(r, ast.Return) and r.value is not None:
                    v = RAg(r.value)
                    txt = ast.unparse(v).replace(" ", "")
                    for K in ("self.allowed_keys", "cls.allowed_keys", f"{CLS}.allowed_keys"):
                        if txt in (f"dict(zip({K},attrgetter(*{K})(self)))", f"dict(zip({K},operator.attrgetter(*{K})(self)))") and ak and len(ak) >= 2:
                            gp_keys = list(ak)
                    if isinstance(v, ast.DictComp) and len(v.generators) == 1 and isinstance(v.generators[0].target, ast.Name) and not v.generators[0].ifs:
                        kv = v.generators[0].target.id
                        if ast.unparse(v.generators[0].iter) in ("self.allowed_keys", "cls.allowed_keys", f"{CLS}.allowed_keys") and ast.unparse(v.key) == kv \
                                and ast.unparse(v.value).replace(" ", "") == f"getattr(self,{kv})":
                            gp_keys = list(ak or [])
                    if isinstance(v, ast.Dict) and all(isinstance(k_, ast.Constant) for k_ in v.keys):
                        gp_dict = v
                        gp_keys = [k_.value for k_ in v.keys]
        if gp_keys is None:
            ctx.error(f"{F}:{q('get_params')}: the returned table is neither a dict literal nor {{k: getattr(self, k) for k in self.allowed_keys}}")
            gp_keys = list(ak or [])
    cr_dict = next((s.value for s in ast.walk(cr) if isinstance(s, ast.Assign) and isinstance(s.value, ast.Dict)), None)
    if cr_dict is None:
        # cls(**{...})
        cr_dict = next((k.value for c in ast.walk(cr) if isinstance(c, ast.Call) and ast.unparse(c.func) in ("cls", CLS) and not c.args and len(c.keywords) == 1
                        for k in c.keywords if k.arg is None and isinstance(k.value, ast.Dict)), None)
    cr_keys = [k.value for k in cr_dict.keys] if cr_dict is not None else None
    cr_call = None
    if cr_dict is None:
        cr_call = next((c for c in ast.walk(cr) if isinstance(c, ast.Call) and ast.unparse(c.func) in ("cls", CLS) and c.keywords and not c.args), None)
        if cr_call is not None and all(k.arg for k in cr_call.keywords):
            cr_keys = [k.arg for k in cr_call.keywords]
            for k in cr_call.keywords:
                ctx.oblige("TABLES", f"{F}:{q('Create')}", f"Create passes {k.arg}={ast.unparse(k.value)}", ast.unparse(k.value) == k.arg, file=F, func=q("Create"),
                           construct=f"Create {k.arg}", msg=f"Create passes {ast.unparse(k.value)} as '{k.arg}'")
        else:
            ctx.error(f"{F}:{q('Create')}: how Create passes its parameters to the constructor is not an enumerated idiom")
            cr_keys = list(ak or [])
    tables = {"allowed_keys": ak, "__init__ parameters": init_params, "get_params keys": gp_keys, "Create keys": cr_keys}
    ref = set(ak or [])
    for name, t in tables.items():
        ctx.oblige("TABLES", f"{F}:{CLS}", f"{name} = {t}", t is not None and set(t) == ref and len(t) == len(ref), file=F, func=CLS, construct=f"table {name}",
                   msg=f"{name} = {t} differs from allowed_keys = {ak}")
    if gp_dict is not None:
        for k, v in zip(gp_dict.keys, gp_dict.values):
            ctx.oblige("TABLES", f"{F}:{q('get_params')}", f"get_params[{k.value!r}] = {ast.unparse(v)}", ast.unparse(v) == f"self.{k.value}", file=F,
                       func=q("get_params"), construct=f"get_params {k.value}", msg=f"get_params reports {ast.unparse(v)} under '{k.value}'")
    stores = {ast.unparse(s.targets[0]): ast.unparse(s.value) for s in init.body if isinstance(s, ast.Assign)}
    for p in init_params:
        ctx.oblige("TABLES", f"{F}:{q('__init__')}", f"self.{p} = {stores.get('self.' + p)}", stores.get("self." + p) == p, file=F, func=q("__init__"),
                   construct=f"__init__ {p}", msg=f"__init__ stores `{stores.get('self.' + p)}` under self.{p} (sklearn clone requires the parameter itself)")
    if cr_dict is not None:
        for k, v in zip(cr_dict.keys, cr_dict.values):
            ctx.oblige("TABLES", f"{F}:{q('Create')}", f"Create[{k.value!r}] = {ast.unparse(v)}", ast.unparse(v) == k.value, file=F, func=q("Create"),
                       construct=f"Create {k.value}", msg=f"Create passes {ast.unparse(v)} as '{k.value}'")
    set_params_rule(ctx, cls, ctx.parse(F))
    config_verbatim(ctx, "SET-PARAMS")
    input_pure(ctx, mod)
    # ---------------------------------------------------------------- VECTOR (E2 iteration inventory of writer and reader)
    sc = scenarios.PyEKF(ctx, prog, run=())
    it = sc.it
    adapter = ObjV(CLS, {"__module__": "python", "symbolic_model": ModelV(), "process_noise": MapV("process_noise", "CONTROL"),
                         "sensor_noises": MapV("sensor_noises", "SENSOR"), "sensor_models": MapV("sensor_models", "SENSOR"),
                         "calibration_map": MapV("calibration_map", "CALIB"), "config": ConfigV(), "allowed_keys": Unknown("allowed_keys")})
    inv = {}
    for name in ("_flatten_scoring_params", "_inverse_flatten_scoring_params"):
        fn = core.need(core.find_func(cls, name), q(name))
        ctx.functions.append(f"python.{CLS}.{name}")
        n0 = len(it.iterations)
        it.call_func(FuncV(fn, "python", adapter, CLS), [], {"flattened": Unknown("vector")} if name.startswith("_inverse") else {}, Env("python"), fn)
        segs = []
        for i in it.iterations[n0:]:
            if i["func"] != f"{CLS}.{name}":
                continue
            lay = it.layout_of_iter(i["source"])
            segs.append((repr(lay) if lay is not None else f"UNORDERED({i['iter']})", i["line"], i["iter"]))
        inv[name] = segs
    w = [s[0] for s in inv["_flatten_scoring_params"]]
    r = [s[0] for s in inv["_inverse_flatten_scoring_params"] if "allowed_keys" not in s[2]]
    want = ["[Sorted(SENSOR,natural)]"]
    ctx.oblige("VECTOR", f"{F}:{CLS}", f"writer sensor order {w}; reader {r}", w == r == want, file=F, func=q("_inverse_flatten_scoring_params"),
               construct="sensor order writer/reader", msg=f"the scoring vector is written with sensor order {w} and read back with {r}; both must be sorted key order")
    # segment layouts and prefix consumption, decided on the normalised functions (private helpers inlined; names found by role, definitions resolved)
    from .. import normast
    import copy as _copy
    CTL_SORTED = {"sorted(list(self.symbolic_model.control),key=lambdax:x.name)", "sorted(self.symbolic_model.control,key=lambdax:x.name)"}

    def resolver(fn, keep):
        defs = {}
        for a in ast.walk(fn):
            if isinstance(a, ast.Assign) and len(a.targets) == 1 and isinstance(a.targets[0], ast.Name):
                defs.setdefault(a.targets[0].id, []).append(a.value)

        def RA(e, depth=0):
            class T(ast.NodeTransformer):
                def visit_Name(self, n):
                    if isinstance(n.ctx, ast.Load) and n.id not in keep and len(defs.get(n.id, [])) == 1 and depth < 5:
                        return RA(defs[n.id][0], depth + 1)
                    return n

                def visit_Lambda(self, n):
                    return n
            return T().visit(_copy.deepcopy(e))

        def R(e):
            return ast.unparse(RA(e)).replace(" ", "")
        return R
    nfn = {}
    for name in ("_flatten_scoring_params", "_inverse_flatten_scoring_params"):
        nfn[name] = normast.Normaliser(normast.class_resolver(mod, cls, exclude={"_flatten_dict_diagonal", "_inverse_flatten_dict_diagonal"}, module_funcs="small")).function(
            core.find_func(cls, name))
    # ---- writer: process noise over the name-sorted controls first, then every sensor's noise over its sorted reading keys
    wfn = nfn["_flatten_scoring_params"]
    wloop = next((s_ for s_ in wfn.body if isinstance(s_, ast.For)), None)
    wkeep = set()
    if wloop is not None:
        wkeep = {n.id for n in ast.walk(wloop.target) if isinstance(n, ast.Name)}
    RW = resolver(wfn, wkeep)
    calls_w = [c for c in ast.walk(wfn) if isinstance(c, ast.Call) and ast.unparse(c.func) == "self._flatten_dict_diagonal" and len(c.args) == 2]
    top_w = [c for c in calls_w if wloop is None or c not in list(ast.walk(wloop))]
    in_w = [c for c in calls_w if wloop is not None and c in list(ast.walk(wloop))]
    okc = len(top_w) == 1 and RW(top_w[0].args[0]) == "self.process_noise" and RW(top_w[0].args[1]) in CTL_SORTED
    ctx.oblige("VECTOR", f"{F}:{q('_flatten_scoring_params')}", f"control segment = {[RW(c.args[1])[:70] for c in top_w]}", okc, file=F, func=q("_flatten_scoring_params"),
               construct="control segment order", msg=f"_flatten_scoring_params orders the control segment by {[RW(c.args[1])[:80] for c in top_w]}; the filter's control layout "
               f"is the controls sorted by name, taken from the estimator's current symbolic_model")
    mvar = None
    if wloop is not None and isinstance(wloop.target, ast.Tuple) and len(wloop.target.elts) == 2 and isinstance(wloop.target.elts[1], ast.Name):
        mvar = wloop.target.elts[1].id
    okr = len(in_w) == 1 and mvar is not None and RW(in_w[0].args[0]) == mvar and RW(in_w[0].args[1]) in (f"sorted(list({mvar}.keys()))", f"sorted({mvar}.keys())", f"sorted({mvar})", f"sorted(list({mvar}))")
    ctx.oblige("VECTOR", f"{F}:{q('_flatten_scoring_params')}", f"reading segment = {[RW(c.args[1])[:60] for c in in_w]}", okr, file=F, func=q("_flatten_scoring_params"),
               construct="reading segment order", msg=f"_flatten_scoring_params orders a sensor's segment by {[RW(c.args[1])[:60] for c in in_w]}; required that sensor's sorted reading keys")
    # ---- reader
    rfn = nfn["_inverse_flatten_scoring_params"]
    Fv = next((a.arg for a in rfn.args.args if a.arg != "self"), "flattened")
    rloop = next((s_ for s_ in rfn.body if isinstance(s_, ast.For) and "sensor_noises" in ast.unparse(s_.iter)), None)
    rkeep = {Fv} | ({n.id for n in ast.walk(rloop.target) if isinstance(n, ast.Name)} if rloop is not None else set())
    RR = resolver(rfn, rkeep)

    def consumption(stmts):
        """(taken name, size text) for `X = F[:n]` followed by `F = F[n:]` among the given statements"""
        take = rest = None
        for s_ in stmts:
            if isinstance(s_, ast.Assign) and len(s_.targets) == 1 and isinstance(s_.targets[0], ast.Name) and isinstance(s_.value, ast.Subscript) \
                    and ast.unparse(s_.value.value) == Fv and isinstance(s_.value.slice, ast.Slice):
                sl = s_.value.slice
                if sl.lower is None and sl.upper is not None and sl.step is None and s_.targets[0].id != Fv:
                    take = (s_.targets[0].id, RR(sl.upper))
                elif sl.upper is None and sl.lower is not None and sl.step is None and s_.targets[0].id == Fv:
                    rest = RR(sl.lower)
        return take, rest
    top_stmts = [s_ for s_ in rfn.body if s_ is not rloop]
    tk, rs = consumption(top_stmts)
    sizes_c = {"len(self.symbolic_model.control)"} | {f"len({c})" for c in CTL_SORTED}
    ok_c = tk is not None and rs is not None and tk[1] == rs and tk[1] in sizes_c
    ok_s = False
    kvar = mvar_r = None
    tk2 = None
    if rloop is not None and isinstance(rloop.target, ast.Tuple) and len(rloop.target.elts) == 2 and all(isinstance(e, ast.Name) for e in rloop.target.elts):
        kvar, mvar_r = rloop.target.elts[0].id, rloop.target.elts[1].id
        tk2, rs2 = consumption(rloop.body)
        sizes_s = {f"len({mvar_r})", f"len(sorted(list({mvar_r}.keys())))", f"len({mvar_r}.keys())", f"len(sorted({mvar_r}))"}
        ok_s = tk2 is not None and rs2 is not None and tk2[1] == rs2 and tk2[1] in sizes_s
    ctx.oblige("VECTOR", f"{F}:{q('_inverse_flatten_scoring_params')}", f"reader consumes prefixes {tk} then per sensor {tk2}", ok_c and ok_s, file=F,
               func=q("_inverse_flatten_scoring_params"), construct="prefix consumption",
               msg="the reader does not consume the control prefix (len(controls)) and then each sensor's prefix (len(its noise map)) with the remainder threaded")
    stores = {}
    for s_ in ast.walk(rfn):
        if isinstance(s_, ast.Assign) and len(s_.targets) == 1 and isinstance(s_.targets[0], ast.Subscript):
            stores.setdefault(ast.unparse(s_.targets[0]).replace(" ", ""), []).append(s_.value)
    pvar = next((k.split("[")[0] for k in stores if k.endswith("['process_noise']")), "params")
    changed = sorted(k for k in stores if k.startswith(pvar + "["))
    okch = set(c.split("]")[0] + "]" for c in changed) == {f"{pvar}['process_noise']", f"{pvar}['sensor_noises']"}
    ctx.oblige("VECTOR", f"{F}:{q('_inverse_flatten_scoring_params')}", f"reader changes {changed}", okch, file=F, func=q("_inverse_flatten_scoring_params"),
               construct="changed keys", msg=f"the reader changes {changed}; fitting may retune only process_noise and sensor_noises")
    pn = [RR(v) for v in stores.get(f"{pvar}['process_noise']", [])]
    okpd = len(pn) == 1 and tk is not None and any(pn[0] == f"nearest_positive_definite(dict(self._inverse_flatten_dict_diagonal({a1},{c})))"
                                                    for c in CTL_SORTED for a1 in (tk[0], f"{Fv}[:{tk[1]}]"))
    ctx.oblige("VECTOR", f"{F}:{q('_inverse_flatten_scoring_params')}", f"process_noise = {pn}", okpd, file=F, func=q("_inverse_flatten_scoring_params"),
               construct="positive floor", msg=f"the fitted process noise is rebuilt as {pn}: it must be the control prefix read back over the name-sorted controls of the current "
               f"model and passed through nearest_positive_definite")
    sn = [RR(v) for v in stores.get(f"{pvar}['sensor_noises'][{kvar}]", [])]
    oksn = tk2 is not None and mvar_r is not None and len(sn) == 1 and any(
        sn[0] == f"dict(self._inverse_flatten_dict_diagonal({a1},{srt}))" for a1 in (tk2[0], f"{Fv}[:{tk2[1]}]")
        for srt in (f"sorted(list({mvar_r}.keys()))", f"sorted({mvar_r}.keys())", f"sorted({mvar_r})", f"sorted(list({mvar_r}))"))
    ctx.oblige("VECTOR", f"{F}:{q('_inverse_flatten_scoring_params')}", f"sensor_noises[key] = {sn}", oksn, file=F, func=q("_inverse_flatten_scoring_params"),
               construct="sensor noise rebuild", msg=f"fitted sensor noise rebuilt as {sn}")
    # ---- STALE: nothing on the writer / reader path reads the previously compiled filter (self.model_ belongs to the parameters of an earlier call)
    ctx.rule("STALE", "the scoring-vector layout is taken from the estimator's current parameters, never from the compiled filter of an earlier call")
    reach, todo = set(), ["_flatten_scoring_params", "_inverse_flatten_scoring_params"]
    while todo:
        nm = todo.pop()
        if nm in reach:
            continue
        reach.add(nm)
        f_ = core.find_func(cls, nm)
        if f_ is None:
            continue
        for c in ast.walk(f_):
            if isinstance(c, ast.Call) and isinstance(c.func, ast.Attribute) and isinstance(c.func.value, ast.Name) and c.func.value.id == "self":
                todo.append(c.func.attr)
    stale = []
    for nm in sorted(reach):
        f_ = core.find_func(cls, nm)
        for a in ast.walk(f_) if f_ is not None else []:
            if isinstance(a, ast.Attribute) and a.attr == "model_" and isinstance(a.value, ast.Name) and a.value.id == "self" and isinstance(a.ctx, ast.Load):
                stale.append((nm, a.lineno))
            if isinstance(a, ast.Call) and isinstance(a.func, ast.Name) and a.func.id in ("hasattr", "getattr") and len(a.args) >= 2 \
                    and isinstance(a.args[1], ast.Constant) and a.args[1].value == "model_":
                stale.append((nm, a.lineno))
    ctx.oblige("STALE", f"{F}:{CLS}", f"{len(stale)} read(s) of self.model_ on the scoring-vector path {sorted(reach)}", not stale, file=F, func=q("fit"),
               construct="stale model_:" + ";".join(n_ for n_, _ in stale),
               msg="the scoring vector is laid out from `self.model_` -- the filter compiled by an earlier transform / score / fit call -- in "
                   + ", ".join(f"{n_} (line {l_})" for n_, l_ in stale) + ": after set_params changes the model, fit flattens and rebuilds the noise maps with the previous "
                   "model's controls", line=stale[0][1] if stale else None)
    # nearest_positive_definite floors the diagonal at a positive constant (names found by role)
    npd, _moved = core.find_func_imported(ctx, mod, "nearest_positive_definite")
    npd = core.need(npd, "python.nearest_positive_definite")
    consts = {}
    for s_ in ast.walk(npd):
        if isinstance(s_, ast.Assign) and len(s_.targets) == 1 and isinstance(s_.targets[0], ast.Name) and isinstance(s_.value, ast.Constant) \
                and isinstance(s_.value.value, float) and s_.value.value > 0:
            consts[s_.targets[0].id] = s_.value.value
    mx = [c for c in ast.walk(npd) if isinstance(c, ast.Call) and isinstance(c.func, ast.Name) and c.func.id == "max" and len(c.args) == 2]
    okn = any(any((isinstance(a, ast.Name) and a.id in consts) or (isinstance(a, ast.Constant) and isinstance(a.value, float) and a.value > 0) for a in c.args) for c in mx)
    ctx.oblige("VECTOR", f"{F}:nearest_positive_definite", "diagonal entries floored at a positive constant", okn, file=F, func="nearest_positive_definite",
               construct="floor", msg="nearest_positive_definite does not floor diagonal entries at a positive constant")
    # ---------------------------------------------------------------- FIT
    fit = core.need(core.find_func(cls, "fit"), q("fit"))
    where = f"{F}:{q('fit')}"
    fit = normast.Normaliser(None).function(fit)                # guard clauses / swapped arms normalised; no inlining (minimize_this is a closure)
    swallowed = []

    def lin(stmts):
        """the statements in the order a normal run executes them: try bodies, their else / finally parts and with bodies are part of the sequence"""
        out = []
        for s_ in stmts:
            if isinstance(s_, ast.Try):
                for h in s_.handlers:
                    catches = h.type is None or any(n_ in ast.unparse(h.type) for n_ in ("Exception", "BaseException", "MinimizationFailure"))
                    if catches and not (h.body and isinstance(h.body[-1], ast.Raise)):
                        swallowed.append(h.lineno)
                out += lin(s_.body) + lin(s_.orelse) + lin(s_.finalbody)
            elif isinstance(s_, ast.With):
                out += lin(s_.body)
            else:
                out.append(s_)
        return out
    body = lin(fit.body)
    ctx.oblige("FIT", where, f"{len(swallowed)} handler(s) around the optimisation that swallow its failure", not swallowed, file=F, func=q("fit"), construct="failure swallowed",
               msg=f"an exception handler in fit (line {swallowed[0] if swallowed else '?'}) catches the optimiser's failure without re-raising it")
    fit_param_integrity(ctx, cls, fit, "FIT")
    # the optimiser's result: whatever name `minimize(...)` is assigned to
    RN = next((s_.targets[0].id for s_ in body if isinstance(s_, ast.Assign) and len(s_.targets) == 1 and isinstance(s_.targets[0], ast.Name)
               and isinstance(s_.value, ast.Call) and ast.unparse(s_.value.func).split(".")[-1] == "minimize"), "result")
    idx_raise = next((i for i, s in enumerate(body) if isinstance(s, ast.If) and ast.unparse(s.test).replace(" ", "") in (f"not{RN}.success", f"{RN}.success==False", f"{RN}.successisFalse")
                      and any(isinstance(b, ast.Raise) and "MinimizationFailure" in ast.unparse(b) for b in s.body)), None)
    finals = [i for i, s in enumerate(body) if isinstance(s, ast.Expr) and ast.unparse(s.value).startswith("self.set_params(")]
    ctx.oblige("FIT", where, "not result.success -> raise MinimizationFailure before the final set_params", idx_raise is not None and finals and idx_raise < finals[-1],
               file=F, func=q("fit"), construct="failure guard", msg="the final parameters are set even when the optimiser reports failure")
    from .. import normstmt as _ns
    _al = _ns.Aliases(fit, linear_calls=True)
    okf = bool(finals) and _al.text(body[finals[-1]].value) == f"self.set_params(**self._inverse_flatten_scoring_params({RN}.x))"
    ctx.oblige("FIT", where, "final parameters = reader(result.x)", bool(okf), file=F, func=q("fit"), construct="final params",
               msg="the fitted estimator's parameters are not the reader applied to the optimiser's result")
    # pre-conditions: only `is not None`
    bad = []
    for s in body[: (idx_raise or len(body))]:
        for n in ast.walk(s):
            t = None
            if isinstance(n, ast.Assert):
                t = n.test
            elif isinstance(n, ast.If) and any(isinstance(b, ast.Raise) for b in n.body):
                t = n.test
            if t is None or RN in {x.id for x in ast.walk(t) if isinstance(x, ast.Name)}:
                continue
            txt = ast.unparse(t)
            ok = isinstance(t, ast.Compare) and len(t.ops) == 1 and isinstance(t.ops[0], (ast.IsNot, ast.Is)) and ast.unparse(t.comparators[0]) == "None"
            if not ok:
                bad.append(txt)
    ctx.oblige("FIT", where, "pre-conditions refuse only None", not bad, file=F, func=q("fit"), construct="preconditions:" + ";".join(bad),
               msg=f"fit refuses parameters by truthiness / other tests ({bad}): an empty noise map of a model without controls is a valid parameter")
    # fit -> score -> transform reads the filter's records after every update: they are refreshed on every sensor_model call (else a rejected
    # first reading makes fit escape with KeyError instead of the library's minimisation error)
    ctx.rule("RECORDS", "sensor_model writes both records unconditionally before any return (shared with C16)")
    scr = scenarios.PyEKF(ctx, prog, run=("sensor_model",))
    evs = scenarios.events_of(scr.it, "ExtendedKalmanFilter.sensor_model")
    first_ret = min((e["seq"] for e in evs if e["kind"] == "return"), default=None)
    for nm in ("innovations", "sensor_prediction_uncertainty"):
        st = [e for e in evs if e["kind"] == "store" and f"self.{nm}[" in e.get("target", "")]
        okr = bool(st) and all(not e["rpath"] for e in st) and first_ret is not None and all(e["seq"] < first_ret for e in st)
        ctx.oblige("RECORDS", f"{F}:ExtendedKalmanFilter.sensor_model", f"self.{nm}[key] stored unconditionally before the first return", okr, file=F,
                   func="ExtendedKalmanFilter.sensor_model", construct=f"record {nm}",
                   msg=f"sensor_model does not refresh self.{nm}[sensor_key] on every call: when a sensor's first reading is rejected, transform (and so "
                       f"score and fit) fails with KeyError instead of MinimizationFailure")
    return core.finish(ctx, explanation="table agreement, branch-structure and def-use rules on SklearnEKFAdapter; E2 iteration inventory for the "
                                        "scoring-vector writer/reader", **META)


def config_verbatim(ctx: core.Ctx, rule: str):
    """CONFIG-FIELDS: python.Config stores the values it is given.  It is a dataclass whose fields are written by the generated __init__ only: no
    hand-written __init__ / __new__ / __setattr__ / __getattribute__ / __getattr__, no property shadowing a field, and no method (notably
    __post_init__) that writes a field through object.__setattr__ / setattr / __dict__.  A normalising constructor makes `set_params(x=v)` store
    something other than v, and makes a grid candidate reach the filter as a different value.  (A __post_init__ that only validates is fine.)"""
    mod = ctx.parse(F)
    cfg = core.find_class(mod, "Config")
    if cfg is None:
        ctx.error(f"anchor missing: {F}:Config")
        return
    is_dc = any("dataclass" in ast.unparse(d) for d in cfg.decorator_list)
    fields = [st.target.id for st in cfg.body if isinstance(st, ast.AnnAssign) and isinstance(st.target, ast.Name)]
    probs = []
    if not is_dc:
        probs.append((cfg.lineno, "Config is not a dataclass any more: the rules about its generated constructor do not apply"))
    for m in cfg.body:
        if not isinstance(m, ast.FunctionDef):
            continue
        if m.name in ("__init__", "__new__", "__setattr__", "__getattribute__", "__getattr__", "__set__"):
            probs.append((m.lineno, f"Config defines {m.name}"))
        if m.name in fields:
            probs.append((m.lineno, f"Config.{m.name} shadows the field of that name"))
        for n in ast.walk(m):
            if isinstance(n, ast.Call):
                f = ast.unparse(n.func)
                if f in ("object.__setattr__", "setattr", "super().__setattr__", "object.__delattr__", "delattr") or f.endswith(".__dict__.update") \
                        or f.endswith(".__dict__.__setitem__"):
                    what = ast.unparse(n.args[1]) if len(n.args) > 1 else "?"
                    probs.append((n.lineno, f"Config.{m.name} rewrites field {what} (`{ast.unparse(n)[:70]}`)"))
            if isinstance(n, (ast.Assign, ast.AugAssign)):
                for t in (n.targets if isinstance(n, ast.Assign) else [n.target]):
                    if "__dict__" in ast.unparse(t) or (isinstance(t, ast.Attribute) and isinstance(t.value, ast.Name) and t.value.id == "self"):
                        probs.append((n.lineno, f"Config.{m.name} assigns `{ast.unparse(t)[:50]}`"))
    ctx.oblige(rule, f"{F}:Config", f"Config keeps its {len(fields)} fields as given ({len(probs)} rewriting construct(s))", not probs, file=F, func="Config",
               construct="config fields verbatim" + (": " + probs[0][1][:60] if probs else ""),
               msg="; ".join(f"line {ln}: {m_}" for ln, m_ in probs) + ": a configuration value the caller (set_params, a grid candidate, compile) supplies "
                   "is stored as a different value", line=probs[0][0] if probs else None)


def fit_param_integrity(ctx: core.Ctx, cls: ast.ClassDef, fit: ast.FunctionDef, rule: str):
    """FIT (parameters): when fit returns, every non-noise parameter attribute holds what the caller set.  fit may install a temporary value for its
    own purposes (`self.config = <cheaper config>`, `self.set_params(extra_validation=False)`) if it puts the caller's back -- and what it finally
    applies with `set_params(**solution)` carries, for the non-noise keys, whatever was installed when the solution (`_inverse_flatten_scoring_params`,
    built on get_params) was READ.  Abstract value per parameter: orig | changed | maybe (set again after a change: possibly restored).  A captured
    snapshot (`c = self.config`, `h = self.get_params()`, `s = self._inverse_flatten_scoring_params(..)`) remembers the values at the capture and
    gives them back when applied.  Statement order over try / finally / with; the arms of an `if` are joined."""
    keys = []
    for st in cls.body:
        if isinstance(st, ast.Assign) and len(st.targets) == 1 and isinstance(st.targets[0], ast.Name) and st.targets[0].id == "allowed_keys" \
                and isinstance(st.value, (ast.List, ast.Tuple)):
            keys = [e.value for e in st.value.elts if isinstance(e, ast.Constant) and isinstance(e.value, str)]
    if not keys:
        ctx.error(f"{F}:{CLS}: allowed_keys is not a list of names (FIT parameter integrity)")
        return
    fixed = [k for k in keys if k not in ("process_noise", "sensor_noises")]
    where = f"{F}:{CLS}.fit"
    notes = []

    def own(stmt):
        stack = [stmt]
        while stack:
            n = stack.pop()
            yield n
            for ch in ast.iter_child_nodes(n):
                if isinstance(ch, (ast.FunctionDef, ast.Lambda, ast.ClassDef)):
                    continue
                stack.append(ch)

    def join(a, b):
        return a if a == b else ("changed" if "changed" in (a, b) else "maybe")

    def snapshot_call(v):
        gp = v.args[0] if isinstance(v, ast.Call) and isinstance(v.func, ast.Name) and v.func.id in ("dict", "copy", "deepcopy") and len(v.args) == 1 else v
        return isinstance(gp, ast.Call) and isinstance(gp.func, ast.Attribute) and ast.unparse(gp.func.value) == "self" \
            and gp.func.attr in ("get_params", "_inverse_flatten_scoring_params")

    def apply_set_params(n, state, caps):
        for kw in n.keywords:
            if kw.arg is None:
                src = kw.value
                if isinstance(src, ast.Name) and isinstance(caps.get(src.id), dict):
                    snap = caps[src.id]
                    for k in fixed:
                        if state[k] != snap[k] or snap[k] != "orig":
                            notes.append((n.lineno, k, snap[k], f"`set_params(**{src.id})` applies the value `{k}` had where `{src.id}` was read (line {snap['__line__']})"))
                        state[k] = snap[k]
                elif snapshot_call(src):
                    pass                                   # read and applied at once: nothing changes for the non-noise keys
                else:
                    for k in fixed:
                        state[k] = "maybe" if state[k] != "orig" else "changed"
            elif kw.arg not in ("process_noise", "sensor_noises"):
                k = kw.arg if kw.arg in fixed else "config"
                if k in state:
                    state[k] = "maybe" if state[k] != "orig" else "changed"
                    notes.append((n.lineno, k, state[k], f"`set_params({kw.arg}=..)`"))

    def run(stmts, state, caps):
        for st in stmts:
            if isinstance(st, (ast.FunctionDef, ast.ClassDef)):
                continue
            if isinstance(st, ast.If):
                s1, c1 = run(st.body, dict(state), dict(caps))
                s2, c2 = run(st.orelse, dict(state), dict(caps))
                state = {k: join(s1[k], s2[k]) for k in state}
                caps = {k: v for k, v in c1.items() if c2.get(k) == v}
                continue
            if isinstance(st, ast.Try):
                state, caps = run(st.body, state, caps)
                state, caps = run(st.orelse, state, caps)
                state, caps = run(st.finalbody, state, caps)
                continue
            if isinstance(st, (ast.With, ast.For, ast.While)):
                state, caps = run(st.body, state, caps)
                continue
            for n in own(st):
                if isinstance(n, ast.Call) and isinstance(n.func, ast.Name) and n.func.id in ("setattr", "delattr") and n.args and ast.unparse(n.args[0]) == "self":
                    for k in fixed:
                        state[k] = "maybe" if state[k] != "orig" else "changed"
                if isinstance(n, ast.Call) and isinstance(n.func, ast.Attribute) and isinstance(n.func.value, ast.Name) and n.func.value.id == "self" \
                        and n.func.attr == "set_params":
                    apply_set_params(n, state, caps)
            if isinstance(st, ast.Assign):
                for t in st.targets:
                    v = st.value
                    if isinstance(t, ast.Attribute) and isinstance(t.value, ast.Name) and t.value.id == "self" and t.attr in fixed:
                        if isinstance(v, ast.Name) and isinstance(caps.get(v.id), tuple) and caps[v.id][0] == t.attr:
                            state[t.attr] = caps[v.id][1]
                        else:
                            state[t.attr] = "maybe" if state[t.attr] != "orig" else "changed"
                            notes.append((st.lineno, t.attr, state[t.attr], f"`{ast.unparse(st)[:60]}`"))
                    elif isinstance(t, ast.Name):
                        if isinstance(v, ast.Attribute) and isinstance(v.value, ast.Name) and v.value.id == "self" and v.attr in fixed:
                            caps[t.id] = (v.attr, state[v.attr])
                        elif snapshot_call(v):
                            caps[t.id] = dict(state, __line__=st.lineno)
                        else:
                            caps.pop(t.id, None)
            elif isinstance(st, ast.AugAssign) and isinstance(st.target, ast.Attribute) and isinstance(st.target.value, ast.Name) \
                    and st.target.value.id == "self" and st.target.attr in fixed:
                state[st.target.attr] = "changed"
        return state, caps
    end, _ = run(fit.body, {k: "orig" for k in fixed}, {})
    left = [k for k in fixed if end[k] == "changed"]
    undec = [k for k in fixed if end[k] == "maybe"]
    if undec and not left:
        ctx.error(f"{where}: cannot decide whether {undec} hold the caller's values when fit returns (replaced and then set again: "
                  + "; ".join(f"line {ln}: {m}" for ln, k, s_, m in notes if k in undec)[:300] + ")")
    how = "; ".join(f"line {ln}: {m} leaves `{k}` {s_}" for ln, k, s_, m in notes if k in left)
    ctx.oblige(rule, where, f"non-noise parameters {fixed} hold the caller's values when fit returns", not left, file=F,
               func=f"{CLS}.fit", construct="fit parameter integrity" + (": " + ",".join(left) if left else ""),
               msg=f"fit returns with its own value of {left} installed instead of the caller's ({how}): fitting changed something other than the noise "
                   f"magnitudes, and a grid search's refit loses the selected value", line=next((ln for ln, k, s_, m in notes if k in left), fit.lineno))


def _paths(stmts, prefix=None):
    """every execution path through a statement list as an ordered sequence of ("stmt", node) / ("cond", test, polarity); loops are opaque statements"""
    out = [list(prefix or [])]
    for st in stmts:
        nxt = []
        for p_ in out:
            if p_ and p_[-1][0] == "exit":
                nxt.append(p_)
                continue
            if isinstance(st, ast.If):
                nxt += _paths(st.body, p_ + [("cond", st.test, True)])
                nxt += _paths(st.orelse, p_ + [("cond", st.test, False)])
            elif isinstance(st, (ast.Raise, ast.Return, ast.Continue, ast.Break)):
                nxt.append(p_ + [("stmt", st), ("exit", st)])
            else:
                nxt.append(p_ + [("stmt", st)])
        out = nxt
    return out


def input_pure(ctx: core.Ctx, mod: ast.Module, rule="INPUT-PURE"):
    """INPUT-PURE: compiling a filter does not write into what it was given.  The estimator hands its own parameter objects (the sensor-model and
    noise dicts, the calibration map, the symbolic model) to compile_ekf on every transform / score / fit / export; a constructor on that path
    that stores into a parameter -- or into an attribute that is just an alias of one -- rewrites the estimator's parameters behind its back
    (get_params / clone then hand the rewritten ones on).  Decided per constructor of the compile path with the effect analysis (fv.effects):
    item stores / in-place operators / mutating calls whose base is a parameter or a `self.x = <parameter>` alias."""
    from .. import effects
    ctx.rule(rule, "the constructors on the compile path do not store into the objects they are given (nor into attributes that alias them)")
    path = [("Model", "__init__"), ("SensorModel", "__init__"), ("ExtendedKalmanFilter", "__init__"), ("ExtendedKalmanFilter", "_construct_process"),
            ("ExtendedKalmanFilter", "_construct_sensors"), (None, "compile_ekf"), (None, "compile")]
    # the compiled block keeps what it was given (`self._config = config`, ...): every method of BasicBlock is on the compile path, and an attribute
    # that __init__ binds to a parameter is a given object in all of them (the Config's python_modules dict is the user's own)
    bb = core.find_class(mod, "BasicBlock")
    given_attrs = {}
    if bb is not None:
        ini = core.find_func(bb, "__init__")
        ipar = {a.arg for a in ini.args.posonlyargs + ini.args.args + ini.args.kwonlyargs} - {"self"} if ini is not None else set()
        for a in (ast.walk(ini) if ini is not None else ()):
            if isinstance(a, ast.Assign) and isinstance(a.value, ast.Name) and a.value.id in ipar:
                for t in a.targets:
                    if isinstance(t, ast.Attribute) and isinstance(t.value, ast.Name) and t.value.id == "self":
                        given_attrs[ast.unparse(t)] = a.value.id
        for m in bb.body:
            if isinstance(m, ast.FunctionDef) and ("BasicBlock", m.name) not in path:
                path.append(("BasicBlock", m.name))
    n = 0
    for cname, fname in path:
        scope = core.find_class(mod, cname) if cname else mod
        fn = core.find_func(scope, fname) if scope is not None else None
        if fn is None:
            continue
        n += 1
        q = f"{cname}.{fname}" if cname else fname
        params = {a.arg for a in fn.args.posonlyargs + fn.args.args + fn.args.kwonlyargs} - {"self", "cls"}
        # attributes / locals that are plain aliases of a parameter
        alias = {}
        gattrs = given_attrs if cname == "BasicBlock" and fname != "__init__" else {}

        def given_root(v):
            """the parameter a value is a part of, when the value is the parameter itself or reached from it by attribute / item access (no call in
            between: `dict(p)`, `p.copy()`, a comprehension make a new object); a display / conditional holding such a value carries it on"""
            if isinstance(v, (ast.Tuple, ast.List)):
                for e in v.elts:
                    r_ = given_root(e.value if isinstance(e, ast.Starred) else e)
                    if r_ is not None:
                        return r_
                return None
            if isinstance(v, ast.IfExp):
                return given_root(v.body) or given_root(v.orelse)
            while isinstance(v, (ast.Attribute, ast.Subscript)):
                if gattrs and ast.unparse(v) in gattrs:
                    return "the block's " + gattrs[ast.unparse(v)]
                v = v.value
            if isinstance(v, ast.Name):
                if v.id in params:
                    return v.id
                return alias.get(v.id)
            return None
        for a in sorted((x for x in ast.walk(fn) if isinstance(x, (ast.Assign, ast.For))), key=lambda x: (x.lineno, x.col_offset)):
            if isinstance(a, ast.For):
                it_ = a.iter
                if isinstance(it_, ast.Call) and isinstance(it_.func, ast.Attribute) and it_.func.attr in ("values", "items") and not it_.args:
                    it_ = it_.func.value
                r = given_root(it_) if isinstance(it_, (ast.Name, ast.Attribute, ast.Subscript, ast.Tuple, ast.List)) else None
                if r is not None:
                    for t in ast.walk(a.target):
                        if isinstance(t, ast.Name):
                            alias[t.id] = r
                continue
            r = given_root(a.value) if isinstance(a.value, (ast.Name, ast.Attribute, ast.Subscript, ast.Tuple, ast.List, ast.IfExp)) else None
            for t in a.targets:
                if r is not None and isinstance(t, (ast.Name, ast.Attribute)):
                    alias[ast.unparse(t)] = r
                elif isinstance(t, ast.Name) and t.id not in params:
                    alias.pop(t.id, None)          # re-bound to something of the function's own
        # parameters that the function itself replaces by a fresh object first (`calibration_map = {}` under `is None`) stay parameters: a later
        # store would still hit the caller's object on the other path
        # a parameter re-bound, unconditionally (a statement of the function body itself), to a new object -- `p = dict(p)`, `p = p.copy()`,
        # a display or comprehension -- is the function's own from there on (the defensive-copy idiom)
        fresh_from = {}
        for st in fn.body:
            if isinstance(st, ast.Assign) and len(st.targets) == 1 and isinstance(st.targets[0], ast.Name) and st.targets[0].id in params:
                v = st.value
                new_obj = isinstance(v, (ast.Dict, ast.List, ast.Set, ast.DictComp, ast.ListComp, ast.SetComp)) or \
                    (isinstance(v, ast.Call) and (ast.unparse(v.func).split(".")[-1] in ("dict", "list", "set", "copy", "deepcopy", "OrderedDict", "sorted")))
                if new_obj:
                    fresh_from.setdefault(st.targets[0].id, st.lineno)
        bad = []
        for w in effects.writes(fn):
            if w.kind == "attr":
                continue
            root = w.target.split("[")[0]
            base = root if root in alias or root in params else (root.split(".")[0] if root.split(".")[0] in params or root.split(".")[0] in alias else None)
            if base is None and gattrs:
                hit = next((ga for ga in gattrs if root == ga or root.startswith(ga + ".")), None)
                if hit is not None:
                    bad.append((w, "the block's " + gattrs[hit]))
                    continue
            if base is None:
                continue
            if base in fresh_from and (w.line or 0) > fresh_from[base]:
                continue
            bad.append((w, alias.get(base, base)))
        ctx.oblige(rule, f"{F}:{q}", f"stores into given objects: {[(w.text[:50], p_) for w, p_ in bad]}", not bad, file=F, func=q,
                   construct="input mutated: " + (bad[0][0].target if bad else ""),
                   msg=(f"{q} writes into the object it was given as `{bad[0][1]}` (`{bad[0][0].text[:80]}`): the estimator's own parameter is rewritten by "
                        f"compiling the filter -- after a transform / fit its parameters are no longer the ones it was created with") if bad else "",
                   line=bad[0][0].line if bad else None)
    ctx.floor(rule, n, 5, "constructors / entry points on the compile path")


def set_params_rule(ctx, cls, mod=None):
    """SET-PARAMS, decided on the normalised body (fv.normast) path by path: for every key exactly one of
         key in allowed_keys            -> setattr(self, key, value) and nothing else
         else key in asdict(self.config) -> self.config = Config(**d) with d = asdict(self.config) taken in this iteration and d[key] = value
         else                            -> raise ModelConstructionError, nothing stored"""
    from .. import normast
    q = lambda n: f"{CLS}.{n}"
    sp = core.need(core.find_func(cls, "set_params"), q("set_params"))
    where = f"{F}:{q('set_params')}"
    if mod is not None:
        sp = normast.Normaliser(normast.class_resolver(mod, cls, module_funcs="small"), consts=normast.module_constants(mod)).function(sp)
    else:
        sp = normast.Normaliser(None).function(sp)
    loops = [s_ for s_ in sp.body if isinstance(s_, ast.For)]
    kwn = sp.args.kwarg.arg if sp.args.kwarg else "params"
    if len(loops) != 1:
        raise core.AnalysisError(f"{where}: no single `for key in params` loop")
    loop = loops[0]
    it = ast.unparse(loop.iter).replace(" ", "")
    if isinstance(loop.target, ast.Name) and it in (kwn, f"{kwn}.keys()", f"list({kwn})", f"list({kwn}.keys())"):
        key, vals = loop.target.id, {f"{kwn}[{loop.target.id}]"}
    elif isinstance(loop.target, ast.Tuple) and len(loop.target.elts) == 2 and all(isinstance(e, ast.Name) for e in loop.target.elts) \
            and it in (f"{kwn}.items()", f"list({kwn}.items())"):
        key = loop.target.elts[0].id
        vals = {loop.target.elts[1].id, f"{kwn}[{key}]"}
    else:
        ctx.oblige("SET-PARAMS", where, f"loop over `{it}`", False, file=F, func=q("set_params"), construct="loop shape",
                   msg=f"set_params iterates `{ast.unparse(loop.iter)}` with target `{ast.unparse(loop.target)}`: not every given key with its own value")
        return
    pre = [s_ for s_ in sp.body if s_ is not loop and not isinstance(s_, ast.Return)]
    hoist = [s_ for s_ in pre if "asdict" in ast.unparse(s_)]
    ctx.oblige("SET-PARAMS", where, "no configuration snapshot outside the per-key loop", not hoist, file=F, func=q("set_params"), construct="hoisted snapshot",
               msg="a snapshot of the configuration is taken before the per-key loop: " + "; ".join(ast.unparse(s_)[:60] for s_ in hoist)
                   + " -- with several Config fields in one call the earlier ones are overwritten by the stale snapshot")
    U = lambda e: ast.unparse(e).replace(" ", "")
    snap_txt = {"dataclasses.asdict(self.config)", "asdict(self.config)"}
    seen = {"allowed": 0, "config": 0, "unknown": 0}
    all_snaps = {a.targets[0].id for a in ast.walk(sp) if isinstance(a, ast.Assign) and len(a.targets) == 1 and isinstance(a.targets[0], ast.Name)
                 and U(a.value) in snap_txt}
    # a snapshot variable that is also assigned before the loop carries a snapshot from one key to the next
    carried = sorted({t.id for s_ in pre for a in ast.walk(s_) if isinstance(a, ast.Assign) for t in a.targets if isinstance(t, ast.Name) and t.id in all_snaps})
    ctx.oblige("SET-PARAMS", where, "the configuration snapshot does not live across keys", not carried, file=F, func=q("set_params"),
               construct="carried snapshot", msg=f"the snapshot variable(s) {carried} are initialised before the per-key loop and refreshed only conditionally: "
               f"with several Config fields in one call the later ones are applied to the snapshot taken for the first, undoing the earlier ones")
    for path in _paths(loop.body):
        snaps = {}          # local name -> position of `name = asdict(self.config)` on this path
        conds = []
        effects = []
        for n_, ent in enumerate(path):
            if ent[0] == "cond":
                t, pol = ent[1], ent[2]
                while isinstance(t, ast.UnaryOp) and isinstance(t.op, ast.Not):
                    t, pol = t.operand, not pol
                if isinstance(t, ast.Compare) and len(t.ops) == 1 and isinstance(t.ops[0], (ast.In, ast.NotIn)) and U(t.left) == key:
                    if isinstance(t.ops[0], ast.NotIn):
                        pol = not pol
                    subj = U(t.comparators[0])
                    if subj == "self.allowed_keys":
                        conds.append(("allowed", pol))
                        continue
                    if subj in snap_txt or subj in snaps or subj in all_snaps:
                        conds.append(("config", pol))
                        continue
                if isinstance(t, ast.Compare) and len(t.ops) == 1 and isinstance(t.ops[0], (ast.Is, ast.IsNot)) and U(t.left) in all_snaps \
                        and U(t.comparators[0]) == "None":
                    continue            # lazy initialisation of the snapshot: judged by the `carried` obligation above
                conds.append(("other:" + U(ent[1])[:60], ent[2]))
            elif ent[0] == "stmt":
                st = ent[1]
                if isinstance(st, ast.Assign) and len(st.targets) == 1 and isinstance(st.targets[0], ast.Name) and U(st.value) in snap_txt:
                    snaps[st.targets[0].id] = n_
                    continue
                if isinstance(st, (ast.Raise,)):
                    effects.append(("raise", U(st.exc) if st.exc is not None else "", n_))
                elif isinstance(st, (ast.Continue, ast.Pass)):
                    continue
                elif isinstance(st, ast.Expr) and isinstance(st.value, ast.Call) and U(st.value.func) == "setattr" and len(st.value.args) == 3:
                    a = [U(x) for x in st.value.args]
                    effects.append(("setattr", tuple(a), n_))
                elif isinstance(st, ast.Assign) and isinstance(st.targets[0], ast.Subscript) and (U(st.targets[0].value) in snaps or U(st.targets[0].value) in all_snaps):
                    effects.append(("update", (U(st.targets[0].value), U(st.targets[0].slice), U(st.value)), n_))
                elif isinstance(st, ast.Assign) and U(st.targets[0]) == "self.config":
                    v = st.value
                    merged = None
                    if isinstance(v, ast.Call) and U(v.func) == "Config" and not v.args and len(v.keywords) == 1 and v.keywords[0].arg is None \
                            and isinstance(v.keywords[0].value, ast.Dict):
                        dd = v.keywords[0].value
                        if len(dd.keys) == 2 and dd.keys[0] is None and dd.keys[1] is not None:
                            merged = (U(dd.values[0]), U(dd.keys[1]), U(dd.values[1]))
                    if isinstance(v, ast.Call) and U(v.func) in ("dataclasses.replace", "replace") and len(v.args) == 1 and U(v.args[0]) == "self.config" \
                            and len(v.keywords) == 1 and v.keywords[0].arg is None and isinstance(v.keywords[0].value, ast.Dict) \
                            and len(v.keywords[0].value.keys) == 1 and v.keywords[0].value.keys[0] is not None:
                        dd = v.keywords[0].value
                        merged = ("asdict(self.config)", U(dd.keys[0]), U(dd.values[0]))
                    if merged is not None:
                        effects.append(("merged", merged, n_))      # Config(**{**snapshot, key: value}) / replace(self.config, **{key: value})
                    else:
                        effects.append(("rebuild", U(st.value), n_))
                elif isinstance(st, ast.Expr) and isinstance(st.value, ast.Call) and U(st.value.func).split(".")[0] in ("print", "logger", "logging", "warnings"):
                    continue
                else:
                    effects.append(("other", U(st)[:80], n_))
        cd = dict((c, p_) for c, p_ in conds if not c.startswith("other:"))
        others = [c for c, _ in conds if c.startswith("other:")]
        fn_ = q("set_params")
        if others:
            ctx.error(f"{where}: the per-key decision also branches on `{others[0][6:]}` (not an enumerated idiom)")
            continue
        kinds = [e[0] for e in effects]
        if cd.get("allowed") is True:
            seen["allowed"] += 1
            ok1 = kinds == ["setattr"] and effects[0][1][0] == "self" and effects[0][1][1] == key and effects[0][1][2] in vals
            ctx.oblige("SET-PARAMS", where, "allowed key -> setattr(self, key, value)", ok1, file=F, func=fn_, construct="branch allowed",
                       msg=f"an estimator parameter is handled by {[(e[0], e[1]) for e in effects]}; required exactly setattr(self, {key}, <its value>)")
        elif cd.get("allowed") is False and cd.get("config") is True:
            seen["config"] += 1
            ok2, why2 = True, ""
            ups = [e for e in effects if e[0] == "update"]
            rbs = [e for e in effects if e[0] == "rebuild"]
            if kinds == ["merged"]:
                d, k_, v_ = effects[0][1]
                fresh = d in snap_txt or (d in snaps and snaps[d] < effects[0][2])
                if not fresh:
                    ok2, why2 = False, "the snapshot merged into the new Config is not taken inside this key's iteration"
                elif k_ != key or v_ not in vals:
                    ok2, why2 = False, f"the new Config replaces [{k_}] by {v_}; required [{key}] = <the key's value>"
            elif kinds.count("update") != 1 or kinds.count("rebuild") != 1 or len(effects) != 2:
                ok2, why2 = False, f"the Config-field branch performs {[(e[0], e[1]) for e in effects]}; required d[key] = value; self.config = Config(**d)"
            else:
                d, k_, v_ = ups[0][1]
                if d not in snaps or snaps[d] > ups[0][2]:
                    ok2, why2 = False, "the snapshot asdict(self.config) is not taken inside this key's iteration before it is updated"
                elif k_ != key or v_ not in vals:
                    ok2, why2 = False, f"the snapshot is updated as {d}[{k_}] = {v_}; required [{key}] = <the key's value>"
                elif rbs[0][1] != f"Config(**{d})" or rbs[0][2] < ups[0][2]:
                    ok2, why2 = False, f"self.config is rebuilt as {rbs[0][1]}; required Config(**{d}) after the update"
            ctx.oblige("SET-PARAMS", where, "config field -> fresh asdict(self.config), replace key, Config(**d)", ok2, file=F, func=fn_,
                       construct="branch config", msg=why2)
        elif cd.get("allowed") is False and cd.get("config") is False:
            seen["unknown"] += 1
            ok3 = kinds == ["raise"] and "ModelConstructionError" in effects[0][1]
            ctx.oblige("SET-PARAMS", where, "unknown key -> raise ModelConstructionError", ok3, file=F, func=fn_, construct="branch unknown",
                       msg=f"an unknown parameter name leads to {[(e[0], e[1][:50] if isinstance(e[1], str) else e[1]) for e in effects]}; required raise ModelConstructionError and nothing else")
        else:
            ctx.oblige("SET-PARAMS", where, f"path decided by {conds}", False, file=F, func=fn_, construct="loop shape",
                       msg=f"a path through the per-key decision is not one of allowed / Config field / unknown: {conds}")
    for nm, cnt in seen.items():
        ctx.oblige("SET-PARAMS", where, f"{cnt} path(s) for the {nm} case", cnt >= 1, file=F, func=q("set_params"), construct=f"case {nm}",
                   msg=f"set_params has no path for the {nm}-key case")
