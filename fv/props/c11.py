"""C11 -- tick = fold readings in order, hold at last reading, report at output time.

runtime.ManagedFilter.tick (Python, ast) and every ManagedFilter::tick overload (C++, clang AST of an
instantiation per control x calibration valuation) are flattened into ordered event lists
(STEP = call of the step function, UPDATE = sensor_model call, WRITE / writes of held fields, RETURN) and
compared with the TickPlan of DESIGN.md section 2/E5:

  ORDER      the loop iterates the `readings` parameter itself; per reading: STEP(reading.timestamp) whose
             result is written to every held field, then UPDATE on the held state, result written to the held state
  READ-ONLY  after the loop: STEP(output time) whose result is returned and written to no held field; overloads
             without readings write nothing held; (the step function itself writes nothing: C10/READ-ONLY)
  CONTROL    Python: `control is None and control_size > 0 -> raise` precedes the first STEP; C++: the overloads with
             a control parameter static_assert that the filter has controls, those without that it has none;
             every STEP passes the control on
  SIBLINGS   the Python and C++ plans are equal after normalisation
"""
import ast

from .. import core, rtmodel, cppast

META = dict(level="other", trusted_base=["clang++-14 front end"],
            assumptions=["sensor_model / process_model of the wrapped filter are C04/C05's functions"])

PYF = "py/formak/runtime.py"
HDR = "cpp/runtime/include/formak/runtime/ManagedFilter.h"


def canon(events):
    """implementation-neutral trace of the STEP/UPDATE/RETURN skeleton"""
    out = []
    for e in events:
        if e.kind in ("STEP", "UPDATE", "LOOP-BEGIN", "LOOP-END"):
            out.append((e.kind, e.in_loop))
    return out


def _empty(e):
    return isinstance(e, tuple) and e and e[0] == "init" and not e[2]


def _defaulted(e, name):
    """`name or []`, `[] if name is None else name`, `name if name is not None else []`: the argument itself, an absent one read as empty"""
    from .. import estflow
    ref = ("ref", name)
    if not isinstance(e, tuple):
        return False
    if e[0] == "bin" and e[1] == "||" and e[2] == ref and _empty(e[3]):
        return True
    if e[0] == "cond":
        lits = estflow.literals([(e[1], True)])
        if lits is not None and len(lits) == 1:
            (l,) = lits
            if estflow.is_none_test(l, ref) and _empty(e[2]) and e[3] == ref:
                return True
            c, pol = l
            if not pol and estflow.is_none_test((c, True), ref) and e[2] == ref and _empty(e[3]):
                return True
    return False


def strip_default_idiom(ctx, body, name, where, file, func):
    """drop the default-argument idiom for `name` (absent -> empty list) from the tick body; any other rebinding of the parameter is reported"""
    from .. import estflow
    out = []

    def rebinding(s):
        return s[0] == "decl" and s[1] == name
    for s in body:
        if s[0] == "if" and s[4] is None:
            lits = estflow.literals([(s[1], True)])
            then_default = len(s[2]) == 1 and rebinding(s[2][0]) and _empty(s[2][0][2])
            else_default = len(s[3]) == 1 and rebinding(s[3][0]) and _empty(s[3][0][2])
            if lits is not None and len(lits) == 1:
                (l,) = lits
                if then_default and not s[3] and estflow.is_none_test(l, ("ref", name)):
                    continue
                if else_default and not s[2] and not l[1] and estflow.is_none_test((l[0], True), ("ref", name)):
                    continue
        if rebinding(s) and _defaulted(s[2], name):
            continue
        out.append(s)

    def scan(stmts):
        for s in stmts:
            if rebinding(s) or (s[0] in ("assign", "assign_tuple") and ("ref", name) in ([s[1]] + (s[1][2] if s[1][0] == "init" else []))):
                ctx.oblige("ORDER", where, f"`{name}` rebound", False, file=file, func=func, construct=f"{name} rebound",
                           msg=f"tick replaces its `{name}` argument by `{cppast.show(s[2])[:80]}` (other than reading an absent argument as empty): "
                               f"the readings the caller gave are not the ones that are folded")
            for sub in s:
                if isinstance(sub, list) and sub and isinstance(sub[0], tuple) and sub[0] and isinstance(sub[0][0], str) \
                        and sub[0][0] in ("if", "decl", "assign", "assign_tuple", "rangefor", "for_range", "expr", "return", "raise", "while", "static_assert"):
                    scan(sub)
    scan(out)
    return out


def check_tick(ctx, file, func, tag, events, problems, *, held_all, held_state, readings_param, output_param, control_param, lang):
    where = f"{file}:{func} [{tag}]"
    for p in problems:
        ctx.error(f"{where}: {p}")
    if problems:
        return          # nothing is concluded from a partially understood tick
    loops = [e for e in events if e.kind == "LOOP-BEGIN"]
    is_held = lambda t: t.startswith("@") and any(t == "@" + h or t.startswith("@" + h + ".") for h in held_all)
    if readings_param is None:
        # overload without readings: STEP(output) -> RETURN, nothing held is written
        ctx.oblige("ORDER", where, "no loop in a tick without readings", not loops, file=file, func=func, construct="loop in no-readings tick",
                   msg="a tick overload without a readings parameter loops")
    else:
        ctx.oblige("ORDER", where, f"{len(loops)} loop(s)", len(loops) == 1, file=file, func=func, construct="reading loop count",
                   msg=f"tick has {len(loops)} loops over readings; the plan has exactly one")
    if loops:
        lp = loops[0]
        rng = lp.detail.get("range")
        rng_ok = rng == ("ref", readings_param) or (lang == "py" and _defaulted(rng, readings_param))
        ctx.oblige("ORDER", where, f"loop iterates `{lp.detail.get('range_text')}`", rng_ok, file=file, func=func, construct="reading loop range",
                   msg=f"readings are iterated through `{lp.detail.get('range_text')}`, not the readings argument itself "
                       f"in the order given (sorting, reversing, filtering or slicing changes the fold)")
        var = lp.detail.get("var")
        i0 = events.index(lp)
        i1 = next((i for i, e in enumerate(events) if e.kind == "LOOP-END" and i > i0), len(events))
        inner = [e for e in events[i0 + 1:i1] if e.kind in ("STEP", "UPDATE")]
        kinds = [e.kind for e in inner]
        ctx.oblige("ORDER", where, f"per reading: {kinds}", kinds == ["STEP", "UPDATE"], file=file, func=func, construct="per-reading sequence",
                   msg=f"per reading the calls are {kinds}; required: propagate to the reading's time, then apply its sensor update")
        unguarded = all(not e.guard for e in inner)
        ctx.oblige("ORDER", where, "per-reading calls are unconditional", unguarded, file=file, func=func, construct="per-reading guards",
                   msg="a per-reading propagate/update call is conditional: " + "; ".join(",".join(e.guard) for e in inner if e.guard))
        for e in inner:
            if e.kind == "STEP":
                okt = e.detail["target"] == f"{var}.timestamp"
                ctx.oblige("ORDER", where, f"STEP target {e.detail['target']}", okt, file=file, func=func, construct="per-reading step target",
                           msg=f"the per-reading propagation goes to `{e.detail['target']}`, not to the reading's own timestamp")
                w = set(e.detail["writes"])
                need = {"@" + h for h in held_all}
                okw = e.detail["whole"] and (w == need)
                ctx.oblige("ORDER", where, f"STEP result held in {sorted(w)}", okw, file=file, func=func, construct="per-reading hold",
                           msg=f"the propagated estimate is written to {sorted(w)}; the plan holds time, state and covariance ({sorted(need)})")
            else:
                args = e.detail["args"]
                uses = all(any(a == "@" + h or a.endswith("=@" + h) for a in args) for h in held_state)
                ctx.oblige("ORDER", where, f"UPDATE args {args}", uses, file=file, func=func, construct="per-reading update input",
                           msg=f"the sensor update is applied to {args}, not to the held estimate just propagated")
                w = set(e.detail["writes"])
                okw = w == {"@" + h for h in held_state}
                ctx.oblige("ORDER", where, f"UPDATE result held in {sorted(w)}", okw, file=file, func=func, construct="per-reading update hold",
                           msg=f"the updated estimate is written to {sorted(w)}, not to the held state")
        for e in events[i0 + 1:i1]:
            if e.kind == "WRITE" and is_held(e.detail["target"]):
                ctx.oblige("ORDER", where, f"extra held write {e.detail['target']}", False, file=file, func=func,
                           construct="extra held write in loop:" + e.detail["target"],
                           msg=f"the held field {e.detail['target']} is also written by `{e.detail['value']}` inside the reading loop")
        tail = events[i1 + 1:]
    else:
        tail = events
    # ---- output part
    steps = [e for e in tail if e.kind == "STEP"]
    ups = [e for e in tail if e.kind == "UPDATE"]
    rets = [e for e in tail if e.kind == "RETURN"]
    ctx.oblige("READ-ONLY", where, f"after the loop: {[e.kind for e in tail if e.kind in ('STEP','UPDATE','WRITE','RETURN')]}",
               len(steps) == 1 and not ups and rets, file=file, func=func, construct="output sequence",
               msg="after the readings the tick must propagate once to the output time and return that; found "
                   f"{[e.kind for e in tail if e.kind in ('STEP','UPDATE','WRITE','RETURN')]}")
    for e in steps:
        okt = e.detail["target"] == output_param
        ctx.oblige("READ-ONLY", where, f"output STEP target {e.detail['target']}", okt, file=file, func=func, construct="output step target",
                   msg=f"the reported estimate is propagated to `{e.detail['target']}`, not to the requested output time")
        hw = [t for t in e.detail["writes"] if is_held(t)]
        ctx.oblige("READ-ONLY", where, f"output STEP writes {e.detail['writes']}", not hw, file=file, func=func, construct="output step hold",
                   msg=f"the estimate propagated to the output time is written to the held field(s) {hw}: a tick must not hold its output")
        if rets:
            r = rets[0]
            val = r.detail.get("value") or ""
            okr = (e.detail["text"] in val) or any(w == val for w in e.detail["writes"]) or any(w in val.split(".")[0:1] for w in e.detail["writes"])
            ctx.oblige("READ-ONLY", where, f"returns {val}", okr, file=file, func=func, construct="output return",
                       msg=f"tick returns `{val}`, which is not the estimate propagated to the output time")
    for e in tail:
        if e.kind == "WRITE" and is_held(e.detail["target"]):
            ctx.oblige("READ-ONLY", where, f"held write {e.detail['target']} after the loop", False, file=file, func=func,
                       construct="held write after loop:" + e.detail["target"],
                       msg=f"after the readings the held field {e.detail['target']} is written (`{e.detail['value']}`)")
    # ---- control
    allsteps = [e for e in events if e.kind == "STEP"]
    if control_param is not None:
        for e in allsteps:
            okc = any(a == control_param or a == f"control={control_param}" for a in e.detail["args"])
            ctx.oblige("CONTROL", where, f"STEP args {e.detail['args']}", okc, file=file, func=func, construct="control passthrough",
                       msg=f"a propagation is issued with {e.detail['args']}: the tick's control is not passed on")
    if lang == "py":
        from .. import estflow
        first_step = next((i for i, e in enumerate(events) if e.kind == "STEP"), len(events))
        is_size = lambda x: isinstance(x, tuple) and x and x[0] == "field" and x[2] == "control_size"
        raises = []
        for e in events[:first_step]:
            if e.kind != "RAISE" or e.in_loop:
                continue
            lits = estflow.literals(e.guard_ir)
            if lits is not None and len(lits) == 2 and any(estflow.is_none_test(l, ("ref", control_param)) for l in lits) \
                    and any(estflow.is_positive_test(l, is_size) for l in lits):
                raises.append(e)
        ctx.oblige("CONTROL", where, "control required guard precedes the first propagation", bool(raises), file=file, func=func,
                   construct="control-required guard", msg="no `control is None and control_size > 0 -> raise` before the first propagation "
                   "(the guard must refuse exactly the ticks without control of a filter that has control inputs)")
    else:
        asserts = [e for e in events if e.kind == "ASSERT"]
        want = "!is_same_v" if control_param is not None else "is_same_v"
        oka = bool(asserts) and asserts[0].detail["text"] == want
        how = f"static_assert({asserts[0].detail['text'] if asserts else None})"
        if not oka:
            # not spelled as the literal static_assert: ask the compiler -- the overload called on the wrong kind of filter must not compile
            mis = rtmodel.misuse_witnesses(ctx)
            accepted = mis.get((control_param is not None, readings_param is not None))
            oka = accepted is False
            how = f"compile-fail witness: the overload called on a filter {'without' if control_param else 'with'} control inputs " + \
                  ("is rejected" if oka else "COMPILES")
        ctx.oblige("CONTROL", where, how, oka, file=file, func=func,
                   construct="control static_assert",
                   msg=f"overload {'with' if control_param else 'without'} control is not restricted to filters {'with' if control_param else 'without'} "
                       f"control inputs (no static_assert({want}<ControlT, false_type>), and calling it on the other kind of filter compiles)")


def run(ctx: core.Ctx) -> int:
    for rid, t in (("ORDER", "readings folded in the order given: STEP(reading time) -> hold; UPDATE(held) -> hold"),
                   ("READ-ONLY", "the output propagation is returned and never held"),
                   ("CONTROL", "a filter with controls cannot be ticked without them; controls are passed on"),
                   ("SIBLINGS", "Python and C++ tick plans are equal")):
        ctx.rule(rid, t)
    traces = {}
    py_part(ctx, traces)
    # "the Python and C++ runtimes issue the same sequence of filter calls": both step with the same maximum, i.e. the configured value reaches the
    # generated C++ constant without lossy formatting (C10's MAG rule on the generator)
    from . import c10 as _c10
    ctx.rule("MAG", "the configured maximum step is printed losslessly into cpp::Config::max_dt_sec / Tag::max_dt_sec (shared with C10)")
    _c10.mag_gen(ctx)
    # ... and both cut a move into the same steps: each runtime's step function follows the one step-plan template (C10's DIR / MAG / TEMPLATE
    # rules, evaluated here for the sibling clause: a step function that deviates issues a different sequence of prediction calls than the other
    # runtime for the same history)
    ctx.rule("STEP-SIBLINGS", "the Python and the C++ step function follow the same step plan (direction, magnitude, count and remainder template)")
    sub = core.Ctx(ctx.prop, ctx.tier, ctx.repo)
    _c10.step_rules(sub)
    ns = 0
    # CHAIN belongs to the clause as well: every prediction step starts from the result of the previous one -- a step taken from the held
    # estimate instead drops the steps before it, so the value folded / held at the reading is not the one the other runtime computes
    for o in sub.obligations:
        if o.rule in ("DIR", "MAG", "TEMPLATE", "CHAIN"):
            ns += 1
            ctx.obligations.append(core.Obligation("STEP-SIBLINGS", o.where, o.fact, o.ok))
    for f in sub.findings:
        if f.rule in ("DIR", "MAG", "TEMPLATE", "CHAIN"):
            ctx.find("STEP-SIBLINGS", f.file, f.func, f.construct, f.msg + " -- the two runtimes then issue different sequences of filter calls", f.line)
    for e in sub.errors:
        ctx.error(e)
    ctx.floor("STEP-SIBLINGS", ns, 10, "step-plan obligations of the two step functions")
    nt = cpp_part(ctx, traces)
    ctx.floor("TICKPLAN", nt + 1, 9, "tick bodies (1 Python + 2 per C++ valuation)")
    ref = traces.get("python")
    for k, t in traces.items():
        ctx.oblige("SIBLINGS", f"{k}", f"trace {t}", t == ref, file=HDR if k != "python" else PYF, func="tick", construct=f"sibling trace {k.split()[0]}",
                   msg=f"the call skeleton of {k} is {t}, Python's is {ref}")
    # INIT: the history starts where the caller says: every user-written constructor of the managed filter reads each of its parameters (start time, initial
    # estimate, calibration) -- C++ by clang's use marking on the instantiated constructors, Python by the names __init__ reads
    ctx.rule("INIT", "every constructor of the managed filter uses each of its parameters (start time, initial estimate, calibration)")
    _ir0 = rtmodel.cpp_runtime_ir(ctx)
    n_ct = 0
    for _val in ("v00", "v01", "v10", "v11"):
        for _ps, _line in (_ir0.get(_val) or {}).get("ctors", []):
            n_ct += 1
            _unused = [n_ for n_, u_ in _ps if n_ and not u_]
            ctx.oblige("INIT", f"{HDR}:ManagedFilter::ManagedFilter/{len(_ps)} [{_val}]", f"parameters {[n_ for n_, _ in _ps]} all read", not _unused, file=HDR,
                       func=f"ManagedFilter::ManagedFilter/{len(_ps)}", construct="unused constructor parameter:" + ",".join(_unused), line=_line,
                       msg=f"the constructor never reads its parameter(s) {_unused}: the filter starts from a default instead of what the caller supplied "
                           f"(a start time of 0 makes the first tick propagate from the wrong time)")
    _rel_i, _cls_i = rtmodel.py_runtime(ctx)
    _ini = core.find_func(_cls_i, "__init__")
    if _ini is not None:
        n_ct += 1
        _read = {x_.id for x_ in ast.walk(_ini) if isinstance(x_, ast.Name) and isinstance(x_.ctx, ast.Load)}
        _unused = [a_.arg for a_ in _ini.args.args[1:] + _ini.args.kwonlyargs if a_.arg not in _read]
        ctx.oblige("INIT", f"{_rel_i}:ManagedFilter.__init__", "parameters all read", not _unused, file=_rel_i, func="ManagedFilter.__init__",
                   construct="unused constructor parameter:" + ",".join(_unused),
                   msg=f"ManagedFilter.__init__ never reads its parameter(s) {_unused}")
    ctx.floor("INIT", n_ct, 3, "constructors (4 C++ instantiations + Python)")
    return core.finish(ctx, explanation="E5: ordered event lists of every tick body vs the TickPlan; effect analysis of held fields", **META)


def py_part(ctx: core.Ctx, traces):
    """the Python tick against the plan (also used by C10 for the hold clause)"""
    rel, cls = rtmodel.py_runtime(ctx)
    fn = rtmodel.py_runtime_func(ctx, cls, "tick")
    ctx.functions.append("runtime.ManagedFilter.tick")
    names = [a.arg for a in fn.args.args if a.arg != "self"] + [a.arg for a in fn.args.kwonlyargs]
    if "readings" not in names or "control" not in names or not names:
        raise core.AnalysisError(f"runtime.ManagedFilter.tick parameters {names} lack output time / control / readings")
    te = rtmodel.TickExec("py", "_process_model", ["current_time", "state", "covariance"])
    body = rtmodel.py_block(fn.body)
    # `if readings is None: readings = []` (and its equivalents) is the default-argument idiom; nothing else may rebind the parameter
    body = strip_default_idiom(ctx, body, "readings", f"{rel}:ManagedFilter.tick [python]", rel, "ManagedFilter.tick")
    te.block(body)
    check_tick(ctx, rel, "ManagedFilter.tick", "python", te.events, te.problems, held_all=["current_time", "state", "covariance"],
               held_state=["state", "covariance"], readings_param="readings", output_param=names[0], control_param="control", lang="py")
    traces["python"] = canon(te.events)
    if not te.problems:
        flow_py(ctx, rel, cls, body, names)


def flow_py(ctx: core.Ctx, rel, cls, body, tick_params):
    """FLOW / DATA: value flow of the estimate through the Python tick (fv.estflow): which value reaches which parameter and which held field"""
    from .. import estflow
    from . import c10 as _c10
    ctx.rule("FLOW", "per reading the step result is held component by component (time, state, covariance), the update reads and refreshes the held "
                     "state and covariance with the reading's own key and data; every call starts from the newest estimate")
    ctx.rule("DATA", "a reading without data gets make_reading(its key, **its keywords) exactly when its data is absent, before the update")
    func = "ManagedFilter.tick"
    where = f"{rel}:{func} [python]"
    sigs, recs = _c10.py_filter_sigs(ctx)
    recs = dict(recs)
    recs.update(estflow.namedtuples(ctx.parse(rel)))
    held = {"@state": "state", "@covariance": "cov", "@current_time": "time"}
    # shape of what the step function returns (C10 CHAIN decides that it is the newest estimate at the target time)
    pfn = rtmodel.py_runtime_func(ctx, cls, "_process_model")
    pparams = [a.arg for a in pfn.args.args if a.arg != "self"]
    ppos, _, prec = sigs["process_model"]
    f0 = estflow.Flow("py", held, recs, predict_roles=ppos, predict_ret=lambda o: _c10._fresh_record(prec, o),
                      control_param="control" if "control" in pparams else None, time_params=[pparams[0]])
    f0.block(rtmodel.py_block(pfn.body))
    shapes = [v for _, v in f0.returns]
    if len(shapes) != 1 or shapes[0] is None:
        ctx.error(f"{where}: the step function's return value has no derivable shape ({shapes})")
        return

    def reshape(v, origin, tgt):
        if isinstance(v, estflow.Est):
            return estflow.Est(v.comp, True, origin)
        if isinstance(v, estflow.TimeV):
            return estflow.TimeV(tgt)
        if isinstance(v, estflow.Sav):
            return estflow.Sav({k: reshape(x, origin, tgt) for k, x in v.fields.items()})
        if isinstance(v, estflow.Tup):
            return estflow.Tup([reshape(x, origin, tgt) for x in v.items])
        return v
    spos, skwo, srec = sigs["sensor_model"]
    snaps = []

    class TickFlow(estflow.Flow):
        def loop_end(self, st, n):
            if st[0] == "rangefor":
                snaps.append((st, n, dict(self.heldv)))
    fl = TickFlow("py", held, recs, update_roles=spos + skwo, update_ret=lambda o: _c10._fresh_record(srec, o), step_name="_process_model",
                  step_params=pparams, step_ret=lambda o, t: reshape(shapes[0], o, t), control_param="control" if "control" in tick_params else None,
                  time_params=[tick_params[0]])
    fl.block(body)
    for p_ in fl.problems:
        ctx.error(f"{where}: {p_}")
    for v in fl.violations:
        ctx.oblige("FLOW", where, v[:70], False, file=rel, func=func, construct="flow:" + v.split(":")[0] + ":" + v[-40:], msg=v)
    loops = [st for st in body if st[0] == "rangefor"]
    nsn = 0
    for st, n, hv in snaps:
        var = st[1][1] if isinstance(st[1], tuple) and st[1][0] == "ref" else "?"
        al = _aliases(st[3], var)
        nsn += 1
        for h, comp in (("@state", "state"), ("@covariance", "cov")):
            v = hv.get(h)
            ok = isinstance(v, estflow.Est) and v.comp == comp and v.fresh
            ctx.oblige("FLOW", where, f"after reading #{n}: held {h[1:]} = {v!r}", ok, file=rel, func=func, construct=f"held {h[1:]} after a reading",
                       msg=f"after a reading has been folded the held {h[1:]} is {v!r}; required the newest {comp} (the result of that reading's update)")
        v = hv.get("@current_time")
        okt = isinstance(v, estflow.TimeV) and any(v.text == f"{a}.timestamp" for a in al)
        ctx.oblige("FLOW", where, f"after reading #{n}: held time = {v!r}", okt, file=rel, func=func, construct="held time after a reading",
                   msg=f"after a reading has been folded the held time is {v!r}; required that reading's own timestamp")
    ups = [c for c in fl.calls if c["kind"] == "UPDATE"]
    for st in loops:
        var = st[1][1] if isinstance(st[1], tuple) and st[1][0] == "ref" else "?"
        al = _aliases(st[3], var)
        for c in ups:
            ir = c["ir"]
            for role, fld in (("sensor_key", "sensor_key"), ("sensor_reading", "_data")):
                a = ir.get(role)
                ok = a is not None and a[0] == "field" and a[2] == fld and a[1][0] == "ref" and a[1][1] in al
                ctx.oblige("FLOW", where, f"update {role} = {cppast.show(a) if a else None}", ok, file=rel, func=func, construct=f"update {role}",
                           msg=f"the sensor update is given `{cppast.show(a) if a else None}` as its {role}; required the folded reading's own {fld}")
        # DATA
        sites = []

        def walk(stmts, guard):
            for x in stmts:
                if x[0] == "assign" and x[1][0] == "field" and x[1][2] == "_data" and x[1][1][0] == "ref" and x[1][1][1] in al:
                    sites.append((x, list(guard)))
                if x[0] == "if" and x[4] is None:
                    walk(x[2], guard + [(x[1], True)])
                    walk(x[3], guard + [(x[1], False)])
        walk(st[3], [])
        okd, why = True, ""
        if len(sites) != 1:
            okd, why = False, f"{len(sites)} assignments of the reading's data in the reading loop (required exactly one, from make_reading)"
        else:
            x, guard = sites[0]
            lits = estflow.literals(guard)
            v = x[2]
            dref = x[1]
            if lits is None or len(lits) != 1 or not estflow.is_none_test(next(iter(lits)), dref):
                okd, why = False, "the reading's data is built under `" + " and ".join(("" if pol else "not ") + cppast.show(c) for c, pol in guard) + \
                    "`; required exactly when the reading has no data yet (`._data is None`)"
            elif not (v[0] == "mcall" and v[2] == "make_reading" and rtmodel.show2(v[1]) == "@_impl"):
                okd, why = False, f"the reading's data is built by `{cppast.show(v)[:80]}`, not by the filter's make_reading"
            else:
                args = v[3]
                pos = [a for a in args if a[0] != "kw"]
                kws = [a for a in args if a[0] == "kw"]
                okk = len(pos) == 1 and pos[0][0] == "field" and pos[0][2] == "sensor_key" and pos[0][1] == dref[1] \
                    and len(kws) == 1 and kws[0][1] is None and kws[0][2] == ("field", dref[1], "kwargs")
                if not okk:
                    okd, why = False, f"make_reading is called with `{', '.join(cppast.show(a) for a in args)[:100]}`; required (the reading's sensor_key, **the reading's keywords)"
        ctx.oblige("DATA", where, "data built from (sensor_key, **kwargs) exactly when absent", okd, file=rel, func=func, construct="reading data", msg=why)
    ctx.floor("FLOW", nsn, 2, "end-of-iteration states of the reading loop (two abstract iterations)")


def _aliases(stmts, var):
    """names that are plain copies of the loop variable inside the loop body"""
    al = {var}
    changed = True
    while changed:
        changed = False
        for x in stmts:
            if x[0] == "decl" and x[2] is not None and x[2][0] == "ref" and x[2][1] in al and x[1] not in al:
                al.add(x[1])
                changed = True
    return al


def cpp_part(ctx: core.Ctx, traces) -> int:
    ir = rtmodel.cpp_runtime_ir(ctx)
    if ir.get("__rc__"):
        ctx.note("ManagedFilter.h does not type-check for some valuation (see C12): " + ir["__diag__"].splitlines()[0][:160])
    nt = 0
    for val in ("v00", "v01", "v10", "v11"):
        ent = ir.get(val)
        if not ent:
            ctx.error(f"{HDR}: no instantiation found for valuation {val}")
            continue
        ticks = ent["tick"]

        def resolve(n, ticks=ticks):
            for params, body, line in ticks:
                if len(params) == n:
                    return params, body
            return None
        ticks = [(pr, rtmodel.inline_ir(bd, ent.get("helpers", {})), ln) for pr, bd, ln in ticks]

        def resolve(n, ticks=ticks):
            for params, body, line in ticks:
                if len(params) == n:
                    return params, body
            return None
        for params, body, line in ticks:
            nt += 1
            pn = [p for p, _ in params]
            readings = next((p for p, t in params if "vector" in t), None)
            control = next((p for p, t in params if "ControlT" in t), None)
            ctx.functions.append(f"ManagedFilter<{val}>::tick({', '.join(pn)})")
            te = rtmodel.TickExec("cpp", "processUpdate", ["_state"], resolve, benign=("ScopeTimer",))
            te.block(body)
            check_tick(ctx, HDR, f"ManagedFilter::tick/{len(params)}", f"C++ {val}", te.events, te.problems, held_all=["_state"],
                       held_state=["_state.state"], readings_param=readings, output_param=pn[0], control_param=control, lang="cpp")
            if readings is not None:
                traces[f"C++ {val} tick/{len(params)}"] = canon(te.events)
    return nt
