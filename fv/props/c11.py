"""C11 -- tick = fold readings in order, hold at last reading, report at output time.

runtime.ManagedFilter.tick (Python, ast) and every ManagedFilter::tick overload (C++, clang AST of an
instantiation per control x calibration valuation) are flattened into ordered event lists
(STEP = call of the step function, UPDATE = sensor_model call, WRITE / writes of held fields, RETURN) and
compared with the TickPlan of DESIGN.md section 2/E5:

  ORDER      the loop iterates the `readings` parameter itself; per reading: STEP(reading.timestamp) whose
             result is written to every held field, then UPDATE on the held state, result written to the held state
  READ-ONLY  after the loop: STEP(output time) whose result is returned and written to no held field; overloads
             without readings write nothing held; (the step function itself writes nothing: C10/READ-ONLY)
  CONTROL    Python: `control is None and control_size > 0 -> raise` precedes the first STEP; C++: the overloads with
             a control parameter static_assert that the filter has controls, those without that it has none;
             every STEP passes the control on
  SIBLINGS   the Python and C++ plans are equal after normalisation
"""
from .. import core, rtmodel, cppast

META = dict(level="other", trusted_base=["clang++-14 front end"],
            assumptions=["sensor_model / process_model of the wrapped filter are C04/C05's functions"])

PYF = "py/formak/runtime.py"
HDR = "cpp/runtime/include/formak/runtime/ManagedFilter.h"


def canon(events):
    """implementation-neutral trace of the STEP/UPDATE/RETURN skeleton"""
    out = []
    for e in events:
        if e.kind in ("STEP", "UPDATE", "LOOP-BEGIN", "LOOP-END"):
            out.append((e.kind, e.in_loop))
    return out


def check_tick(ctx, file, func, tag, events, problems, *, held_all, held_state, readings_param, output_param, control_param, lang):
    where = f"{file}:{func} [{tag}]"
    for p in problems:
        ctx.error(f"{where}: {p}")
    loops = [e for e in events if e.kind == "LOOP-BEGIN"]
    is_held = lambda t: t.startswith("@") and any(t == "@" + h or t.startswith("@" + h + ".") for h in held_all)
    if readings_param is None:
        # overload without readings: STEP(output) -> RETURN, nothing held is written
        ctx.oblige("ORDER", where, "no loop in a tick without readings", not loops, file=file, func=func, construct="loop in no-readings tick",
                   msg="a tick overload without a readings parameter loops")
    else:
        ctx.oblige("ORDER", where, f"{len(loops)} loop(s)", len(loops) == 1, file=file, func=func, construct="reading loop count",
                   msg=f"tick has {len(loops)} loops over readings; the plan has exactly one")
    if loops:
        lp = loops[0]
        rng = lp.detail.get("range")
        rng_ok = rng == ("ref", readings_param)
        ctx.oblige("ORDER", where, f"loop iterates `{lp.detail.get('range_text')}`", rng_ok, file=file, func=func, construct="reading loop range",
                   msg=f"readings are iterated through `{lp.detail.get('range_text')}`, not the readings argument itself "
                       f"in the order given (sorting, reversing, filtering or slicing changes the fold)")
        var = lp.detail.get("var")
        i0 = events.index(lp)
        i1 = next((i for i, e in enumerate(events) if e.kind == "LOOP-END" and i > i0), len(events))
        inner = [e for e in events[i0 + 1:i1] if e.kind in ("STEP", "UPDATE")]
        kinds = [e.kind for e in inner]
        ctx.oblige("ORDER", where, f"per reading: {kinds}", kinds == ["STEP", "UPDATE"], file=file, func=func, construct="per-reading sequence",
                   msg=f"per reading the calls are {kinds}; required: propagate to the reading's time, then apply its sensor update")
        unguarded = all(not e.guard for e in inner)
        ctx.oblige("ORDER", where, "per-reading calls are unconditional", unguarded, file=file, func=func, construct="per-reading guards",
                   msg="a per-reading propagate/update call is conditional: " + "; ".join(",".join(e.guard) for e in inner if e.guard))
        for e in inner:
            if e.kind == "STEP":
                okt = e.detail["target"] == f"{var}.timestamp"
                ctx.oblige("ORDER", where, f"STEP target {e.detail['target']}", okt, file=file, func=func, construct="per-reading step target",
                           msg=f"the per-reading propagation goes to `{e.detail['target']}`, not to the reading's own timestamp")
                w = set(e.detail["writes"])
                need = {"@" + h for h in held_all}
                okw = e.detail["whole"] and (w == need)
                ctx.oblige("ORDER", where, f"STEP result held in {sorted(w)}", okw, file=file, func=func, construct="per-reading hold",
                           msg=f"the propagated estimate is written to {sorted(w)}; the plan holds time, state and covariance ({sorted(need)})")
            else:
                args = e.detail["args"]
                uses = all(any(a == "@" + h or a.endswith("=@" + h) for a in args) for h in held_state)
                ctx.oblige("ORDER", where, f"UPDATE args {args}", uses, file=file, func=func, construct="per-reading update input",
                           msg=f"the sensor update is applied to {args}, not to the held estimate just propagated")
                w = set(e.detail["writes"])
                okw = w == {"@" + h for h in held_state}
                ctx.oblige("ORDER", where, f"UPDATE result held in {sorted(w)}", okw, file=file, func=func, construct="per-reading update hold",
                           msg=f"the updated estimate is written to {sorted(w)}, not to the held state")
        for e in events[i0 + 1:i1]:
            if e.kind == "WRITE" and is_held(e.detail["target"]):
                ctx.oblige("ORDER", where, f"extra held write {e.detail['target']}", False, file=file, func=func,
                           construct="extra held write in loop:" + e.detail["target"],
                           msg=f"the held field {e.detail['target']} is also written by `{e.detail['value']}` inside the reading loop")
        tail = events[i1 + 1:]
    else:
        tail = events
    # ---- output part
    steps = [e for e in tail if e.kind == "STEP"]
    ups = [e for e in tail if e.kind == "UPDATE"]
    rets = [e for e in tail if e.kind == "RETURN"]
    ctx.oblige("READ-ONLY", where, f"after the loop: {[e.kind for e in tail if e.kind in ('STEP','UPDATE','WRITE','RETURN')]}",
               len(steps) == 1 and not ups and rets, file=file, func=func, construct="output sequence",
               msg="after the readings the tick must propagate once to the output time and return that; found "
                   f"{[e.kind for e in tail if e.kind in ('STEP','UPDATE','WRITE','RETURN')]}")
    for e in steps:
        okt = e.detail["target"] == output_param
        ctx.oblige("READ-ONLY", where, f"output STEP target {e.detail['target']}", okt, file=file, func=func, construct="output step target",
                   msg=f"the reported estimate is propagated to `{e.detail['target']}`, not to the requested output time")
        hw = [t for t in e.detail["writes"] if is_held(t)]
        ctx.oblige("READ-ONLY", where, f"output STEP writes {e.detail['writes']}", not hw, file=file, func=func, construct="output step hold",
                   msg=f"the estimate propagated to the output time is written to the held field(s) {hw}: a tick must not hold its output")
        if rets:
            r = rets[0]
            val = r.detail.get("value") or ""
            okr = (e.detail["text"] in val) or any(w == val for w in e.detail["writes"]) or any(w in val.split(".")[0:1] for w in e.detail["writes"])
            ctx.oblige("READ-ONLY", where, f"returns {val}", okr, file=file, func=func, construct="output return",
                       msg=f"tick returns `{val}`, which is not the estimate propagated to the output time")
    for e in tail:
        if e.kind == "WRITE" and is_held(e.detail["target"]):
            ctx.oblige("READ-ONLY", where, f"held write {e.detail['target']} after the loop", False, file=file, func=func,
                       construct="held write after loop:" + e.detail["target"],
                       msg=f"after the readings the held field {e.detail['target']} is written (`{e.detail['value']}`)")
    # ---- control
    allsteps = [e for e in events if e.kind == "STEP"]
    if control_param is not None:
        for e in allsteps:
            okc = any(a == control_param or a == f"control={control_param}" for a in e.detail["args"])
            ctx.oblige("CONTROL", where, f"STEP args {e.detail['args']}", okc, file=file, func=func, construct="control passthrough",
                       msg=f"a propagation is issued with {e.detail['args']}: the tick's control is not passed on")
    if lang == "py":
        first_step = next((i for i, e in enumerate(events) if e.kind == "STEP"), len(events))
        raises = [e for e in events[:first_step] if e.kind == "RAISE" and any("control" in g and "None" in g and "control_size" in g for g in e.guard)]
        ctx.oblige("CONTROL", where, "control required guard precedes the first propagation", bool(raises), file=file, func=func,
                   construct="control-required guard", msg="no `control is None and control_size > 0 -> raise` before the first propagation")
    else:
        asserts = [e for e in events if e.kind == "ASSERT"]
        want = "!is_same_v" if control_param is not None else "is_same_v"
        oka = bool(asserts) and asserts[0].detail["text"] == want
        ctx.oblige("CONTROL", where, f"static_assert({asserts[0].detail['text'] if asserts else None})", oka, file=file, func=func,
                   construct="control static_assert",
                   msg=f"overload {'with' if control_param else 'without'} control lacks static_assert({want}<ControlT, false_type>)")


def run(ctx: core.Ctx) -> int:
    for rid, t in (("ORDER", "readings folded in the order given: STEP(reading time) -> hold; UPDATE(held) -> hold"),
                   ("READ-ONLY", "the output propagation is returned and never held"),
                   ("CONTROL", "a filter with controls cannot be ticked without them; controls are passed on"),
                   ("SIBLINGS", "Python and C++ tick plans are equal")):
        ctx.rule(rid, t)
    traces = {}
    # ---- Python
    rel, cls = rtmodel.py_runtime(ctx)
    fn = core.need(core.find_func(cls, "tick"), "runtime.ManagedFilter.tick")
    ctx.functions.append("runtime.ManagedFilter.tick")
    names = [a.arg for a in fn.args.args if a.arg != "self"] + [a.arg for a in fn.args.kwonlyargs]
    if "readings" not in names or "control" not in names or not names:
        raise core.AnalysisError(f"runtime.ManagedFilter.tick parameters {names} lack output time / control / readings")
    te = rtmodel.TickExec("py", "_process_model", ["current_time", "state", "covariance"])
    body = rtmodel.py_block(fn.body)
    # `if readings is None: readings = []` is the default-argument idiom; it rebinds the parameter to the empty list
    body = [s for s in body if not (s[0] == "if" and s[1] == ("bin", "is", ("ref", "readings"), ("num", "None"))
                                    and s[2] == [("decl", "readings", ("init", "tuple", []), "")] and not s[3])]
    te.block(body)
    check_tick(ctx, rel, "ManagedFilter.tick", "python", te.events, te.problems, held_all=["current_time", "state", "covariance"],
               held_state=["state", "covariance"], readings_param="readings", output_param=names[0], control_param="control", lang="py")
    traces["python"] = canon(te.events)
    nt = cpp_part(ctx, traces)
    ctx.floor("TICKPLAN", nt + 1, 9, "tick bodies (1 Python + 2 per C++ valuation)")
    ref = traces.get("python")
    for k, t in traces.items():
        ctx.oblige("SIBLINGS", f"{k}", f"trace {t}", t == ref, file=HDR if k != "python" else PYF, func="tick", construct=f"sibling trace {k.split()[0]}",
                   msg=f"the call skeleton of {k} is {t}, Python's is {ref}")
    return core.finish(ctx, explanation="E5: ordered event lists of every tick body vs the TickPlan; effect analysis of held fields", **META)


def cpp_part(ctx: core.Ctx, traces) -> int:
    ir = rtmodel.cpp_runtime_ir(ctx)
    if ir.get("__rc__"):
        ctx.note("ManagedFilter.h does not type-check for some valuation (see C12): " + ir["__diag__"].splitlines()[0][:160])
    nt = 0
    for val in ("v00", "v01", "v10", "v11"):
        ent = ir.get(val)
        if not ent:
            ctx.error(f"{HDR}: no instantiation found for valuation {val}")
            continue
        ticks = ent["tick"]

        def resolve(n, ticks=ticks):
            for params, body, line in ticks:
                if len(params) == n:
                    return params, body
            return None
        for params, body, line in ticks:
            nt += 1
            pn = [p for p, _ in params]
            readings = next((p for p, t in params if "vector" in t), None)
            control = next((p for p, t in params if "ControlT" in t), None)
            ctx.functions.append(f"ManagedFilter<{val}>::tick({', '.join(pn)})")
            te = rtmodel.TickExec("cpp", "processUpdate", ["_state"], resolve, benign=("ScopeTimer",))
            te.block(body)
            check_tick(ctx, HDR, f"ManagedFilter::tick/{len(params)}", f"C++ {val}", te.events, te.problems, held_all=["_state"],
                       held_state=["_state.state"], readings_param=readings, output_param=pn[0], control_param=control, lang="cpp")
            if readings is not None:
                traces[f"C++ {val} tick/{len(params)}"] = canon(te.events)
    return nt
