"""C10 -- the managed filter moves through time in bounded, correctly directed steps.

runtime.ManagedFilter._process_model (Python, via ast) and both ManagedFilter::processUpdate overloads (C++,
via clang's AST of an instantiation for each control x calibration valuation) are lowered to one IR and
symbolically executed under the two direction scenarios (held < target, held > target) into a StepPlan:

    h := +-max            k := [abs] floor([abs] (target - held) / h)
    k times PREDICT(h)    it := held + h*k      if |target - it| >= eps: PREDICT(target - it)

Rules: DIR (sign of every loop step is the direction of travel), MAG (every loop step is +-the *configured*
maximum -- a numeric literal is a violation -- and the configured value reaches the generated C++ constant
without lossy formatting), TEMPLATE (loop bound operands and rounding, remainder and its eps guard, eps <= 1e-9),
READ-ONLY (the step function writes no held field).  The arithmetic lemma of DESIGN.md section 3/C10 shows that
DIR + MAG + TEMPLATE imply every clause of the property for moderate times.
"""
import ast

from .. import core, rtmodel, cppast

META = dict(level="other",
            trusted_base=["clang++-14 front end", "IEEE floor/abs; one rounding of the quotient (lemma in DESIGN.md)"],
            assumptions=["configured max_dt_sec > 0 (asserted by ManagedFilter::compatible; Config default / cpp.Config.ccode guard)",
                         "times of moderate magnitude (the property's quantifier)"])

PYF = "py/formak/runtime.py"
HDR = "cpp/runtime/include/formak/runtime/ManagedFilter.h"


def run(ctx: core.Ctx) -> int:
    step_rules(ctx)
    from . import c06 as _c06
    _c06.config_pass(ctx)
    mag_gen(ctx)
    # HOLD: a move to a reading's time is committed as one unit -- the time and the estimate that was moved there are held together.  If the time is
    # held first and the estimate only after the sensor update, an update that raises leaves the clock ahead of the estimate and every later move
    # is short by that gap (its steps no longer sum to the time the estimate really travels).  Decided by C11's tick analysis (the per-reading
    # hold clause of its ORDER rule), on the Python and the C++ tick.
    ctx.rule("HOLD", "the result of a move to a reading's time is held whole: time, state and covariance in one assignment")
    from . import c11 as _c11
    sub = core.Ctx(ctx.prop, ctx.tier, ctx.repo)
    _c11.py_part(sub, {})
    _c11.cpp_part(sub, {})
    nh = 0
    for o in sub.obligations:
        if o.rule == "ORDER" and o.fact.startswith("STEP result held in"):
            nh += 1
            ctx.obligations.append(core.Obligation("HOLD", o.where, o.fact, o.ok))
    for f in sub.findings:
        if f.rule == "ORDER" and f.construct == "per-reading hold":
            ctx.find("HOLD", f.file, f.func, f.construct, f.msg + " -- the held time and the held estimate can disagree after an update that raises", f.line)
    for e in sub.errors:
        ctx.error(e)
    ctx.floor("HOLD", nh, 5, "per-reading holds (1 Python + 4 C++ tick overloads with readings)")
    # the configured maximum the runtime reads is the one the user configured: the adapter's set_params changes exactly the named field (C17's rule)
    from . import c17 as _c17sp
    _pm = ctx.parse("py/formak/python.py")
    ctx.rule("SET-PARAMS", "set_params: each key by setattr / a per-key Config rebuild from the current config / raise (shared with C17)")
    _c17sp.set_params_rule(ctx, core.find_class(_pm, "SklearnEKFAdapter"), _pm)
    return core.finish(ctx, explanation="E5: IR-level symbolic execution of the step functions under direction scenarios, "
                                        "sign analysis + provenance + effects", **META)


def step_rules(ctx: core.Ctx):
    """the step plans of the Python and the C++ step function against the template (also C11's "same sequence of filter calls" clause)"""
    ctx.rule("DIR", "on held < target every loop step is > 0, on held > target every loop step is < 0")
    ctx.rule("MAG", "every loop step is +-(configured max step); no numeric literal; config value printed losslessly into C++")
    ctx.rule("TEMPLATE", "k = [abs] floor([abs] (target-held)/h) with a non-negative floored quotient; remainder = target-(held+h*k) "
                         "under |target - it| >= eps, 0 < eps <= 1e-9")
    ctx.rule("READ-ONLY", "the step function assigns no attribute / member")
    ctx.rule("CHAIN", "every prediction step starts from the newest estimate (held estimate first, then the previous step's result), state and "
                      "covariance in their own parameters, the control passed on; the newest estimate is what is returned, under its own field names")
    nplans = 0
    # ---- Python
    rel, cls = rtmodel.py_runtime(ctx)
    fn = rtmodel.py_runtime_func(ctx, cls, "_process_model")
    ctx.functions.append("runtime.ManagedFilter._process_model")
    params = [a.arg for a in fn.args.args if a.arg != "self"]
    if not params:
        raise core.AnalysisError("_process_model has no target-time parameter")
    body = rtmodel.py_block(fn.body)
    variants = [("", body, None)]
    extras = [p for p in params[1:] if p != "control"]
    if extras:
        # the step (or something it is computed from) is handed in by the callers: analyse the function once per call site with the
        # caller's argument expressions inlined (caller-local names are kept apart from the callee's: `caller::name`)
        from .. import normstmt
        variants = []
        for m in cls.body:
            if not isinstance(m, ast.FunctionDef) or m is fn:
                continue
            al = normstmt.Aliases(m)
            for c in ast.walk(m):
                if isinstance(c, ast.Call) and isinstance(c.func, ast.Attribute) and c.func.attr == fn.name and isinstance(c.func.value, ast.Name) and c.func.value.id == "self":
                    bound = dict(zip(params, c.args))
                    bound.update({k.arg: k.value for k in c.keywords if k.arg in params})
                    import copy
                    # backward slice of the caller: the top-level statements before the call that define what the extra arguments use
                    top = None
                    for st in m.body:
                        if c in list(ast.walk(st)):
                            top = st
                    before = m.body[:m.body.index(top)] if top is not None else []
                    needed = set()
                    for p in extras:
                        if p in bound:
                            needed |= {n.id for n in ast.walk(bound[p]) if isinstance(n, ast.Name) and n.id != "self"}
                    sl = []
                    for st in reversed(before):
                        assigned = {t.id for a in ast.walk(st) if isinstance(a, (ast.Assign, ast.AugAssign))
                                    for t in (a.targets if isinstance(a, ast.Assign) else [a.target]) if isinstance(t, ast.Name)}
                        if assigned & needed:
                            sl.insert(0, st)
                            needed |= {n.id for n in ast.walk(st) if isinstance(n, ast.Name) and n.id != "self"}

                    def ren(node):
                        node = copy.deepcopy(node)
                        for nmn in ast.walk(node):
                            if isinstance(nmn, ast.Name) and nmn.id != "self":
                                nmn.id = "caller::" + nmn.id
                        return node
                    pre = rtmodel.py_block([ren(st) for st in sl])
                    for p in extras:
                        if p not in bound:
                            continue
                        pre.append(("decl", p, rtmodel.py_expr(ren(bound[p])), ""))
                    tgt_ir = rtmodel.py_expr(ren(bound[params[0]])) if params[0] in bound else None
                    variants.append((f" called from {m.name}:{c.lineno}", pre + body, tgt_ir))
        if not variants:
            ctx.error(f"{rel}: _process_model takes {extras} but no call site was found")
    for vtag, vbody, tgt_ir in variants:
        base_anchor = rtmodel.py_anchor(params[0])

        def anchor(e, tgt_ir=tgt_ir, base_anchor=base_anchor):
            if tgt_ir is not None and e == tgt_ir:
                return rtmodel.Sym.TARGET          # the caller's own expression for this move's target
            return base_anchor(e)
        for sc in ("fwd", "bwd"):
            for plan in rtmodel.step_plans("py", "_process_model", vbody, sc, anchor):
                rtmodel.check_stepplan(ctx, plan, rel, "ManagedFilter._process_model", "python" + vtag)
                nplans += 1
                if not plan.foreign_tests:
                    _check_return(ctx, plan, rel, "ManagedFilter._process_model", "python" + vtag)
    chain_py(ctx, cls, fn, [v[1] for v in variants] if extras else [body])
    nplans += cpp_part(ctx)
    ctx.floor("STEPPLAN", nplans, 10, "step plans (1 Python + 4 C++ instantiations, 2 directions each)")
    return nplans


def py_filter_sigs(ctx):
    """parameter names of python.ExtendedKalmanFilter.process_model / sensor_model and the record they return (resolved from python.py)"""
    from .. import estflow
    pm = ctx.parse("py/formak/python.py")
    ekf = core.need(core.find_class(pm, "ExtendedKalmanFilter"), "python.ExtendedKalmanFilter")
    recs = estflow.namedtuples(pm)
    out = {}
    for name in ("process_model", "sensor_model"):
        f = core.need(core.find_func(ekf, name), f"python.ExtendedKalmanFilter.{name}")
        pos = [a.arg for a in f.args.posonlyargs + f.args.args if a.arg != "self"]
        kwo = [a.arg for a in f.args.kwonlyargs]
        def ret_ctors(fn_, depth=0):
            out_ = set()
            for r in core.own_walk(fn_):
                if isinstance(r, ast.Return) and isinstance(r.value, ast.Call):
                    t = ast.unparse(r.value.func)
                    callee = core.find_func(ekf, t[5:]) if t.startswith("self.") else None
                    if callee is not None and depth < 4:
                        out_ |= ret_ctors(callee, depth + 1)      # return self._helper(...): what the helper returns
                    else:
                        out_.add(t)
            return out_
        rets = ret_ctors(f)
        rec = [r for r in rets if r in recs]
        if len(rec) != 1 or len(rets) != 1:
            raise core.AnalysisError(f"python.ExtendedKalmanFilter.{name} does not return one namedtuple record type (returns {sorted(rets)})")
        out[name] = (pos, kwo, recs[rec[0]])
    return out, recs


def _fresh_record(fields, origin):
    from .. import estflow
    comp = {"state": "state", "covariance": "cov"}
    return estflow.Sav({f: (estflow.Est(comp[f], True, origin) if f in comp else None) for f in fields})


def chain_py(ctx: core.Ctx, cls, fn, bodies):
    from .. import estflow
    sigs, recs = py_filter_sigs(ctx)
    recs = dict(recs)
    recs.update(estflow.namedtuples(ctx.parse(PYF)))
    params = [a.arg for a in fn.args.args if a.arg != "self"]
    ppos, pkwo, prec = sigs["process_model"]
    where = f"{PYF}:ManagedFilter._process_model [python]"
    n = 0
    for body in bodies:
        fl = estflow.Flow("py", {"@state": "state", "@covariance": "cov", "@current_time": "time"}, recs, impl="@_impl",
                          predict_roles=ppos, predict_ret=lambda o: _fresh_record(prec, o),
                          control_param="control" if "control" in params else None, time_params=[params[0]])
        fl.block(body)
        for p in fl.problems:
            ctx.error(f"{where}: {p}")
        n += len(fl.calls)
        for v in fl.violations:
            ctx.oblige("CHAIN", where, v[:70], False, file=PYF, func="ManagedFilter._process_model", construct="chain:" + v.split(":")[0] + ":" + v[-40:], msg=v)
        for ir, v in fl.returns:
            ok = isinstance(v, estflow.Tup) and len(v.items) == 2 and isinstance(v.items[0], estflow.TimeV) and isinstance(v.items[1], estflow.Sav)
            if ok:
                f = v.items[1].fields
                ok = all(isinstance(f.get(k), estflow.Est) and f[k].comp == c and f[k].fresh for k, c in (("state", "state"), ("covariance", "cov")))
            ctx.oblige("CHAIN", where, f"returns {v!r}", ok, file=PYF, func="ManagedFilter._process_model", construct="chain return",
                       msg=f"the step function returns `{cppast.show(ir)}` = {v!r}; required (target time, record(state = newest state, covariance = newest covariance))")
        ctx.oblige("CHAIN", where, f"{len(fl.calls)} process_model call(s) start from the newest estimate", not fl.violations, file=PYF,
                   func="ManagedFilter._process_model", construct="chain ok")
    ctx.floor("CHAIN", n, 2, "process_model call sites in the Python step function")


def chain_cpp(ctx, val, params, body, idx):
    from .. import estflow
    control = next((p for p, t in params if "ControlT" in t), None)
    fl = estflow.Flow("cpp", {"@_state": "whole"}, {}, impl="@_impl", predict_roles=[], predict_ret=lambda o: estflow.Est("pair", True, o),
                      control_param=control, time_params=[params[0][0]])
    fl.block(body)
    func = f"ManagedFilter::processUpdate/{len(params)}"
    where = f"{HDR}:{func} [C++ {val}]"
    for p in fl.problems:
        ctx.error(f"{where}: {p}")
    for v in fl.violations:
        ctx.oblige("CHAIN", where, v[:70], False, file=HDR, func=func, construct="chain:" + v.split(":")[0] + ":" + v[-40:], msg=v)
    for ir, v in fl.returns:
        ok = isinstance(v, estflow.Tup) and len(v.items) == 2 and isinstance(v.items[0], estflow.TimeV) \
            and isinstance(v.items[1], estflow.Est) and v.items[1].comp == "pair" and v.items[1].fresh
        ctx.oblige("CHAIN", where, f"returns {v!r}", ok, file=HDR, func=func, construct="chain return",
                   msg=f"processUpdate returns `{cppast.show(ir)}` = {v!r}; required {{target time, newest estimate}}")
    ctx.oblige("CHAIN", where, f"{len(fl.calls)} process_model call(s) start from the newest estimate", not fl.violations, file=HDR, func=func, construct="chain ok")
    if len(fl.calls) < 2:
        ctx.error(f"{where}: only {len(fl.calls)} process_model call(s) found")
    return len(fl.calls)


def cpp_part(ctx: core.Ctx) -> int:
    nplans = 0
    ir = rtmodel.cpp_runtime_ir(ctx)
    if ir.get("__rc__"):
        # a compile error in the runtime header is C12's finding; here it only prevents the analysis
        ctx.note("ManagedFilter.h does not type-check for some valuation (see C12): " + ir["__diag__"].splitlines()[0][:160])
    seen = 0
    for val in ("v00", "v01", "v10", "v11"):
        ent = ir.get(val)
        if not ent:
            ctx.error(f"{HDR}: no instantiation found for valuation {val}")
            continue
        for params, body, line in ent["processUpdate"]:
            body = rtmodel.inline_ir(body, ent.get("helpers", {}))
            seen += 1
            ctx.functions.append(f"ManagedFilter<{val}>::processUpdate({', '.join(t for _, t in params)})")
            chain_cpp(ctx, val, params, body, seen)
            for sc in ("fwd", "bwd"):
                for plan in rtmodel.step_plans("cpp", "processUpdate", body, sc, rtmodel.cpp_anchor(params[0][0])):
                    rtmodel.check_stepplan(ctx, plan, HDR, f"ManagedFilter::processUpdate/{len(params)}", f"C++ {val}")
                    _check_return(ctx, plan, HDR, f"ManagedFilter::processUpdate/{len(params)}", f"C++ {val}")
                    nplans += 1
    return nplans


def _check_return(ctx, plan, file, func, tag):
    where = f"{file}:{func} [{tag}, {plan.scenario}]"
    ok = plan.ret_time is not None and plan.ret_time == rtmodel.Sym.TARGET
    ctx.oblige("TEMPLATE", where, f"returns {cppast.show(plan.ret) if plan.ret else None}", ok, file=file, func=func,
               construct=f"return {plan.scenario}",
               msg=f"the step function returns {cppast.show(plan.ret) if plan.ret else None}; the time of the result must be the target time itself")


def mag_gen(ctx: core.Ctx):
    """MAG provenance through the generator: Config.max_dt_sec -> cpp::Config::max_dt_sec -> Tag::max_dt_sec, printed losslessly."""
    cpp = ctx.parse("py/formak/cpp.py")
    cfg = core.need(core.find_class(cpp, "Config"), "cpp.Config")
    cc = core.need(core.find_func(cfg, "ccode"), "cpp.Config.ccode")
    ctx.functions.append("cpp.Config.ccode")
    found = 0
    for n in ast.walk(cc):
        if isinstance(n, ast.Call) and isinstance(n.func, ast.Name) and n.func.id == "MemberDeclaration" and len(n.args) >= 3 \
                and isinstance(n.args[1], ast.Constant) and n.args[1].value == "max_dt_sec":
            found += 1
            v = n.args[2]
            ok = isinstance(v, ast.Attribute) and isinstance(v.value, ast.Name) and v.value.id == "self" and v.attr == "max_dt_sec"
            ctx.oblige("MAG", "py/formak/cpp.py:Config.ccode", f"cpp::Config::max_dt_sec = {ast.unparse(v)}", ok, file="py/formak/cpp.py",
                       func="Config.ccode", construct="max_dt_sec value",
                       msg=f"the generated constant cpp::Config::max_dt_sec is printed from `{ast.unparse(v)}`, not from the configured "
                           f"float itself (formatting / rounding changes the maximum step the C++ runtime uses)", line=n.lineno)
            ok2 = isinstance(n.args[0], ast.Constant) and "double" in str(n.args[0].value)
            ctx.oblige("MAG", "py/formak/cpp.py:Config.ccode", f"type {ast.unparse(n.args[0])}", ok2, file="py/formak/cpp.py",
                       func="Config.ccode", construct="max_dt_sec type", msg="cpp::Config::max_dt_sec is not declared as a double", line=n.lineno)
    ctx.floor("MAG-GEN", found, 1, "MemberDeclaration of max_dt_sec in cpp.Config.ccode")
    tools = ctx.parse("py/formak/ast_tools.py")
    md = core.need(core.find_class(tools, "MemberDeclaration"), "ast_tools.MemberDeclaration")
    comp = core.need(core.find_func(md, "compile"), "ast_tools.MemberDeclaration.compile")
    lossless = True
    uses = 0
    for n in ast.walk(comp):
        if isinstance(n, ast.FormattedValue) and "value" in ast.unparse(n.value):
            uses += 1
            if n.format_spec is not None or n.conversion not in (-1, 115, 114):
                lossless = False
    ctx.oblige("MAG", "py/formak/ast_tools.py:MemberDeclaration.compile", "value printed with str()/repr() (round-trip for floats)",
               lossless and uses > 0, file="py/formak/ast_tools.py", func="MemberDeclaration.compile", construct="value format",
               msg="MemberDeclaration prints its value through a format specification (lossy for floats)")
    frag = ctx.parse("py/formak/ast_fragments.py")
    tag = core.need(core.find_func(frag, "_EKF_Tag_body"), "ast_fragments._EKF_Tag_body")
    okt = False
    for n in ast.walk(tag):
        if isinstance(n, ast.Call) and isinstance(n.func, ast.Name) and n.func.id == "MemberDeclaration" and len(n.args) >= 3 \
                and isinstance(n.args[1], ast.Constant) and n.args[1].value == "max_dt_sec":
            v = n.args[2]
            okt = isinstance(v, ast.Constant) and str(v.value).replace(" ", "") == "cpp::Config::max_dt_sec"
            ctx.oblige("MAG", "py/formak/ast_fragments.py:_EKF_Tag_body", f"Tag::max_dt_sec = {ast.unparse(v)}", okt,
                       file="py/formak/ast_fragments.py", func="_EKF_Tag_body", construct="Tag::max_dt_sec",
                       msg=f"Tag::max_dt_sec is initialised from {ast.unparse(v)}, not from cpp::Config::max_dt_sec", line=n.lineno)
    # Python side: Config.max_dt_sec is a plain dataclass field read directly by the runtime (anchor in py_anchor)
