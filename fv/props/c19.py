"""C19 -- the strapdown IMU reference model obeys rigid-body kinematics.

The identities themselves are polynomial identities of one fixed program; deciding them needs computer algebra on the built
expressions (execution) or a solver -- outside this family.  Decided is the **wiring**, each item a necessary condition,
by def-use inlining of the module's assignments into terms and comparison modulo commutativity of + / scalar *:
  SAME-ORIENTATION  orientation = (state quaternion).mul(calibration quaternion); its conjugate negates exactly the vector part;
                    the gyro rotation o.mul(Q(0, gyro)).mul(conj) and the specific-force rotation R(o) use that one orientation
  BIAS-GRAVITY      the rotated vector is accel[i] - bias[i] componentwise; gravity (0, 0, -g) is added after the rotation
  ORIENT-STEP       next = (0.5 * q_state.mul(Q(0, gyro)) * dt) + q_state, in this operand order, with the state quaternion only
  AXIS / INTEGRALS  accel_i = R..[i]; velocity_i = velocity_i + integrate(accel_i, dt);
                    position_i = position_i + integrate(velocity_i + integrate(accel_i, dt), dt), each with its own axis index
  ROLES             the symbols sit in the sets the property names (state / control / calibration) and every state has an entry
The statement's last sentence (the compiled model returns these values) is C01.
"""
import ast

from .. import core

META = dict(level="other", trusted_base=["sympy Quaternion.mul / add / to_rotation_matrix, Matrix product, integrate"],
            assumptions=["the algebraic identities follow from this wiring (confirmed once by computer algebra during triage; not re-decided here)"])
F = "py/formak/reference_models/strapdown_imu.py"


class Terms:
    def __init__(self, mod: ast.Module):
        self.defs = {}
        self.updates = {}
        for s in mod.body:
            if isinstance(s, ast.Assign) and len(s.targets) == 1:
                t = s.targets[0]
                if isinstance(t, ast.Name):
                    self.defs[t.id] = s.value
                elif isinstance(t, ast.Tuple) and all(isinstance(e, ast.Name) for e in t.elts):
                    for i, e in enumerate(t.elts):
                        self.defs[e.id] = ("unpack", s.value, i)
                elif isinstance(t, ast.Subscript) and isinstance(t.value, ast.Name):
                    self.updates.setdefault(t.value.id, []).append(("item", t.slice, s.value))
            elif isinstance(s, ast.Expr) and isinstance(s.value, ast.Call) and isinstance(s.value.func, ast.Attribute) and s.value.func.attr == "update" \
                    and isinstance(s.value.func.value, ast.Name) and len(s.value.args) == 1 and not s.value.keywords:
                # a module-level mapping filled in steps: `state_model.update(zip(keys, values))`
                self.updates.setdefault(s.value.func.value.id, []).append(("update", s.value.args[0], None))
        self.cache = {}
        self.funcs = {f.name: f for f in mod.body if isinstance(f, ast.FunctionDef)}
        self.depth = 0

    def merge_update(self, v, new):
        entries = list(v[1])
        for k_, val_ in new:
            hit = [i for i, (k0, _) in enumerate(entries) if k0 == k_]
            if hit:
                entries[hit[0]] = (k_, val_)
            else:
                entries.append((k_, val_))
        return ("dict", tuple(entries))

    def pairs_of(self, u):
        if isinstance(u, tuple) and u and u[0] == "dict":
            return list(u[1])
        if isinstance(u, tuple) and u and u[0] == "list" and all(isinstance(x, tuple) and x[0] == "list" and len(x[1]) == 2 for x in u[1]):
            return [(x[1][0], x[1][1]) for x in u[1]]
        return None

    def call_user(self, fn, args, kwargs):
        """a helper function of the model file: straight-line body (local bindings, `d.update(..)` / `d[k] = v` on a local mapping, one return)"""
        if self.depth > 6 or fn.args.vararg or fn.args.kwarg:
            return ("unknown", fn.name)
        params = [a.arg for a in fn.args.posonlyargs + fn.args.args]
        if len(args) > len(params):
            return ("unknown", fn.name)
        loc = dict(zip(params, args))
        for k, v in kwargs.items():
            loc[k] = v
        defaults = dict(zip(params[len(params) - len(fn.args.defaults):], fn.args.defaults)) if fn.args.defaults else {}
        for p_ in params:
            if p_ not in loc:
                if p_ not in defaults:
                    return ("unknown", fn.name)
                loc[p_] = self.ev(defaults[p_])
        self.depth += 1
        try:
            for st in fn.body:
                if isinstance(st, ast.Expr) and isinstance(st.value, ast.Constant):
                    continue
                if isinstance(st, ast.Assign) and len(st.targets) == 1 and isinstance(st.targets[0], ast.Name):
                    loc[st.targets[0].id] = self.ev(st.value, loc)
                elif isinstance(st, ast.Assign) and len(st.targets) == 1 and isinstance(st.targets[0], ast.Subscript) and isinstance(st.targets[0].value, ast.Name) \
                        and st.targets[0].value.id in loc and loc[st.targets[0].value.id][0] == "dict":
                    nm = st.targets[0].value.id
                    loc[nm] = self.merge_update(loc[nm], [(self.ev(st.targets[0].slice, loc), self.ev(st.value, loc))])
                elif isinstance(st, ast.Expr) and isinstance(st.value, ast.Call) and isinstance(st.value.func, ast.Attribute) and st.value.func.attr == "update" \
                        and isinstance(st.value.func.value, ast.Name) and st.value.func.value.id in loc and len(st.value.args) == 1 \
                        and loc[st.value.func.value.id][0] == "dict":
                    nm = st.value.func.value.id
                    new = self.pairs_of(self.ev(st.value.args[0], loc))
                    if new is None:
                        return ("unknown", fn.name)
                    loc[nm] = self.merge_update(loc[nm], new)
                elif isinstance(st, ast.Return):
                    return self.ev(st.value, loc) if st.value is not None else ("const", None)
                else:
                    return ("unknown", fn.name)
        finally:
            self.depth -= 1
        return ("const", None)

    def name(self, n):
        if n in self.cache:
            return self.cache[n]
        d = self.defs.get(n)
        if d is None:
            v = ("free", n)
        elif isinstance(d, tuple):
            lst = self.ev(d[1])
            v = lst[1][d[2]] if isinstance(lst, tuple) and lst[0] == "list" and d[2] < len(lst[1]) else ("unknown", n)
        else:
            v = self.ev(d)
        for kind, a, b in self.updates.get(n, []):
            if not (isinstance(v, tuple) and v and v[0] == "dict"):
                v = ("unknown", n)
                break
            entries = list(v[1])
            if kind == "item":
                new = [(self.ev(a), self.ev(b))]
            else:
                u = self.ev(a)
                if isinstance(u, tuple) and u[0] == "dict":
                    new = list(u[1])
                elif isinstance(u, tuple) and u[0] == "list" and all(isinstance(x, tuple) and x[0] == "list" and len(x[1]) == 2 for x in u[1]):
                    new = [(x[1][0], x[1][1]) for x in u[1]]
                else:
                    v = ("unknown", n)
                    break
            for k_, val_ in new:
                hit = [i for i, (k0, _) in enumerate(entries) if k0 == k_]
                if hit:
                    entries[hit[0]] = (k_, val_)          # a later entry for the same key replaces the value, the position stays
                else:
                    entries.append((k_, val_))
            v = ("dict", tuple(entries))
        self.cache[n] = v
        return v

    def shape_of(self, t):
        """(rows, cols) of a matrix-valued term when it follows from its construction, else None"""
        if not isinstance(t, tuple) or not t:
            return None
        if t[0] == "vec":
            return (len(t[1]), 1)
        if t[0] == "R":
            return (3, 3)
        if t[0] == "mmul":
            a, b = self.shape_of(t[1]), self.shape_of(t[2])
            return (a[0], b[1]) if a and b else None
        if t[0] == "scale":
            return self.shape_of(t[2])
        if t[0] == "neg":
            return self.shape_of(t[1])
        if t[0] == "add":
            shapes = {self.shape_of(x) for x in t[1]}
            return next(iter(shapes)) if len(shapes) == 1 and None not in shapes else None
        return None

    def items_of(self, t):
        """elements of an iterable term, in order; None when unknown"""
        if not isinstance(t, tuple):
            return None
        if t[0] == "range":
            return [("const", i) for i in range(t[1])]
        if t[0] == "list":
            return list(t[1])
        sh = self.shape_of(t)
        if sh is not None and sh[1] == 1:
            # iterating a column matrix yields its entries from the top
            return [("elem", t, (i, 0)) for i in range(sh[0])]
        return None

    def bind(self, target, value, loc):
        if isinstance(target, ast.Name):
            return dict(loc, **{target.id: value})
        if isinstance(target, (ast.Tuple, ast.List)) and value[0] == "list" and len(value[1]) == len(target.elts):
            l2 = dict(loc)
            for t_, v_ in zip(target.elts, value[1]):
                l2 = self.bind(t_, v_, l2)
                if l2 is None:
                    return None
            return l2
        return None

    def ev(self, e, loc=None):
        loc = loc or {}
        if isinstance(e, ast.Name):
            if e.id in loc:
                return loc[e.id]
            return self.name(e.id)
        if isinstance(e, ast.Constant):
            return ("const", e.value)
        if isinstance(e, ast.UnaryOp) and isinstance(e.op, ast.USub):
            return ("neg", self.ev(e.operand, loc))
        if isinstance(e, ast.List) or isinstance(e, ast.Tuple):
            items = []
            for x in e.elts:
                if isinstance(x, ast.Starred):
                    v = self.ev(x.value, loc)
                    items.extend(v[1] if isinstance(v, tuple) and v[0] == "list" else [("unknown", ast.unparse(x))])
                else:
                    items.append(self.ev(x, loc))
            return ("list", tuple(items))
        if isinstance(e, (ast.ListComp, ast.GeneratorExp, ast.DictComp)) and len(e.generators) == 1 and not e.generators[0].ifs:
            g = e.generators[0]
            items = self.items_of(self.ev(g.iter, loc))
            if items is None:
                return ("unknown", ast.unparse(e)[:60])
            out = []
            for it_ in items:
                l2 = self.bind(g.target, it_, loc)
                if l2 is None:
                    return ("unknown", ast.unparse(e)[:60])
                out.append((self.ev(e.key, l2), self.ev(e.value, l2)) if isinstance(e, ast.DictComp) else self.ev(e.elt, l2))
            return ("dict", tuple(out)) if isinstance(e, ast.DictComp) else ("list", tuple(out))
        if isinstance(e, ast.Set):
            members = []
            for x in e.elts:
                if isinstance(x, ast.Starred):
                    v = self.ev(x.value, loc)
                    its = self.items_of(v)
                    members.extend(its if its is not None else [("star", v)])
                else:
                    members.append(self.ev(x, loc))
            return ("set", frozenset(members))
        if isinstance(e, ast.Subscript):
            b = self.ev(e.value, loc)
            s = e.slice
            if isinstance(s, ast.Tuple):
                idx = tuple(self.ev(x, loc) for x in s.elts)
                if all(i[0] == "const" for i in idx):
                    return ("elem", b, tuple(i[1] for i in idx))
                return ("unknown", ast.unparse(e))
            if isinstance(s, ast.Slice):
                its = self.items_of(b)
                lo = self.ev(s.lower, loc) if s.lower is not None else ("const", None)
                hi = self.ev(s.upper, loc) if s.upper is not None else ("const", None)
                st_ = self.ev(s.step, loc) if s.step is not None else ("const", None)
                if its is not None and lo[0] == hi[0] == st_[0] == "const" and all(x[1] is None or isinstance(x[1], int) for x in (lo, hi, st_)):
                    return ("list", tuple(its[slice(lo[1], hi[1], st_[1])]))
                return ("unknown", ast.unparse(e))
            i = self.ev(s, loc)
            if b[0] == "list" and i[0] == "const" and isinstance(i[1], int) and -len(b[1]) <= i[1] < 0:
                return b[1][i[1]]
            if b[0] == "list" and i[0] == "const" and isinstance(i[1], int) and 0 <= i[1] < len(b[1]):
                return b[1][i[1]]
            return ("unknown", ast.unparse(e))
        if isinstance(e, ast.Attribute):
            b = self.ev(e.value, loc)
            if e.attr in "abcd" and len(e.attr) == 1:
                if b[0] == "Q":
                    return b[1 + "abcd".index(e.attr)]
                return ("comp", b, e.attr)
            if e.attr == "args" and b[0] in ("Q", "qmul", "add", "scale", "neg"):
                # sympy's Quaternion.args is (a, b, c, d)
                return ("list", tuple(b[1:5])) if b[0] == "Q" else ("list", tuple(("comp", b, c_) for c_ in "abcd"))
            return ("attr", b, e.attr)
        if isinstance(e, ast.BinOp):
            l, r = self.ev(e.left, loc), self.ev(e.right, loc)
            if isinstance(e.op, ast.Add):
                if l[0] == "list" and r[0] == "list":
                    return ("list", l[1] + r[1])
                return add(l, r)
            if isinstance(e.op, ast.Sub):
                return add(l, ("neg", r))
            if isinstance(e.op, ast.Mult):
                return mul(l, r)
        if isinstance(e, ast.Call):
            f = e.func
            args = [self.ev(a, loc) if not isinstance(a, ast.Starred) else ("star", self.ev(a.value, loc)) for a in e.args]
            flat = []
            for a in args:
                if a[0] == "star" and a[1][0] == "list":
                    flat.extend(a[1][1])
                else:
                    flat.append(a)
            fname = ast.unparse(f)
            if fname == "range" and flat and flat[0][0] == "const":
                return ("range", flat[0][1])
            if fname == "Quaternion" and len(flat) == 4:
                return ("Q",) + tuple(flat)
            if fname in ("ui.Symbol", "Symbol") and flat and flat[0][0] == "const":
                return ("sym", flat[0][1])
            if fname in ("ui.symbols", "symbols") and flat and flat[0][0] == "list":
                return ("list", tuple(("sym", x[1]) if x[0] in ("const", "fstr") else ("unknown", "sym") for x in flat[0][1]))
            if fname == "axis_set" and flat and flat[0][0] == "const":
                return ("list", tuple(("sym", f"{flat[0][1]}_{{{i}}}") for i in (1, 2, 3)))
            if fname in ("ui.Matrix", "Matrix") and flat and flat[0][0] == "list":
                return ("vec", flat[0][1])
            if fname == "integrate" and len(flat) == 2:
                return ("int", flat[0], flat[1])
            if fname == "set" and flat and flat[0][0] == "list":
                return ("set", frozenset(flat[0][1]))
            if fname == "zip" and flat and all(self.items_of(a) is not None for a in flat):
                cols = [self.items_of(a) for a in flat]
                return ("list", tuple(("list", tuple(c[i] for c in cols)) for i in range(min(len(c) for c in cols))))
            if fname == "dict" and len(flat) == 1 and flat[0][0] == "list" and all(x[0] == "list" and len(x[1]) == 2 for x in flat[0][1]) and not e.keywords:
                return ("dict", tuple((x[1][0], x[1][1]) for x in flat[0][1]))
            if fname == "reversed" and len(flat) == 1 and self.items_of(flat[0]) is not None and not e.keywords:
                return ("list", tuple(reversed(self.items_of(flat[0]))))
            if fname == "dict.fromkeys" and len(flat) == 2 and self.items_of(flat[0]) is not None and not e.keywords:
                return ("dict", tuple((k_, flat[1]) for k_ in self.items_of(flat[0])))
            if fname in ("list", "tuple") and len(flat) == 1 and self.items_of(flat[0]) is not None:
                return ("list", tuple(self.items_of(flat[0])))
            if isinstance(f, ast.Attribute):
                b = self.ev(f.value, loc)
                if f.attr == "mul" and len(flat) == 1:
                    return ("qmul", b, flat[0])
                if f.attr == "add" and len(flat) == 1:
                    return add(b, flat[0])
                if f.attr == "to_rotation_matrix" and not flat:
                    return ("R", b)
            if isinstance(f, ast.Name) and f.id in self.funcs and f.id not in loc and not any(a[0] == "star" for a in flat):
                r_ = self.call_user(self.funcs[f.id], flat, {k.arg: self.ev(k.value, loc) for k in e.keywords if k.arg})
                if not (isinstance(r_, tuple) and r_ and r_[0] == "unknown"):
                    return r_
            return ("call", fname, tuple(flat))
        if isinstance(e, ast.Dict):
            entries = []
            for k, v in zip(e.keys, e.values):
                if k is None:
                    # **mapping: its entries in place
                    inner = self.ev(v, loc)
                    if inner[0] != "dict":
                        return ("unknown", ast.unparse(e)[:60])
                    entries.extend(inner[1])
                else:
                    entries.append((self.ev(k, loc), self.ev(v, loc)))
            return ("dict", tuple(entries))
        if isinstance(e, ast.JoinedStr):
            return ("fstr", ast.unparse(e))
        return ("unknown", ast.unparse(e)[:60])


def add(l, r):
    items = []
    for x in (l, r):
        if x[0] == "add":
            items.extend(x[1])
        else:
            items.append(x)
    return ("add", tuple(sorted(items, key=repr)))


def mul(l, r):
    # scalar factors commute; at most one non-scalar (quaternion / matrix / vector) factor keeps its place
    def parts(x):
        if x[0] == "scale":
            return list(x[1]), x[2]
        if x[0] in ("const", "sym", "free") or (x[0] == "neg" and x[1][0] in ("const", "sym")):
            return [x], None
        return [], x
    sl, ol = parts(l)
    sr, orr = parts(r)
    if ol is not None and orr is not None:
        return ("mmul", ol, orr) if not (sl or sr) else ("scale", tuple(sorted(sl + sr, key=repr)), ("mmul", ol, orr))
    obj = ol if ol is not None else orr
    sc = tuple(sorted(sl + sr, key=repr))
    if obj is None:
        return ("prod", sc)
    return ("scale", sc, obj)


def syms_of(t, out=None):
    out = set() if out is None else out
    if isinstance(t, tuple):
        if t and t[0] == "sym":
            out.add(t[1])
        else:
            for x in t:
                syms_of(x, out)
    elif isinstance(t, frozenset):
        for x in t:
            syms_of(x, out)
    return out


def short(t, n=110):
    s = repr(t)
    return s if len(s) <= n else s[:n] + "..."


def run(ctx: core.Ctx) -> int:
    for rid, t in (("SAME-ORIENTATION", "one composed orientation (state x calibration) rotates both gyro and specific force; conjugate negates the vector part"),
                   ("BIAS-GRAVITY", "bias removed before rotation, gravity added after"), ("ORIENT-STEP", "q + 0.5 * q.mul(Q(0,gyro)) * dt, state quaternion only"),
                   ("AXIS", "each translation entry uses its own axis index"), ("INTEGRALS", "velocity / position are the dt-integrals"),
                   ("ROLES", "symbols sit in the sets the property names; every state has an entry")):
        ctx.rule(rid, t)
    mod = ctx.parse(F)
    T = Terms(mod)
    # the quaternions are plain 4-component quaternions: an assumption handed to sympy (norm=1, real_field=...) changes what
    # to_rotation_matrix / mul compute for the non-unit quaternions the property quantifies over
    ctx.rule("TRUST-SIG", "Quaternion(a, b, c, d) is constructed without assumptions (no norm= / real_field= keywords)")
    nq = 0
    for c in ast.walk(mod):
        if isinstance(c, ast.Call) and ast.unparse(c.func).split(".")[-1] == "Quaternion":
            nq += 1
            okq = not c.keywords and sum(1 if not isinstance(a, ast.Starred) else 3 for a in c.args) == 4
            ctx.oblige("TRUST-SIG", f"{F}:<module>", f"`{ast.unparse(c)[:60]}`", okq, file=F, func="<module>", construct="Quaternion options:" + ",".join(k.arg or "**" for k in c.keywords),
                       msg=f"`{ast.unparse(c)[:80]}` passes options to sympy's Quaternion: with norm=1 the rotation matrix drops its 1/|q|^2 factor, so the "
                           f"identities only hold for unit quaternions", line=c.lineno)
    for c in ast.walk(mod):
        if isinstance(c, ast.Call) and isinstance(c.func, ast.Attribute) and c.func.attr in ("to_rotation_matrix", "mul", "add") and c.keywords:
            ctx.oblige("TRUST-SIG", f"{F}:<module>", f"`{ast.unparse(c)[:60]}`", False, file=F, func="<module>", construct=f"{c.func.attr} options",
                       msg=f"`{ast.unparse(c)[:80]}` passes options to sympy", line=c.lineno)
    ctx.floor("TRUST-SIG", nq, 4, "Quaternion constructions")
    # the symbols a user sets by name (oriw .. oriz, coriw .. coriz) are the components their names say: declared name == variable name, and the
    # k-th argument of the quaternion built from them is the symbol whose name ends in "wxyz"[k]
    ctx.rule("QUAT-COMP", "quaternions built from named symbols take them in (w, x, y, z) order; symbol variables carry their declared names")
    declared = {}
    for a in mod.body:
        if isinstance(a, ast.Assign) and len(a.targets) == 1 and isinstance(a.targets[0], ast.Tuple) and isinstance(a.value, ast.Call) \
                and ast.unparse(a.value.func).split(".")[-1] == "symbols" and a.value.args and isinstance(a.value.args[0], (ast.List, ast.Tuple)):
            names = [e.value for e in a.value.args[0].elts if isinstance(e, ast.Constant)]
            tg = [t.id for t in a.targets[0].elts if isinstance(t, ast.Name)]
            if len(names) == len(tg) == len(a.targets[0].elts):
                for v_, n_ in zip(tg, names):
                    declared[v_] = n_
                    if n_.isidentifier():
                        ctx.oblige("QUAT-COMP", f"{F}:<module>", f"{v_} = symbol '{n_}'", v_ == n_, file=F, func="<module>", construct=f"symbol variable {v_}",
                                   msg=f"the variable `{v_}` holds the symbol named '{n_}': the expressions written with `{v_}` are about a different "
                                       f"user-visible name than they read", line=a.lineno)
    nqc = 0
    for c in ast.walk(mod):
        if isinstance(c, ast.Call) and ast.unparse(c.func).split(".")[-1] == "Quaternion" and len(c.args) == 4 \
                and all(isinstance(x, ast.Name) and x.id in declared for x in c.args):
            nqc += 1
            suffix = [declared[x.id][-1:] for x in c.args]
            ctx.oblige("QUAT-COMP", f"{F}:<module>", f"`{ast.unparse(c)}` components {suffix}", suffix == ["w", "x", "y", "z"], file=F, func="<module>",
                       construct=f"quaternion components {ast.unparse(c)[:40]}",
                       msg=f"`{ast.unparse(c)}` takes the symbols named {[declared[x.id] for x in c.args]} as its (w, x, y, z) components", line=c.lineno)
    ctx.floor("QUAT-COMP", nqc, 2, "quaternions built from named symbols (state orientation, mounting calibration)")
    for need in ("state", "control", "calibration", "state_model", "orientation", "symbolic_model"):
        if need not in T.defs:
            raise core.AnalysisError(f"{F}: module-level `{need}` not found")

    def oblige(rule, what, ok, construct, msg):
        ctx.oblige(rule, f"{F}:<module>", what, ok, file=F, func="<module>", construct=construct, msg=msg)
    state, control, calib = (syms_of(T.name(n)) for n in ("state", "control", "calibration"))
    sm = T.name("state_model")
    if sm[0] != "dict":
        raise core.AnalysisError(f"{F}: state_model is not a dict literal")
    entries = {k[1] if k[0] == "sym" else repr(k): v for k, v in sm[1]}
    oblige("ROLES", f"{len(entries)} state-model entries for {len(state)} states", set(entries) == state and len(state) == 16, "coverage",
           f"state_model has entries for {sorted(set(entries) ^ state)} that differ from the declared state set")
    o = T.name("orientation")
    ok = o[0] == "qmul" and o[1][0] == "Q" and o[2][0] == "Q" and syms_of(o[1]) <= state and len(syms_of(o[1])) == 4 \
        and syms_of(o[2]) <= calib and len(syms_of(o[2])) == 4
    oblige("SAME-ORIENTATION", f"orientation = {short(o)}", ok, "orientation composition",
           "the composed orientation is not (state quaternion).mul(calibration quaternion)")
    qs = o[1] if o[0] == "qmul" else None
    conj_name = next((n for n, d in T.defs.items() if isinstance(d, ast.Call) and ast.unparse(d.func) == "Quaternion"
                      and all("orientation." in ast.unparse(a) for a in d.args)), None)
    if conj_name is None:
        # however it is spelled (a helper function, a comprehension over .args): the module-level quaternion whose scalar part is the composed
        # orientation's and that is not the orientation itself
        for n_ in T.defs:
            v_ = T.name(n_)
            if isinstance(v_, tuple) and v_ and v_[0] == "Q" and len(v_) == 5 and v_[1] == ("comp", o, "a"):
                conj_name = n_
                break
    conj = T.name(conj_name) if conj_name else None
    want_conj = ("Q", ("comp", o, "a"), ("neg", ("comp", o, "b")), ("neg", ("comp", o, "c")), ("neg", ("comp", o, "d")))
    oblige("SAME-ORIENTATION", f"conjugate = {short(conj)}", conj == want_conj, "conjugate", "the conjugate does not negate exactly the three vector components of the composed orientation")
    gy = None
    # gyro rotation: found through the rate entries
    rates = {}
    for k, v in entries.items():
        if v[0] == "comp" and v[1][0] == "qmul":
            rates[k] = v
    base = {repr(v[1]) for v in rates.values()}
    gr = next(iter(rates.values()))[1] if rates else None
    okg = gr is not None and len(base) == 1 and gr == ("qmul", ("qmul", o, gr[1][2]), want_conj) and gr[1][2][0] == "Q" and gr[1][2][1] == ("const", 0) \
        and syms_of(gr[1][2]) <= control and len(syms_of(gr[1][2])) == 3
    oblige("SAME-ORIENTATION", f"global rates = {short(gr)}", bool(okg), "gyro rotation", "the angular rates are not o.mul(Q(0, gyro)).mul(conj(o)) with the composed orientation")
    gyroQ = gr[1][2] if okg else None
    comps = sorted((k, v[2]) for k, v in rates.items())
    oblige("AXIS", f"rate components {comps}", len(comps) == 3 and sorted(c for _, c in comps) == ["b", "c", "d"]
           and dict(comps) == {"\\dot{\\phi}": "b", "\\dot{\\theta}": "c", "\\dot{\\psi}": "d"}, "rate axes",
           f"roll / pitch / yaw rates take components {comps}; required b (x), c (y), d (z)")
    # acceleration
    acc_names = [k for k, v in entries.items() if v[0] == "elem"]
    accs = {k: entries[k] for k in acc_names}
    accm = next(iter(accs.values()))[1] if accs else None
    okacc, why = False, "acceleration entries not found"
    if accm is not None and accm[0] == "add" and len(accm[1]) == 2:
        rot = next((x for x in accm[1] if x[0] == "mmul"), None)
        grav = next((x for x in accm[1] if x[0] == "vec"), None)
        if rot is not None and grav is not None:
            v = rot[2]
            okv = rot[1] == ("R", o) and v[0] == "vec" and len(v[1]) == 3 and all(
                c[0] == "add" and len(c[1]) == 2 and any(x[0] == "sym" and x[1] in control for x in c[1])
                and any(x[0] == "neg" and x[1][0] == "sym" and x[1][1] in calib for x in c[1]) for c in v[1])
            if okv:
                # own axis: f_{i} with f_bias_{i}
                for c in v[1]:
                    f = next(x[1] for x in c[1] if x[0] == "sym")
                    b = next(x[1][1] for x in c[1] if x[0] == "neg")
                    if f.split("_")[-1] != b.split("_")[-1]:
                        okv = False
            okgv = grav[1][0] == ("const", 0) and grav[1][1] == ("const", 0) and grav[1][2][0] == "neg" and grav[1][2][1][0] == "sym" and grav[1][2][1][1] in calib
            okacc = okv and okgv
            why = "specific force is not R(composed orientation) * (accel - bias) componentwise" if not okv else "gravity is not the vector (0, 0, -g) added after the rotation"
        else:
            why = f"global acceleration is {short(accm)}: not rotation * vector + gravity"
    elif accm is not None:
        why = f"global acceleration is {short(accm)}: the bias / gravity terms are not where the property puts them (bias inside the rotation, gravity outside)"
    oblige("BIAS-GRAVITY", f"global acceleration = {short(accm)}", okacc, "acceleration wiring", why)
    # axis indices of acceleration entries
    gacc = T.name("global_accel")
    gvel = T.name("global_velocity")
    gpos = T.name("global_pose")
    okax = all(x[0] == "list" and len(x[1]) == 3 for x in (gacc, gvel, gpos))
    if okax:
        for i in range(3):
            a_i = ("elem", accm, (i, 0))
            ka, kv, kp = gacc[1][i][1], gvel[1][i][1], gpos[1][i][1]
            oblige("AXIS", f"accel[{i}] = {short(entries.get(ka), 60)}", entries.get(ka) == a_i, f"accel axis {i}", f"global acceleration axis {i} is assigned {short(entries.get(ka), 80)}")
            want_v = add(("sym", kv), ("int", a_i, T.name("dt")))
            oblige("INTEGRALS", f"velocity[{i}]", entries.get(kv) == want_v, f"velocity integral {i}",
                   f"velocity axis {i} is {short(entries.get(kv), 90)}; required own velocity + integrate(accel_{i}, dt)")
            want_p = add(("sym", kp), ("int", add(("sym", kv), ("int", a_i, T.name("dt"))), T.name("dt")))
            oblige("INTEGRALS", f"position[{i}]", entries.get(kp) == want_p, f"position integral {i}",
                   f"position axis {i} is {short(entries.get(kp), 90)}; required own position + integrate(velocity_{i} + integrate(accel_{i}, dt), dt)")
    else:
        ctx.error(f"{F}: global_accel / global_velocity / global_pose are not 3-element symbol lists")
    # orientation step
    if qs is not None:
        nxt = [entries.get(s[1]) for s in qs[1:]]
        bases = {repr(v[1]) for v in nxt if v is not None and v[0] == "comp"}
        okcomp = all(v is not None and v[0] == "comp" for v in nxt) and [v[2] for v in nxt] == ["a", "b", "c", "d"] and len(bases) == 1
        no = nxt[0][1] if okcomp else None
        want = add(("scale", tuple(sorted([("const", 0.5), T.name("dt")], key=repr)), ("qmul", qs, gyroQ)), qs) if gyroQ is not None else None
        oblige("ORIENT-STEP", f"next orientation = {short(no)}", okcomp and no == want, "orientation step",
               f"the orientation update is {short(no)}; required q + 0.5 * q.mul(Q(0, gyro)) * dt with q the state quaternion (operand order matters: "
               f"body rates multiply on the right)")
    ctx.floor("ENTRIES", len(entries), 16, "state-model entries examined")
    # "the compiled Python model of it returns these values": compilation is C01; the clause that is specific to compiling one fixed model many
    # times (with different calibrations) is that compile keeps nothing between calls
    from . import c15 as _c15
    ctx.rule("PY-PURE", "python.py / common.py keep no module-level mutable state written by functions (shared with C01)")
    _c15.gen_pure(ctx, {"python": "py/formak/python.py", "common": "py/formak/common.py"}, rule="PY-PURE", floor=40)
    from . import c01 as _c01
    _c01.py_float_buffers(ctx, ctx.parse("py/formak/python.py"), "py/formak/python.py")
    _c01.py_once(ctx, ctx.parse("py/formak/python.py"), "py/formak/python.py")
    # the compiled reference model is evaluated by python.BasicBlock (171 temporaries with CSE on): the temporaries protocol is part of
    # "the compiled Python model agrees with these formulas" (shared with C01 / C08)
    from .. import tmprules as _tmp19
    _tmp19.check_python_block(ctx, ctx.parse("py/formak/python.py"))
    from . import c13 as _c13nv
    _c13nv.named_arrays(ctx, ("vec",))
    # compiling the reference model neither rewrites its expressions nor writes into the shared module-level model (shared with C01 / C17)
    from . import c01 as _c01nr, c17 as _c17ip
    _pm19 = ctx.parse("py/formak/python.py")
    _c01nr.py_no_rewrite(ctx, _pm19, "py/formak/python.py")
    _c17ip.input_pure(ctx, _pm19)
    return core.finish(ctx, explanation="def-use inlining of the reference model's module-level assignments into terms; wiring compared modulo "
                                        "commutativity", **META)
