"""C13 -- values are bound by name, never by position or spelling.

Decided:
  NV-*       common.named_vector / named_covariance: accepted names are an order-preserving str() map of the class arglist; unknown
             names raise before anything is stored; no-data default is zeros((n,1)) / eye(n); the value given for name k is stored --
             unmodified -- at the enumeration index of k ((idx,0) / (idx,idx)); shape derives from the same arglist; from_data
             refuses a wrong shape; from_dict binds by str(key)
  MAKE-READING  make_reading(key, data=...) -> that sensor's Reading.from_data; otherwise keywords to the same class
  CONTAINER  model.state / .control / .calibration (user containers: set or list) are only consumed through container-agnostic
             operations; set algebra or (in)equality on the raw attribute is a violation
  LAY-*      every layout-typed index in python.py originates in an enumeration of a Sorted(role, name) sequence and every
             execute / zip / slot / un-flatten obligation holds (shared with C01/C03/C04/C05), and the generator side obeys genlayout's
             rules (shared with C02): a bijective renaming permutes every sequence consistently on both sides of every obligation,
             and no declaration-order / hash-order value reaches a layout.
"""
import ast

from .. import core, genlayout, scenarios
from ..values import *  # noqa

META = dict(level="other", trusted_base=["Python: sorted() with a total key is permutation-invariant; dict/set iteration order is declaration/hash order"],
            assumptions=["symbol names are distinct strings (str(Symbol) == Symbol.name)"])

COMMON = "py/formak/common.py"
MODEL_NAMES = {"symbolic_model", "state_model", "model", "ui_model", "self"}
ROLE_ATTRS = {"state", "control", "calibration"}


def container_rule(ctx: core.Ctx, files=("py/formak/common.py", "py/formak/python.py", "py/formak/cpp.py", "py/formak/ui_model.py")):
    """CONTAINER: classify every raw use of <model>.state/.control/.calibration"""
    n = 0
    for rel in files:
        mod = ctx.parse(rel)
        par = {}
        for p in ast.walk(mod):
            for c in ast.iter_child_nodes(p):
                par[c] = p
        func_of = {}
        for fn in ast.walk(mod):
            if isinstance(fn, (ast.FunctionDef, ast.AsyncFunctionDef)):
                for sub in ast.walk(fn):
                    func_of.setdefault(sub, fn.name)
        fdefs = {f.name: f for f in ast.walk(mod) if isinstance(f, ast.FunctionDef)}
        fnode_of = {}
        for fn in ast.walk(mod):
            if isinstance(fn, (ast.FunctionDef, ast.AsyncFunctionDef)):
                for sub in ast.walk(fn):
                    fnode_of.setdefault(sub, fn)

        def classify(a, what):
            """a: a Load of the raw container (the attribute itself, or a name that is a plain copy of it)"""
            nonlocal n
            p = par.get(a)
            ok, why = True, "container-agnostic use"
            if isinstance(p, ast.BinOp) and isinstance(p.op, (ast.Sub, ast.BitOr, ast.BitAnd, ast.BitXor)):
                ok, why = False, f"operand of set operator in `{ast.unparse(p)}` (TypeError when the user declared a list)"
            elif isinstance(p, ast.Compare) and any(isinstance(o, (ast.Eq, ast.NotEq, ast.Lt, ast.LtE, ast.Gt, ast.GtE)) for o in p.ops) \
                    and (a is p.left or a in p.comparators):
                ok, why = False, f"compared as a whole in `{ast.unparse(p)}` (a list never equals a set with the same elements)"
            elif isinstance(p, ast.Attribute) and p.attr in ("union", "intersection", "difference", "issubset", "issuperset", "symmetric_difference",
                                                             "isdisjoint", "add", "update", "discard", "remove", "append", "extend", "sort"):
                ok, why = False, f"set/list-only method `.{p.attr}` on the raw container"
            n += 1
            ctx.oblige("CONTAINER", f"{rel}:{func_of.get(a, '<module>')}", f"`{ast.unparse(p) if p is not None else ast.unparse(a)}`"[:120], ok,
                       file=rel, func=func_of.get(a, "<module>"), construct=f"raw {what} in {type(p).__name__}",
                       msg=f"raw user container {what}: {why}; a valid definition that declares it in another container type is refused / mishandled",
                       line=a.lineno)
            # the raw container under another name: a plain copy into a local, or an argument of a function of this file
            fn = fnode_of.get(a)
            if isinstance(p, ast.Assign) and p.value is a and len(p.targets) == 1 and isinstance(p.targets[0], ast.Name) and fn is not None:
                follow(fn, p.targets[0].id, what, p.lineno)
            if isinstance(p, ast.keyword) and isinstance(par.get(p), ast.Call):
                call = par[p]
                cal = fdefs.get(call.func.id) if isinstance(call.func, ast.Name) else None
                if cal is not None and p.arg in [x.arg for x in cal.args.args + cal.args.kwonlyargs]:
                    follow(cal, p.arg, what, 0)
            if isinstance(p, ast.Call) and a in p.args and isinstance(p.func, ast.Name) and p.func.id in fdefs:
                cal = fdefs[p.func.id]
                k = p.args.index(a)
                if k < len(cal.args.args):
                    follow(cal, cal.args.args[k].arg, what, 0)

        followed = set()

        def follow(fn, name, what, after_line):
            if (id(fn), name) in followed or len(followed) > 40:
                return
            followed.add((id(fn), name))
            stores = [x for x in ast.walk(fn) if isinstance(x, ast.Name) and x.id == name and isinstance(x.ctx, ast.Store)]
            if len(stores) > 1:
                return                              # re-bound: no longer (only) the raw container
            for x in ast.walk(fn):
                if isinstance(x, ast.Name) and x.id == name and isinstance(x.ctx, ast.Load) and x.lineno >= after_line:
                    classify(x, f"{what} (as `{name}`)")
        for a in ast.walk(mod):
            if not (isinstance(a, ast.Attribute) and a.attr in ROLE_ATTRS and isinstance(a.value, ast.Name) and a.value.id in MODEL_NAMES
                    and isinstance(a.ctx, ast.Load)):
                continue
            if a.value.id == "self" and rel != "py/formak/ui_model.py":
                continue
            classify(a, ast.unparse(a))
    ctx.floor("CONTAINER", n, 12, "raw uses of model.state/.control/.calibration classified")


def _named_class(fn: ast.FunctionDef):
    for n in fn.body:
        if isinstance(n, ast.ClassDef):
            return n
    return None


def check_named(ctx: core.Ctx, mod: ast.Module, fname: str, kind: str):
    fn = core.need(core.find_func(mod, fname), f"common.{fname}")
    cls = core.need(_named_class(fn), f"common.{fname}: nested class")
    init = core.need(core.find_func(cls, "__init__"), f"common.{fname}.__init__")
    ctx.functions.append(f"common.{fname}.<class>.__init__")
    # compare what __init__ does, not how it is arranged: helpers inlined, guard clauses / swapped arms / temporaries normalised
    from .. import normast
    import copy as _copy
    # constants of the enclosing factory (`size = len(arglist)`, `allowed_keys = tuple(str(a) for a in arglist)`: bound once at the factory's top
    # level, never re-bound in a nested scope) are read by the class body through the closure: they are local knowledge of __init__
    nested_stores = {x.id for d in ast.walk(fn) if isinstance(d, (ast.FunctionDef, ast.ClassDef, ast.Lambda)) and d is not fn
                     for x in ast.walk(d) if isinstance(x, ast.Name) and isinstance(x.ctx, ast.Store)}
    counts = {}
    for st in fn.body:
        if isinstance(st, ast.Assign) and len(st.targets) == 1 and isinstance(st.targets[0], ast.Name):
            counts[st.targets[0].id] = counts.get(st.targets[0].id, 0) + 1
    used_in_init = {x.id for x in ast.walk(init) if isinstance(x, ast.Name)}
    closure = [st for st in fn.body if isinstance(st, ast.Assign) and len(st.targets) == 1 and isinstance(st.targets[0], ast.Name)
               and counts[st.targets[0].id] == 1 and st.targets[0].id not in nested_stores
               and not any(isinstance(x, (ast.Lambda, ast.Yield, ast.Await)) for x in ast.walk(st.value))]
    if closure:
        init = _copy.deepcopy(init)
        pre = []
        for st in closure:
            st = _copy.deepcopy(st)
            v = st.value
            # tuple(<genexp>) / list(<genexp>) of the names is the list of the names
            if isinstance(v, ast.Call) and isinstance(v.func, ast.Name) and v.func.id in ("tuple", "list") and len(v.args) == 1 and not v.keywords \
                    and isinstance(v.args[0], ast.GeneratorExp):
                st.value = ast.copy_location(ast.ListComp(v.args[0].elt, v.args[0].generators), v)
            pre.append(st)
        init.body = pre + init.body
        ast.fix_missing_locations(init)
    nz = normast.Normaliser(normast.class_resolver(mod, cls))
    init = nz.function(init)
    # class-body constants of the generated class (`_arglist = arglist`, `_name = name`) read through self / cls are the factory's own arguments
    init = normast.subst_class_attrs(init, normast.class_attr_constants(cls, mod))
    for h in nz.inlined:
        ctx.functions.append(f"common.{h} (inlined into {fname}.__init__)")
    params = [a.arg for a in fn.args.args]
    if len(params) < 2:
        raise core.AnalysisError(f"common.{fname} does not take (name, arglist)")
    arglist = params[1]
    where = f"{COMMON}:{fname}"
    q = f"{fname}.__init__"
    kw = init.args.kwarg.arg if init.args.kwarg else None
    datap = next((a.arg for a in init.args.kwonlyargs), None)
    if kw is None or datap is None:
        raise core.AnalysisError(f"{where}: __init__ lacks (*, _data=None, **kwargs)")
    # 1. allowed names
    allowed = None
    for s in init.body:
        if isinstance(s, ast.Assign) and isinstance(s.value, ast.ListComp) and isinstance(s.targets[0], ast.Name):
            g = s.value.generators[0]
            if isinstance(g.iter, ast.Name) and g.iter.id == arglist and not g.ifs and isinstance(g.target, ast.Name):
                elt = s.value.elt
                if isinstance(elt, ast.Call) and isinstance(elt.func, ast.Name) and elt.func.id == "str" and ast.unparse(elt.args[0]) == g.target.id:
                    allowed = s.targets[0].id
                elif isinstance(elt, ast.Attribute) and elt.attr == "name" and ast.unparse(elt.value) == g.target.id:
                    allowed = s.targets[0].id
    ctx.oblige("NV-NAMES", where, f"accepted names = [str(a) for a in {arglist}] -> `{allowed}`", allowed is not None, file=COMMON, func=q,
               construct="allowed names", msg="the accepted keyword names are not an order-preserving str() map of the class arglist")
    if allowed is None:
        return
    # 2. unknown-name guard, 4. store loop, 3. defaults  (statement order matters)
    guard_at = store_at = default_ok = None
    store_ok, store_why = False, "no store loop `for idx, key in enumerate(allowed): if key in kwargs: data[idx, ...] = kwargs[key]` found"
    zeros_ok = False
    for i, s in enumerate(init.body):
        if isinstance(s, ast.For) and isinstance(s.iter, ast.Name) and s.iter.id == kw:
            for b in s.body:
                if isinstance(b, ast.If) and isinstance(b.test, ast.Compare) and isinstance(b.test.ops[0], ast.NotIn) \
                        and ast.unparse(b.test.comparators[0]) == allowed and ast.unparse(b.test.left) == ast.unparse(s.target) \
                        and any(isinstance(r, ast.Raise) for r in b.body):
                    guard_at = i
        if isinstance(s, ast.If) and datap in ast.unparse(s.test) and "None" in ast.unparse(s.test):
            # default branch
            is_not_none = isinstance(s.test, ast.Compare) and isinstance(s.test.ops[0], ast.IsNot)
            data_branch, default_branch = (s.body, s.orelse) if is_not_none else (s.orelse, s.body)
            want = f"np.zeros((len({arglist}), 1))" if kind == "vec" else f"np.eye(len({arglist}))"
            for b in default_branch:
                if isinstance(b, ast.Assign) and ast.unparse(b.targets[0]) == "self.data":
                    got = ast.unparse(b.value).replace(" ", "")
                    accepted = {want.replace(" ", "")}
                    if kind == "vec":
                        accepted |= {"np.zeros(self.shape)", "np.zeros(cls.shape)", f"np.zeros((len({arglist}),1),dtype=float)"}
                    else:
                        accepted |= {f"np.identity(len({arglist}))", "np.eye(self.shape[0])", "np.eye(cls.shape[0])", f"np.eye(len({arglist}),dtype=float)"}
                    zeros_ok = got in accepted
                    default_ok = (ast.unparse(b.value), want)
            direct = any(isinstance(b, ast.Assign) and ast.unparse(b.targets[0]) == "self.data" and ast.unparse(b.value) == datap for b in data_branch)
            excl = any(isinstance(b, ast.Assert) and kw in ast.unparse(b.test) for b in data_branch)
            ctx.oblige("NV-DATA", where, "data branch stores _data itself and requires no keywords", direct and excl, file=COMMON, func=q,
                       construct="data branch", msg="with _data given the array is not stored as is / keywords are not excluded")
            # stores inside the default branch (folded loops) are examined below as well
            for b in ast.walk(ast.Module(body=default_branch, type_ignores=[])):
                if isinstance(b, ast.For):
                    r = _store_loop(b, allowed, kw, kind)
                    if r is not None:
                        store_at, (store_ok, store_why) = i, r
        if isinstance(s, ast.For):
            r = _store_loop(s, allowed, kw, kind)
            if r is not None:
                store_at, (store_ok, store_why) = i, r
    ctx.oblige("NV-GUARD", where, "unknown keyword -> raise TypeError before any store", guard_at is not None and (store_at is None or guard_at < store_at),
               file=COMMON, func=q, construct="unknown-name guard", msg="unknown names are not refused before values are stored")
    ctx.oblige("NV-DEFAULT", where, f"default data = {default_ok[0] if default_ok else None}", zeros_ok, file=COMMON, func=q, construct="default data",
               msg=f"without data the array defaults to {default_ok[0] if default_ok else '?'}; required {default_ok[1] if default_ok else '?'} "
                   + ("(zero)" if kind == "vec" else "(unit variance)"))
    ctx.oblige("NV-STORE", where, "value for name k stored unmodified at the enumeration index of k", store_ok, file=COMMON, func=q,
               construct="store loop", msg=store_why)
    # 5. shape
    shape = None
    for s in cls.body:
        if isinstance(s, ast.Assign) and ast.unparse(s.targets[0]) == "shape":
            # closure constants of the factory (`size = len(arglist)`) are read through
            cl = {c_.targets[0].id: c_.value for c_ in closure} if closure else {}

            class _S(ast.NodeTransformer):
                def visit_Name(self, n_):
                    return _copy.deepcopy(cl[n_.id]) if isinstance(n_.ctx, ast.Load) and n_.id in cl else n_
            shape = ast.unparse(_S().visit(_copy.deepcopy(s.value))).replace(" ", "")
    want = f"(len({arglist}),1)" if kind == "vec" else f"(len({arglist}),len({arglist}))"
    ctx.oblige("NV-SHAPE", where, f"shape = {shape}", shape == want, file=COMMON, func=fname, construct="shape", msg=f"class shape is {shape}; required {want}")


def _store_loop(loop: ast.For, allowed, kw, kind):
    """-> (ok, why) if `loop` is the enumerate(allowed) store loop, else None"""
    it = loop.iter
    if not (isinstance(it, ast.Call) and isinstance(it.func, ast.Name) and it.func.id == "enumerate" and it.args and ast.unparse(it.args[0]) == allowed):
        return None
    if len(it.args) > 1 or it.keywords:
        return False, "the store loop enumerates with a start offset"
    t = loop.target
    if not (isinstance(t, ast.Tuple) and len(t.elts) == 2 and all(isinstance(e, ast.Name) for e in t.elts)):
        return False, "store loop target is not (idx, key)"
    idx, key = t.elts[0].id, t.elts[1].id
    stores = [n for n in ast.walk(loop) if isinstance(n, ast.Assign) and isinstance(n.targets[0], ast.Subscript)
              and ast.unparse(n.targets[0].value) == "self.data"]
    if len(stores) != 1:
        return False, f"{len(stores)} stores into self.data in the store loop"
    st = stores[0]
    sl = ast.unparse(st.targets[0].slice).replace(" ", "").strip("()")
    want = f"{idx},0" if kind == "vec" else f"{idx},{idx}"
    if sl != want:
        return False, f"value stored at data[{sl}]; required data[{want}]"
    # value: kwargs[key], possibly through one local
    val = st.value
    if isinstance(val, ast.Name):
        for n in ast.walk(loop):
            if isinstance(n, ast.Assign) and isinstance(n.targets[0], ast.Name) and n.targets[0].id == val.id:
                val = n.value
    if ast.unparse(val) != f"{kw}[{key}]":
        return False, f"stored value is `{ast.unparse(val)}`, not the value given for the name (`{kw}[{key}]`): a falsy / special value is replaced"
    # guarded by `key in kwargs`
    guarded = False
    for n in ast.walk(loop):
        if isinstance(n, ast.If) and ast.unparse(n.test) == f"{key} in {kw}" and st in list(ast.walk(ast.Module(body=n.body, type_ignores=[]))):
            guarded = True
    if not guarded:
        return False, f"the store is not guarded by `{key} in {kw}`"
    return True, ""


def check_base(ctx: core.Ctx, mod: ast.Module):
    base = core.need(core.find_class(mod, "_NamedArrayBase"), "common._NamedArrayBase")
    where = f"{COMMON}:_NamedArrayBase"
    fd = core.need(core.find_func(base, "from_data"), "common._NamedArrayBase.from_data")
    ok = False
    from .. import normast
    fd = normast.Normaliser(normast.class_resolver(mod, base)).function(fd)
    # canonical (guard) form: if data.shape != cls.shape: raise ...; return cls(_data=data)
    for i, s in enumerate(fd.body):
        if isinstance(s, ast.If) and isinstance(s.test, ast.Compare) and isinstance(s.test.ops[0], ast.NotEq) and not s.orelse \
                and {ast.unparse(s.test.left), ast.unparse(s.test.comparators[0])} == {"data.shape", "cls.shape"} \
                and len(s.body) == 1 and isinstance(s.body[0], ast.Raise) and all(isinstance(p_, (ast.Assert, ast.Expr)) for p_ in fd.body[:i]):
            rest = fd.body[i + 1:]
            ok = len(rest) == 1 and isinstance(rest[0], ast.Return) and rest[0].value is not None \
                and ast.unparse(rest[0].value).replace(" ", "") == "cls(_data=data)"
    ctx.oblige("NV-FROMDATA", where, "from_data: shape != cls.shape -> raise; return cls(_data=data)", ok, file=COMMON, func="_NamedArrayBase.from_data",
               construct="from_data", msg="from_data does not refuse a wrongly shaped array before constructing")
    fdict = core.need(core.find_func(base, "from_dict"), "common._NamedArrayBase.from_dict")
    ok = False
    for r in ast.walk(fdict):
        if isinstance(r, ast.Return) and isinstance(r.value, ast.Call) and ast.unparse(r.value.func) == "cls" and not r.value.args:
            for k in r.value.keywords:
                if k.arg is None and isinstance(k.value, ast.DictComp):
                    dc = k.value
                    g = dc.generators[0]
                    if isinstance(g.iter, ast.Call) and ast.unparse(g.iter).endswith(".items()") and isinstance(g.target, ast.Tuple):
                        kk, vv = g.target.elts[0].id, g.target.elts[1].id
                        ok = ast.unparse(dc.key) == f"str({kk})" and ast.unparse(dc.value) == vv and not g.ifs
    ctx.oblige("NV-FROMDICT", where, "from_dict: cls(**{str(k): v for k, v in mapping.items()})", ok, file=COMMON, func="_NamedArrayBase.from_dict",
               construct="from_dict", msg="from_dict does not pass every entry, unmodified, under str(key)")
    it = core.need(core.find_func(base, "__iter__"), "common._NamedArrayBase.__iter__")
    ok = any(isinstance(r, ast.Return) and ast.unparse(r.value).replace(" ", "") in ("iter(self.data)", "iter(self.data.flatten())",
                                                                                       "iter(self.data.flatten().tolist())", "iter(self.data[:,0])")
             for r in ast.walk(it))
    ctx.oblige("NV-ITER", where, "__iter__ yields rows in index order", ok, file=COMMON, func="_NamedArrayBase.__iter__", construct="__iter__",
               msg="iterating a named vector does not yield its rows in index order (positional *vec expansion relies on it)")


def make_reading_guard(ctx: core.Ctx, pmod: ast.Module):
    """MAKE-READING (which path is taken): the from_data path exactly when data is given and no keyword is; every other call builds from keywords"""
    from .. import normast, estflow, rtmodel
    from .c17 import _paths
    F_ = "py/formak/python.py"
    cls = core.need(core.find_class(pmod, "ExtendedKalmanFilter"), "python.ExtendedKalmanFilter")
    fn = core.need(core.find_func(cls, "make_reading"), "ExtendedKalmanFilter.make_reading")
    kw = fn.args.kwarg.arg if fn.args.kwarg else None
    datap = next((a.arg for a in fn.args.kwonlyargs), None)
    where = f"{F_}:ExtendedKalmanFilter.make_reading"
    if kw is None or datap is None:
        ctx.error(f"{where}: signature is not (key, *, data=None, **kwargs)")
        return
    fn = normast.Normaliser(normast.class_resolver(pmod, cls, module_funcs="small")).function(fn)
    n_data = 0
    for path in _paths(fn.body):
        conds = [(rtmodel.py_expr(e[1]), e[2]) for e in path if e[0] == "cond"]
        rets = [e[1] for e in path if e[0] == "stmt" and isinstance(e[1], ast.Return) and e[1].value is not None]
        if not rets:
            continue
        v = rets[0].value
        txt = ast.unparse(v).replace(" ", "")
        lits = estflow.literals(conds)
        if txt.endswith(f".from_data({datap})"):
            n_data += 1
            want = {(("bin", "==", ("call", "len", (("ref", kw),)), ("num", "0")), True), (("bin", "is", ("ref", datap), ("num", "None")), False)}
            alt = {(("bin", "is", ("ref", datap), ("num", "None")), False), (("ref", kw), False)}            # `not kwargs`
            ok = lits is not None and (set(lits) == want or set(lits) == alt)
            ctx.oblige("MAKE-READING", where, "from_data(data) exactly when data is given and there are no keywords", ok, file=F_,
                       func="ExtendedKalmanFilter.make_reading", construct="data path guard",
                       msg="make_reading takes the from_data path under `" + " and ".join(("" if p_ else "not ") + ast.unparse(e[1]) for e in path if e[0] == "cond"
                                                                                           for p_ in [e[2]]) + f"`; required exactly `len({kw}) == 0 and {datap} is not None`")
        elif f"(**{kw})" in txt:
            continue
        else:
            ctx.oblige("MAKE-READING", where, f"returns {txt[:60]}", False, file=F_, func="ExtendedKalmanFilter.make_reading", construct="other return",
                       msg=f"make_reading returns `{ast.unparse(v)[:80]}`: neither Reading.from_data({datap}) nor Reading(**{kw})")
    ctx.oblige("MAKE-READING", where, f"{n_data} from_data path(s)", n_data == 1, file=F_, func="ExtendedKalmanFilter.make_reading", construct="data path count",
               msg=f"make_reading has {n_data} paths that build the reading from data; required exactly one")


def run(ctx: core.Ctx) -> int:
    for rid, t in (("NV-NAMES", "accepted names = order-preserving str() map of the arglist"), ("NV-GUARD", "unknown names raise before stores"),
                   ("NV-DEFAULT", "zeros / unit variance by default"), ("NV-DATA", "_data stored as is, exclusive with keywords"),
                   ("NV-STORE", "value for k stored unmodified at k's enumeration index"), ("NV-SHAPE", "shape from the same arglist"),
                   ("NV-FROMDATA", "from_data refuses wrong shapes"), ("NV-FROMDICT", "from_dict binds by str(key)"), ("NV-ITER", "row order iteration"),
                   ("MAKE-READING", "make_reading builds that sensor's Reading from data or keywords"),
                   ("CONTAINER", "raw user containers only through container-agnostic operations"),
                   ("LAY-CALL", "execute() actuals == block arglist"), ("LAY-ZIP", "zip partners share a layout"), ("LAY-SLOT", "slot stores by enumeration index"),
                   ("LAY-FLAT", "un-flatten by the compiled stride"), ("LAY-DICT", "from_dict into the matching role layout")):
        ctx.rule(rid, t)
    prog = scenarios.program(ctx)
    common = prog.modules["common"]
    check_named(ctx, common, "named_vector", "vec")
    check_named(ctx, common, "named_covariance", "cov")
    check_base(ctx, common)
    # python side: all layout obligations
    sc = scenarios.PyEKF(ctx, prog)
    it = sc.it
    n = scenarios.transfer(it, ctx, rules={"LAY-CALL", "LAY-ZIP", "LAY-SLOT", "LAY-FLAT", "LAY-DICT"}, files={"py/formak/python.py"})
    ctx.floor("LAY-*", n, 30, "layout obligations in python.py")
    a = sc.ekf.attrs
    S, C, K = (Layout((("SORT", r, "name"),)) for r in ("STATE", "CONTROL", "CALIB"))
    for attr, want in (("arglist_state", S), ("arglist_control", C), ("arglist_calibration", K)):
        for obj, oname in ((sc.ekf, "ExtendedKalmanFilter"), (a["_state_model"], "Model"), (sc.sensor_model_obj, "SensorModel")):
            v = obj.attrs.get(attr)
            if v is None and oname == "SensorModel" and attr == "arglist_control":
                continue
            ok = isinstance(v, SeqV) and v.layout == want
            ctx.oblige("LAY-KEY", f"py/formak/python.py:{oname}.__init__", f"{oname}.{attr} : {v!r}", ok, file="py/formak/python.py", func=f"{oname}.__init__",
                       construct=f"{attr}", msg=f"{oname}.{attr} is {v!r}; the library's name order is {want}")
    # make_reading
    R = Layout((("SORT", ("READ", "k"), "natural"),))
    r1 = sc.call("ExtendedKalmanFilter", "make_reading", sc.ekf, key=SymV("SENSOR"), data=ArrV(R, ONE))
    ok = any(isinstance(x, NInst) and x.cls == sc.Reading and x.origin == "from_data" for x in sc.alts(r1))
    ctx.oblige("MAKE-READING", "py/formak/python.py:ExtendedKalmanFilter.make_reading", f"data -> {r1!r}", ok, file="py/formak/python.py",
               func="ExtendedKalmanFilter.make_reading", construct="data path", msg=f"make_reading(key, data=...) yields {r1!r}, not that sensor's Reading.from_data(data)")
    r2 = sc.call("ExtendedKalmanFilter", "make_reading", sc.ekf, key=SymV("SENSOR"))
    ok = any(isinstance(x, NInst) and x.cls == sc.Reading for x in sc.alts(r2))
    ctx.oblige("MAKE-READING", "py/formak/python.py:ExtendedKalmanFilter.make_reading", f"keywords -> {r2!r}", ok, file="py/formak/python.py",
               func="ExtendedKalmanFilter.make_reading", construct="keyword path", msg=f"make_reading(key, **kw) yields {r2!r}, not that sensor's Reading(**kw)")
    from . import c01 as _c01cv
    _c01cv.sensor_calibration_vector(ctx)
    make_reading_guard(ctx, prog.modules["python"])
    container_rule(ctx)
    genlayout.check_all(ctx, genlayout.GenInfo(ctx, prog))
    return core.finish(ctx, explanation="structural rules on common.named_vector / named_covariance, E2 layout obligations of python.py, "
                                        "generator layout rules, container-agnostic use of user collections", **META)


def named_arrays(ctx, kinds=("vec", "cov")):
    """NV-*: the named vector / covariance classes bind every value given by name to the row (diagonal entry) of that name -- the containers
    every filter input and output travels in (shared rule set of C13; fv.props.c13.check_named)."""
    from . import c13 as _c13
    for _rid, _t in (("NV-NAMES", "named arrays accept the str() names of their arglist"), ("NV-STORE", "the value given for a name is stored unmodified at its index"),
                     ("NV-DEFAULT", "zeros / unit variance defaults"), ("NV-GUARD", "unknown names refused"), ("NV-DATA", "_data stored as is"),
                     ("NV-SHAPE", "shape from the arglist"), ("NV-FROMDICT", "from_dict binds by str(key)"), ("NV-FROMDATA", "from_data refuses wrong shapes"),
                     ("NV-ITER", "row-order iteration")):
        ctx.rule(_rid, _t)
    common = ctx.parse("py/formak/common.py")
    if "vec" in kinds:
        _c13.check_named(ctx, common, "named_vector", "vec")
    if "cov" in kinds:
        _c13.check_named(ctx, common, "named_covariance", "cov")
    _c13.check_base(ctx, common)
