"""C16 -- the scikit-learn adapter's transform / mahalanobis / score are the filter's NIS.

Decided (structural rules on SklearnEKFAdapter, def-use resolved; E3 for the NIS and score formulas):
  CONSUME   each data row is consumed as [controls (model_.control_size)] then, for each sensor in *sorted* key order, that sensor's
            readings (len(model_.sensor_models[key])): prefix slices with the remainder threaded, no column skipped or reused
  SEQUENCE  per row: process_model(dt, state, covariance, Control.from_data(controls)) with the adapter's fixed step, then per sensor
            make_reading(key, data=...) and sensor_model(state, covariance, sensor_key=key, sensor_reading=...) -- the (state,
            covariance) pair is threaded through every call and rows are processed in order
  NIS-FORM  the value appended for (row, sensor) is y^T.Inv(S).y with y = model_.innovations[key], S = model_.sensor_prediction_uncertainty[key]
            of the same key; both records are written unconditionally by every sensor_model call before any return (RECORDS)
  OUTPUTS   mahalanobis returns transform's innovations flattened; negative values raise before any return
  SCORE     score = b_w*avg + v_w*((1/var + var)/2) + m_w*sum(diag^2) with the documented sub-terms
  PURE      transform / mahalanobis / score assign only self.model_ and mutate no parameter container
Not decided: numeric non-negativity; scikit-learn's own behaviour.
"""
import ast

from .. import core, effects, scenarios
from ..matform import MatForm

META = dict(level="other", trusted_base=["numpy slicing / reshape / matmul / linalg.inv / flatten", "C04/C05 for what process_model / sensor_model compute"],
            assumptions=["the data matrix has the documented width"])

F = "py/formak/python.py"
CLS = "SklearnEKFAdapter"


def mat(e, env, atoms):
    """numpy expression -> MatForm over `atoms` (mapping normalised source text -> atom name)"""
    if isinstance(e, ast.Name) and e.id in env:
        return mat(env[e.id], env, atoms)
    txt = ast.unparse(e)
    if txt in atoms:
        nm, sym = atoms[txt]
        return MatForm.atom(nm, sym)
    if isinstance(e, ast.Subscript) and ast.unparse(e.value) in ("self.model_.innovations", "self.model_.sensor_prediction_uncertainty"):
        # a record of some *other* key: a different atom, so that the form differs (not: underivable)
        base = "y" if ast.unparse(e.value).endswith("innovations") else "S"
        return MatForm.atom(f"{base}[{ast.unparse(e.slice)}]", base == "S")
    if isinstance(e, ast.Call):
        f = ast.unparse(e.func)
        if f in ("float", "np.asarray", "np.array", "np.squeeze") and e.args:
            return mat(e.args[0], env, atoms)
        if f in ("np.matmul", "np.dot", "numpy.matmul") and len(e.args) == 2:
            a, b = mat(e.args[0], env, atoms), mat(e.args[1], env, atoms)
            return a * b if a is not None and b is not None else None
        if f in ("np.linalg.inv", "numpy.linalg.inv") and e.args:
            a = mat(e.args[0], env, atoms)
            return a.inv() if a is not None else None
        kw = {k.arg: k.value for k in e.keywords}
        flag = lambda nm, default: (kw[nm].value if nm in kw and isinstance(kw[nm], ast.Constant) else default)
        if f.split(".")[-1] == "cholesky" and e.args:
            # numpy returns the lower factor L (A = L.L^T); scipy.linalg.cholesky the upper one U = L^T unless lower=True
            a = mat(e.args[0], env, atoms)
            if a is None:
                return None
            lower = True if f.startswith(("np.", "numpy.")) else bool(flag("lower", False))
            L = MatForm.chol(a)
            return L if lower else L.T()
        if f.split(".")[-1] == "solve_triangular" and len(e.args) >= 2:
            a, b = mat(e.args[0], env, atoms), mat(e.args[1], env, atoms)
            if a is None or b is None:
                return None
            tr = flag("trans", 0)
            return (a.T() if tr in (1, "T", 2, "C") else a).inv() * b
        if f in ("np.linalg.solve", "numpy.linalg.solve", "scipy.linalg.solve", "solve") and len(e.args) >= 2:
            a, b = mat(e.args[0], env, atoms), mat(e.args[1], env, atoms)
            return a.inv() * b if a is not None and b is not None else None
        if f in ("np.sum", "numpy.sum") and len(e.args) == 1 and isinstance(e.args[0], ast.Call) and ast.unparse(e.args[0].func) in ("np.square", "numpy.square") \
                and len(e.args[0].args) == 1:
            w_ = mat(e.args[0].args[0], env, atoms)           # sum of squares of a column = w^T.w
            return w_.T() * w_ if w_ is not None else None
        if f in ("np.transpose",) and e.args:
            a = mat(e.args[0], env, atoms)
            return a.T() if a is not None else None
        if isinstance(e.func, ast.Attribute) and e.func.attr in ("transpose",) and not e.args:
            a = mat(e.func.value, env, atoms)
            return a.T() if a is not None else None
        if isinstance(e.func, ast.Attribute) and e.func.attr in ("item", "squeeze", "copy") and not e.args:
            return mat(e.func.value, env, atoms)
        if isinstance(e.func, ast.Attribute) and e.func.attr == "dot" and len(e.args) == 1:
            a, b = mat(e.func.value, env, atoms), mat(e.args[0], env, atoms)
            return a * b if a is not None and b is not None else None
    if isinstance(e, ast.Attribute) and e.attr == "T":
        a = mat(e.value, env, atoms)
        return a.T() if a is not None else None
    if isinstance(e, ast.BinOp) and isinstance(e.op, ast.MatMult):
        a, b = mat(e.left, env, atoms), mat(e.right, env, atoms)
        return a * b if a is not None and b is not None else None
    if isinstance(e, ast.Subscript) and ast.unparse(e.slice).replace(" ", "") in ("0,0", "(0,0)"):
        return mat(e.value, env, atoms)
    if isinstance(e, ast.Call) and ast.unparse(e.func) in ("np.eye", "np.identity", "numpy.eye", "numpy.identity") and len(e.args) == 1:
        return MatForm.identity()
    if isinstance(e, ast.BinOp) and isinstance(e.op, (ast.Add, ast.Sub)):
        a, b = mat(e.left, env, atoms), mat(e.right, env, atoms)
        if a is None or b is None:
            return None
        return a + b if isinstance(e.op, ast.Add) else a - b
    if isinstance(e, ast.BinOp) and isinstance(e.op, (ast.Mult, ast.Div)):
        # scalar multiple of a matrix form (a numeric literal on either side; division by a literal)
        from fractions import Fraction
        num = lambda x: Fraction(str(x.value)) if isinstance(x, ast.Constant) and isinstance(x.value, (int, float)) and not isinstance(x.value, bool) else None
        cl, cr = num(e.left), num(e.right)
        if isinstance(e.op, ast.Mult) and cl is not None:
            b = mat(e.right, env, atoms)
            return b.scale(cl) if b is not None else None
        if cr is not None and cr != 0:
            a = mat(e.left, env, atoms)
            return a.scale(cr if isinstance(e.op, ast.Mult) else 1 / cr) if a is not None else None
    return None


def run(ctx: core.Ctx) -> int:
    for rid, t in (("CONSUME", "row = [controls] + per sensor in sorted key order [readings]; prefix slices, remainder threaded"),
                   ("SEQUENCE", "predict with the fixed step, then update sensors in key order, threading (state, covariance)"),
                   ("NIS-FORM", "appended value == y^T.Inv(S).y from the records of the same key"),
                   ("RECORDS", "sensor_model writes both records unconditionally before any return"),
                   ("OUTPUTS", "mahalanobis = transform's values flattened; negatives raise"),
                   ("SCORE", "documented bias / variance / size combination"), ("PURE", "no parameter is changed")):
        ctx.rule(rid, t)
    mod = ctx.parse(F)
    cls = core.need(core.find_class(mod, CLS), f"python.{CLS}")
    tr = core.need(core.find_func(cls, "transform"), f"{CLS}.transform")
    ctx.functions += [f"python.{CLS}.transform", f"python.{CLS}.mahalanobis", f"python.{CLS}.score"]
    # compare what transform does, not how it is arranged: private helpers inlined, temporaries / module constants substituted,
    # guard clauses and redefinitions normalised (fv.normast)
    from .. import normast
    nz = normast.Normaliser(normast.class_resolver(mod, cls, module_funcs="small"), consts=normast.module_constants(mod), namedtuples=normast.module_namedtuples(mod))
    tr = rows_by_index(tr)
    tr = nz.function(tr)
    for h in nz.inlined:
        ctx.functions.append(f"python.{CLS}.{h} (inlined into transform)")
    q = f"{CLS}.transform"
    where = f"{F}:{q}"
    # model_ is the compiled filter of the adapter's own parameters
    mdl = [s for s in ast.walk(tr) if isinstance(s, ast.Assign) and ast.unparse(s.targets[0]) == "self.model_"]
    okm = len(mdl) == 1 and isinstance(mdl[0].value, ast.Call) and ast.unparse(mdl[0].value.func) == "compile_ekf"
    if okm:
        bound = core.bind_call(mdl[0].value, core.find_func(mod, "compile_ekf"))
        kws = {k: ast.unparse(v) for k, v in (bound or {}).items()}
        okm = kws == {k: f"self.{k}" for k in ("symbolic_model", "process_noise", "sensor_models", "sensor_noises", "calibration_map", "config")}
    ctx.oblige("SEQUENCE", where, "self.model_ = compile_ekf(<the adapter's own six parameters>)", okm, file=F, func=q, construct="model_ construction",
               msg="transform does not run the filter compiled from exactly the adapter's own parameters")
    uncond = bool(mdl) and any(st is mdl[0] for st in tr.body)
    ctx.oblige("SEQUENCE", where, "the filter is compiled from the current parameters on every call (unconditional top-level statement)", uncond, file=F, func=q,
               construct="model_ recompiled unconditionally",
               msg="transform compiles the filter only under a condition (a cached self.model_ is reused): after set_params changes a parameter or a Config "
                   "field, transform / mahalanobis / score keep evaluating the filter of the earlier parameters")
    # ---- normalised statement list (tuple assignments split, single-assignment aliases substituted)
    from .. import normstmt
    items = normstmt.flatten(tr)
    al = normstmt.Aliases(tr, items)
    T = al.text
    C = "self.model_.control_size"

    def TT(text):
        """a pattern written with local names, pushed through the same substitution as the code it is compared with"""
        try:
            return T(ast.parse(text, mode="eval").body)
        except SyntaxError:
            return text.replace(" ", "")

    top_index = {id(st): n for n, st in enumerate(tr.body)}

    def pos_of(st):
        return top_index.get(id(st), -1)

    def calls_in(it_, suffix):
        return [c for c in ast.walk(it_.value) if isinstance(c, ast.Call) and ast.unparse(c.func).endswith(suffix)] if it_.value is not None else []
    row = next((i.stmt for i in items if i.kind == "for-begin" and any(isinstance(c, ast.Call) and ast.unparse(c.func).endswith(".process_model")
                                                                    for c in ast.walk(i.stmt))), None)
    if row is None:
        raise core.AnalysisError(f"{where}: no row loop calling process_model found")
    rows_txt = T(row.iter)
    XN0 = next((a.arg for a in tr.args.args if a.arg != "self"), "X")
    ok_rows = rows_txt in (f"range({XN0}.shape[0])", "range(n_samples)", f"range(len({XN0}))")
    ridx = row.target.id if isinstance(row.target, ast.Name) else None
    if not ok_rows:
        if "sorted" in rows_txt or "reversed" in rows_txt or "[::" in rows_txt:
            ctx.oblige("SEQUENCE", where, f"rows iterated by `{rows_txt}`", False, file=F, func=q, construct="row loop",
                       msg=f"rows are iterated through `{rows_txt}`, not every row in the given order")
        else:
            ctx.error(f"{where}: row loop `{rows_txt}` is not an enumerated idiom")
    else:
        ctx.oblige("SEQUENCE", where, f"rows iterated by `{rows_txt}`", True, file=F, func=q, construct="row loop")
    in_row = [i for i in items if i.loops == (row,)]
    XN = next((a.arg for a in tr.args.args if a.arg != "self"), "X")
    SN = next((i.target.id for i in items if i.kind == "assign" and not i.loops and isinstance(i.target, ast.Name)
               and ast.unparse(i.value).replace(" ", "") == "self.model_.State()"), "state")
    PN = next((i.target.id for i in items if i.kind == "assign" and not i.loops and isinstance(i.target, ast.Name)
               and ast.unparse(i.value).replace(" ", "") == "self.model_.Covariance()"), "covariance")
    # every call starts from the compiled filter's default estimate (nothing is carried over from an earlier call)
    for nm_, want_ in ((SN, "self.model_.State()"), (PN, "self.model_.Covariance()")):
        pre = [ast.unparse(i.value).replace(" ", "") for i in items if i.kind == "assign" and not i.loops and isinstance(i.target, ast.Name) and i.target.id == nm_]
        ctx.oblige("SEQUENCE", where, f"`{nm_}` starts as {pre}", pre == [want_], file=F, func=q, construct=f"initial {want_}",
                   msg=f"the estimate threaded through the rows starts as {pre}, not the fresh default `{want_}`: the result depends on something other than "
                       f"the data and the parameters (repeating the call need not return the same values)")
    sens = next((i.stmt for i in in_row if i.kind == "for-begin" and any(isinstance(c, ast.Call) and ast.unparse(c.func).endswith(".sensor_model")
                                                                          for c in ast.walk(i.stmt))), None)
    if sens is None:
        raise core.AnalysisError(f"{where}: no per-sensor loop calling sensor_model found")
    in_sens = [i for i in items if i.loops == (row, sens)]
    # ---- CONSUME: control prefix and remainder
    ctl_var = next((ast.unparse(i.target) for i in in_row if i.kind == "assign" and T(i.value) == f"{XN}[{ridx},:{C}]"), None)
    rest_cands = [ast.unparse(i.target) for i in in_row if i.kind == "assign" and T(i.value) == f"{XN}[{ridx},{C}:]"]
    threaded = {ast.unparse(i.target) for i in in_sens if i.kind == "assign"}
    rest_var = next((c for c in rest_cands if c in threaded), rest_cands[0] if rest_cands else None)    # the copy that the sensor loop consumes
    slices = [T(i.value) for i in in_row if i.kind == "assign" and isinstance(i.value, ast.Subscript) and T(i.value).startswith(f"{XN}[")]
    inline_ctl = False
    if ctl_var is None and rest_var is not None:
        # the control columns used where they are needed, without a local of their own
        inline_ctl = any(isinstance(sub, ast.Subscript) and T(sub) == f"{XN}[{ridx},:{C}]" for i in in_row if i.value is not None for sub in ast.walk(i.value))
    if (ctl_var is None and not inline_ctl) or rest_var is None:
        if slices:
            ctx.oblige("CONSUME", where, f"row slices {slices}", False, file=F, func=q, construct="control split",
                       msg=f"the row is split as {slices}; required {XN}[{ridx}, :{C}] (controls) and {XN}[{ridx}, {C}:] (sensor columns)")
        else:
            ctx.error(f"{where}: no slices of the data row found")
    else:
        ctx.oblige("CONSUME", where, f"controls = {XN}[{ridx}, :{C}], remainder = {XN}[{ridx}, {C}:]", True, file=F, func=q, construct="control split")
    # ---- prediction
    procs = [(i, c) for i in in_row for c in calls_in(i, ".process_model")]
    okp = len(procs) == 1
    ctl_ok = False
    if okp:
        i, call = procs[0]
        args = [T(a) for a in call.args] + [f"{k.arg}={T(k.value)}" for k in call.keywords]
        tg = normstmt.unparen(ast.unparse(i.target).replace(" ", "")) if i.target is not None else ""
        dt_ok = False
        if call.args:
            d = al.subst(call.args[0])
            dt_ok = isinstance(d, ast.Constant) and isinstance(d.value, float) and d.value > 0
            if isinstance(d, ast.Name):
                defs = [x.value for x in items if x.kind == "assign" and isinstance(x.target, ast.Name) and x.target.id == d.id]
                dt_ok = len(defs) == 1 and isinstance(defs[0], ast.Constant) and isinstance(defs[0].value, float) and defs[0].value > 0 \
                    and not any(x.loops for x in items if x.kind == "assign" and isinstance(x.target, ast.Name) and x.target.id == d.id)
        okp = dt_ok and len(call.args) == 4 and args[1:3] == [SN, PN] and tg == f"{SN},{PN}"
        why = f"process_model({', '.join(args)}) -> {tg}; required (fixed positive dt, state, covariance, controls) -> state, covariance"
        # the control argument: Control.from_data(<control slice>.reshape((C, 1)))
        if len(call.args) == 4 and (ctl_var is not None or inline_ctl):
            carg = call.args[3]
            cands = [T(carg)]
            if isinstance(carg, ast.Name):
                cands += [T(x.value) for x in in_row if x.kind == "assign" and ast.unparse(x.target) == carg.id]
            want = {f"self.model_.Control.from_data({XN}[{ridx},:{C}].reshape(({C},1)))"}
            if ctl_var is not None:
                want.add(TT(f"self.model_.Control.from_data({ctl_var}.reshape(({C},1)))"))
            ctl_ok = any(c in want for c in cands)
        ctx.oblige("SEQUENCE", where, "controls -> Control.from_data(column of control_size)", ctl_ok, file=F, func=q, construct="control reading",
                   msg="the control passed to process_model is not Control.from_data of the row's control columns")
    else:
        why = f"{len(procs)} process_model calls per row"
    ctx.oblige("SEQUENCE", where, "one prediction per row with the fixed step, threading (state, covariance)", okp, file=F, func=q, construct="process call", msg=why)
    pos = {id(i.stmt): n for n, i in enumerate(items)}
    first_sens = next(n for n, i in enumerate(items) if i.stmt is sens)
    order_ok = bool(procs) and pos[id(procs[0][0].stmt)] < first_sens
    ctx.oblige("SEQUENCE", where, "prediction precedes the sensor updates", order_ok, file=F, func=q, construct="predict before update",
               msg="per row the sensor updates do not follow the single prediction")
    # ---- sensor order
    it = sens.iter
    key = None
    if isinstance(it, ast.Call) and isinstance(it.func, ast.Name) and it.func.id == "enumerate" and it.args:
        it = it.args[0]
        key = sens.target.elts[1].id if isinstance(sens.target, ast.Tuple) and isinstance(sens.target.elts[1], ast.Name) else None
    elif isinstance(sens.target, ast.Name):
        key = sens.target.id
    itx = T(it)
    SM = "self.model_.sensor_models"
    if isinstance(it, ast.Name):
        # a hoisted key list: one definition, a top-level statement after the filter is compiled and before the row loop
        defs = [i for i in items if i.kind == "assign" and isinstance(i.target, ast.Name) and i.target.id == it.id]
        if len(defs) == 1 and not defs[0].loops and not defs[0].guards and mdl and pos_of(defs[0].stmt) > pos_of(mdl[0]) and pos_of(defs[0].stmt) < pos_of(row):
            itx = T(defs[0].value)
    ok_sorted = itx in (f"sorted(list({SM}))", f"sorted({SM})", f"sorted({SM}.keys())", f"sorted(list({SM}.keys()))")
    if not ok_sorted and key is None:
        ctx.error(f"{where}: per-sensor loop target not understood")
    ctx.oblige("CONSUME", where, f"sensors iterated by `{itx}`", ok_sorted, file=F, func=q, construct="sensor order",
               msg=f"sensors are visited through `{itx}`, not in sorted key order of the compiled filter's sensors: the documented "
                   f"column blocks are handed to the wrong sensors")
    pos_item = {id(i.stmt): n for n, i in enumerate(items)}
    first_sens_pos = next(n for n, i in enumerate(items) if i.stmt is sens)
    # ---- per-sensor consumption
    n_txt = {f"len({SM}[{key}])", f"{SM}[{key}].sensor_size", f"len({SM}[{key}].readings)"}
    rd_var = split_ok = None
    bad_slices = []
    for i in in_sens:
        if i.kind != "assign" or not isinstance(i.value, ast.Subscript) or rest_var is None:
            continue
        v = T(i.value)
        if not v.startswith(f"{rest_var}["):
            continue
        tgt = ast.unparse(i.target)
        if any(v == f"{rest_var}[:{n}]" for n in n_txt):
            rd_var = tgt
        elif any(v == f"{rest_var}[{n}:]" for n in n_txt) and tgt == rest_var:
            split_ok = True
        else:
            bad_slices.append(f"{tgt} = {v}")
    # the same consumption written with a running offset: `o = 0` per row, per sensor `reading = rest[o : o + n]` and `o += n`.  The loop body is
    # evaluated in statement order over affine forms a*PS + b*n + c (PS = the sizes of the sensors already visited, n = this sensor's size), so a
    # slice taken after the offset has moved, or an offset that advances by anything but n, is seen as what it is
    offset_form = None
    if rest_var is not None and rd_var is None and not bad_slices:
        def is_n(e):
            return any(T(e) == n for n in n_txt)
        cand_o = {i.target.id for i in in_sens if i.kind == "assign" and isinstance(i.stmt, ast.AugAssign) and isinstance(i.target, ast.Name)}
        for O in sorted(cand_o):
            env_ = {O: (1, 0, 0)}
            problems = []

            def aff(e):
                if isinstance(e, ast.Name):
                    if e.id in env_:
                        return env_[e.id]
                    return (0, 1, 0) if is_n(e) else None
                if isinstance(e, ast.Constant) and isinstance(e.value, int) and not isinstance(e.value, bool):
                    return (0, 0, e.value)
                if isinstance(e, ast.BinOp) and isinstance(e.op, (ast.Add, ast.Sub)):
                    l, r = aff(e.left), aff(e.right)
                    if l is None or r is None:
                        return None
                    sg = 1 if isinstance(e.op, ast.Add) else -1
                    return tuple(a + sg * b for a, b in zip(l, r))
                return (0, 1, 0) if is_n(e) else None
            found = []
            for i in in_sens:
                if i.value is not None:
                    for sub in ast.walk(i.value):
                        if isinstance(sub, ast.Subscript) and ast.unparse(sub.value) == rest_var and isinstance(sub.slice, ast.Slice) and sub.slice.step is None:
                            lo = aff(sub.slice.lower) if sub.slice.lower is not None else (0, 0, 0)
                            hi = aff(sub.slice.upper) if sub.slice.upper is not None else None
                            found.append((lo, hi, ast.unparse(sub)))
                if i.kind == "assign" and isinstance(i.target, ast.Name) and (i.target.id in env_ or i.target.id == O or aff(i.value) is not None):
                    v = aff(i.value)
                    if v is None:
                        env_.pop(i.target.id, None)
                        if i.target.id == O:
                            problems.append(f"`{O}` is set to `{ast.unparse(i.value)[:40]}`")
                    else:
                        env_[i.target.id] = v
            if not found:
                continue
            inits = [x for x in in_row if x.kind == "assign" and isinstance(x.target, ast.Name) and x.target.id == O]
            before = [x for x in inits if pos_item[id(x.stmt)] < first_sens_pos]
            init_ok = len(inits) == 1 and len(before) == 1 and isinstance(before[0].value, ast.Constant) and before[0].value.value == 0 \
                and not any(x.kind == "assign" and isinstance(x.target, ast.Name) and x.target.id == O for x in items if not x.loops)
            step_ok = env_.get(O) == (1, 1, 0)
            slices_ok = all(lo == (1, 0, 0) and hi == (1, 1, 0) for lo, hi, _ in found) and len(found) == 1
            offset_form = (O, init_ok, step_ok, slices_ok, found, problems)
            break
    if offset_form is not None:
        O, init_ok, step_ok, slices_ok, found, problems = offset_form
        okof = init_ok and step_ok and slices_ok and not problems
        why_ = []
        if not init_ok:
            why_.append(f"the offset `{O}` does not start at 0 for every row")
        if not step_ok:
            why_.append(f"the offset `{O}` does not advance by exactly this sensor's size per sensor")
        if not slices_ok:
            why_.append("the sensor's columns are taken as " + ", ".join(f"`{t}`" for _, _, t in found) + ", not [offset : offset + size] at the offset before it advances")
        ctx.oblige("CONSUME", where, f"per sensor: columns [{O} : {O} + size], {O} advanced by size", okof, file=F, func=q, construct="sensor split (offset form)",
                   msg="; ".join(why_ + problems) + ": the documented column blocks are not the ones handed to the sensors")
        rd_var = "@offset"
        split_ok = True
    if rest_var is not None and offset_form is None:
        if bad_slices:
            ctx.oblige("CONSUME", where, f"sensor slices {bad_slices}", False, file=F, func=q, construct="sensor split",
                       msg=f"per sensor the remainder is sliced as {bad_slices}; required the next len(sensor) columns and the remainder after them")
        elif rd_var is None or not split_ok:
            ctx.error(f"{where}: per-sensor `reading = rest[:n]; rest = rest[n:]` consumption not found")
        else:
            ctx.oblige("CONSUME", where, "per sensor: next len(sensor) columns, remainder threaded", True, file=F, func=q, construct="sensor split")
    # ---- make_reading / sensor_model / NIS
    mk = [(i, c) for i in in_sens for c in calls_in(i, ".make_reading")]
    upd_l = [(i, c) for i in in_sens for c in calls_in(i, ".sensor_model")]
    rname = None
    okr = False
    if len(mk) == 1 and rd_var == "@offset":
        # offset form: the data argument is the (checked) slice, or a local holding it, reshaped to a column of the sensor's size
        i, c = mk[0]
        rname = ast.unparse(i.target) if i.target is not None else None
        d = next((k.value for k in c.keywords if k.arg == "data"), None)
        okr = len(c.args) == 1 and T(c.args[0]) == key and d is not None and isinstance(d, ast.Call) and isinstance(d.func, ast.Attribute) and d.func.attr == "reshape" \
            and len(d.args) == 1 and isinstance(d.args[0], ast.Tuple) and len(d.args[0].elts) == 2 and any(T(d.args[0].elts[0]) == n for n in n_txt) \
            and T(d.args[0].elts[1]) == "1"
        if okr:
            src_ = d.func.value
            if isinstance(src_, ast.Name):
                defs_ = [x.value for x in in_sens if x.kind == "assign" and isinstance(x.target, ast.Name) and x.target.id == src_.id]
                src_ = defs_[0] if len(defs_) == 1 else src_
            okr = isinstance(src_, ast.Subscript) and ast.unparse(src_.value) == rest_var
    elif len(mk) == 1 and rd_var is not None:
        i, c = mk[0]
        rname = ast.unparse(i.target) if i.target is not None else None
        want = {TT(f"self.model_.make_reading({key},data={rd_var}.reshape(({n},1)))") for n in n_txt}
        okr = T(c) in want
    ctx.oblige("SEQUENCE", where, "reading = make_reading(key, data=column of the sensor's size)", okr, file=F, func=q, construct="make_reading",
               msg="the reading passed to sensor_model is not make_reading(key, data=<this sensor's columns>)")
    oku = False
    upd = None
    if len(upd_l) == 1:
        upd, call = upd_l[0]
        kws = {k.arg: T(k.value) for k in call.keywords}
        posa = [T(a) for a in call.args]
        tg = normstmt.unparen(ast.unparse(upd.target).replace(" ", "")) if upd.target is not None else ""
        st = kws.get("state", posa[0] if posa else None)
        cv = kws.get("covariance", posa[1] if len(posa) > 1 else None)
        rtxts = {rname} | ({T(mk[0][1])} if mk else set())
        oku = st == SN and cv == PN and kws.get("sensor_key") == key and kws.get("sensor_reading") in rtxts and tg == f"{SN},{PN}"
    ctx.oblige("SEQUENCE", where, "state, covariance = sensor_model(state, covariance, sensor_key=key, sensor_reading=reading)", oku, file=F, func=q,
               construct="sensor_model call", msg="the per-sensor update is not applied to the threaded (state, covariance) with this sensor's key and reading")
    apps = [(i, c) for i in in_sens if i.kind == "expr" for c in [i.value] if isinstance(c, ast.Call) and ast.unparse(c.func).endswith(".append")]
    okn, why = False, "no NIS value appended per sensor"
    if apps and apps[0][1].args:
        atoms = {f"self.model_.innovations[{key}]": ("y", False), f"self.model_.sensor_prediction_uncertainty[{key}]": ("S", True)}
        tmp_env = {}
        for i_ in in_sens:
            if i_.kind == "assign" and isinstance(i_.target, ast.Name):
                tmp_env.setdefault(i_.target.id, []).append(al.subst(i_.value))
        tmp_env = {k: v[0] for k, v in tmp_env.items() if len(v) == 1}
        form = mat(al.subst(apps[0][1].args[0]), tmp_env, atoms)
        want = MatForm.atom("y").T() * MatForm.atom("S", True).inv() * MatForm.atom("y")
        if form is None:
            ctx.error(f"{where}: the appended value `{ast.unparse(apps[0][1].args[0])[:80]}` has no derivable matrix normal form (functions outside the enumerated numpy / scipy subset)")
        okn = form is None or form == want
        why = f"appended value normalises to {form!r}; required {want!r} (records of the same sensor key)"
    ctx.oblige("NIS-FORM", where, "appended value = y^T.Inv(S).y", okn, file=F, func=q, construct="NIS", msg=why)
    if upd is not None and apps:
        ok_ord = pos[id(upd.stmt)] < pos[id(apps[0][0].stmt)] and (not mk or pos[id(mk[0][0].stmt)] <= pos[id(upd.stmt)])
        ctx.oblige("SEQUENCE", where, "per sensor: make_reading, sensor_model, then the NIS of that update", ok_ord, file=F, func=q,
                   construct="per-sensor order", msg="the NIS is not computed from the records of the update just applied (statement order)")
    # rows collected in order and returned: per row a fresh list L, one value appended per sensor (above), L appended once -- unconditionally, after
    # the sensor loop -- to the outer list O, which starts empty before the row loop and is what is returned (as an array)
    okc, whyc = False, "no per-sensor list found"
    outer = None
    if apps and isinstance(apps[0][1].func, ast.Attribute) and isinstance(apps[0][1].func.value, ast.Name):
        L = apps[0][1].func.value.id
        resets = [i for i in in_row if i.kind == "assign" and isinstance(i.target, ast.Name) and i.target.id == L]
        okc = len(resets) == 1 and isinstance(resets[0].value, ast.List) and not resets[0].value.elts and not resets[0].guards \
            and pos[id(resets[0].stmt)] < first_sens
        whyc = f"the per-row list `{L}` is not reset to [] once per row before the sensor loop (values of earlier rows leak into later ones)"
        if okc:
            outs = [i for i in in_row if i.kind == "expr" and isinstance(i.value, ast.Call) and isinstance(i.value.func, ast.Attribute)
                    and i.value.func.attr == "append" and len(i.value.args) == 1 and isinstance(i.value.args[0], ast.Name) and i.value.args[0].id == L and isinstance(i.value.func.value, ast.Name)]
            last_sens = max((pos[id(i.stmt)] for i in in_sens if id(i.stmt) in pos), default=first_sens)
            okc = len(outs) == 1 and not outs[0].guards and pos[id(outs[0].stmt)] > last_sens
            whyc = f"the row's list `{L}` is not appended exactly once, unconditionally, after the sensor loop ({len(outs)} append(s) found)"
            if okc:
                outer = outs[0].value.func.value.id
                inits = [i for i in items if i.kind == "assign" and isinstance(i.target, ast.Name) and i.target.id == outer and not i.loops
                         and pos.get(id(i.stmt), 10**9) < pos[id(row)]] if id(row) in pos else []
                okc = len(inits) == 1 and isinstance(inits[0].value, ast.List) and not inits[0].value.elts
                whyc = f"the collecting list `{outer}` does not start empty before the row loop"
    ctx.oblige("OUTPUTS", where, "per row: fresh list, one value per sensor, appended once to the collecting list", okc, file=F, func=q,
               construct="row collection", msg=whyc)
    default_return_rule(ctx, tr, q, "OUTPUTS")
    rets = [r for r in ast.walk(tr) if isinstance(r, ast.Return) and r.value is not None]
    O_ = outer or "innovations"
    okret = any(ast.unparse(r.value) == O_ for r in rets) and any(
        isinstance(s, ast.Assign) and ast.unparse(s.targets[0]) == O_ and f"np.array({O_}" in ast.unparse(s.value) for s in tr.body)
    ctx.oblige("OUTPUTS", where, "returns the per-row lists as an array", okret, file=F, func=q, construct="transform return",
               msg="transform does not return the collected per-row, per-sensor values as an array")
    # ---- RECORDS (from the E2 event log of sensor_model)
    sc = scenarios.PyEKF(ctx, run=("sensor_model",))
    ev = scenarios.events_of(sc.it, "ExtendedKalmanFilter.sensor_model")
    first_ret = min((e["seq"] for e in ev if e["kind"] == "return"), default=None)
    for name in ("innovations", "sensor_prediction_uncertainty"):
        st = [e for e in ev if e["kind"] == "store" and f"self.{name}[" in e.get("target", "")]
        ok = bool(st) and all(not e["rpath"] for e in st) and first_ret is not None and all(e["seq"] < first_ret for e in st)
        ctx.oblige("RECORDS", f"{F}:ExtendedKalmanFilter.sensor_model", f"self.{name}[key] stored unconditionally before the first return", ok, file=F,
                   func="ExtendedKalmanFilter.sensor_model", construct=f"record {name}",
                   msg=f"sensor_model does not refresh self.{name}[sensor_key] on every call (a rejected reading leaves a stale record, from which the adapter computes its NIS)")
    # ---- mahalanobis / score
    mh = core.need(core.find_func(cls, "mahalanobis"), f"{CLS}.mahalanobis")
    # the values come from one transform(X, include_states=True) call: whatever its first component is called, that is what is returned flattened
    src = [s_ for s_ in mh.body if isinstance(s_, ast.Assign) and "self.transform(" in ast.unparse(s_.value)]
    VN = None
    if len(src) == 1:
        t0 = src[0].targets[0]
        first = t0.elts[0] if isinstance(t0, (ast.Tuple, ast.List)) and t0.elts else t0
        VN = first.id if isinstance(first, ast.Name) else None
    okm = VN is not None
    rr = [r for r in ast.walk(mh) if isinstance(r, ast.Return) and r.value is not None]
    okm = okm and len(rr) == 1 and ast.unparse(rr[0].value).replace(" ", "") in (f"{VN}.flatten()", f"{VN}.ravel()", f"{VN}.reshape(-1)", f"np.ravel({VN})")
    # in between the name may only be re-shaped (reshape / np.array), never re-computed
    if VN is not None:
        for s_ in mh.body:
            if isinstance(s_, ast.Assign) and any(isinstance(t, ast.Name) and t.id == VN for t in s_.targets) and s_ is not (src[0] if src else None):
                v = ast.unparse(s_.value).replace(" ", "")
                if not (v.startswith(f"np.reshape({VN},") or v.startswith(f"np.array({VN}).reshape(") or v.startswith(f"{VN}.reshape(") or v.startswith(f"np.asarray({VN})")):
                    okm = False
    ctx.oblige("OUTPUTS", f"{F}:{CLS}.mahalanobis", "returns transform's values flattened", bool(okm), file=F, func=f"{CLS}.mahalanobis",
               construct="mahalanobis", msg="mahalanobis does not return the flattened output of one self.transform(X, include_states=True) call")
    score_rule(ctx, cls, mod)
    refuse_only_rule(ctx, cls, mod)
    data_entry_rule(ctx, cls, mod)
    for name in ("transform", "mahalanobis", "score"):
        fn = core.find_func(cls, name)
        ws = [w for w in effects.writes(fn) if not (w.kind == "attr" and w.target == "self.model_")]
        ctx.oblige("PURE", f"{F}:{CLS}.{name}", f"{len(ws)} write effect(s) besides self.model_", not ws, file=F, func=f"{CLS}.{name}",
                   construct="writes:" + ";".join(sorted(w.kind + " " + w.target for w in ws)),
                   msg=f"{name} changes estimator state: " + "; ".join(f"{w.kind} {w.target} (line {w.line})" for w in ws))
    # no module-level / class-level mutable state shared between filters: one filter's construction or update must not reach another's (shared with C01)
    from . import c15 as _c15pp
    ctx.rule("PY-PURE", "no module-level / class-level mutable state shared between filters (shared with C01)")
    _c15pp.gen_pure(ctx, {"python": "py/formak/python.py", "common": "py/formak/common.py"}, rule="PY-PURE", floor=40)
    # the reading transform builds from a sensor's columns is that sensor's Reading.from_data (shared with C13)
    from . import c13 as _c13mr
    ctx.rule("MAKE-READING", "make_reading(key, data=...) is that sensor's Reading.from_data(data) (shared with C13)")
    _c13mr.make_reading_guard(ctx, mod)
    return core.finish(ctx, explanation="structural (def-use resolved) rules on the adapter's row consumption and call sequence, E3 normal form of the "
                                        "NIS and score, effect analysis", **META)


def rows_by_index(fn):
    """ROW-ITER: `for r in X:` over the data parameter (r bound nowhere else) is `for i in range(X.shape[0])` with r = X[i]; for a 2-D array
    `X[i][a:b]` is `X[i, a:b]`"""
    import copy
    data = next((a.arg for a in fn.args.args if a.arg != "self"), None)
    if data is None:
        return fn
    stores = {}
    for n in ast.walk(fn):
        if isinstance(n, ast.Name) and isinstance(n.ctx, ast.Store):
            stores[n.id] = stores.get(n.id, 0) + 1
    fn = copy.deepcopy(fn)
    k = 0
    for lp in [x for x in ast.walk(fn) if isinstance(x, ast.For)]:
        if not (isinstance(lp.iter, ast.Name) and lp.iter.id == data and isinstance(lp.target, ast.Name) and stores.get(lp.target.id) == 1 and not lp.orelse):
            continue
        if any(isinstance(x, ast.Name) and x.id == data and isinstance(x.ctx, ast.Store) for b in lp.body for x in ast.walk(b)):
            continue
        r, i = lp.target.id, f"row_index__{k}"
        k += 1

        class S(ast.NodeTransformer):
            def visit_Subscript(self, n):
                self.generic_visit(n)
                v = n.value
                if isinstance(v, ast.Subscript) and isinstance(v.value, ast.Name) and v.value.id == data and isinstance(v.slice, ast.Name) and v.slice.id == i \
                        and not isinstance(n.slice, ast.Tuple):
                    return ast.copy_location(ast.Subscript(v.value, ast.Tuple([v.slice, n.slice], ast.Load()), n.ctx), n)
                return n

            def visit_Name(self, n):
                if n.id == r and isinstance(n.ctx, ast.Load):
                    return ast.copy_location(ast.Subscript(ast.Name(data, ast.Load()), ast.Name(i, ast.Load()), ast.Load()), n)
                return n
        lp.body = [S().visit(b) for b in lp.body]
        lp.target = ast.Name(i, ast.Store())
        lp.iter = ast.Call(ast.Name("range", ast.Load()), [ast.Subscript(ast.Attribute(ast.Name(data, ast.Load()), "shape", ast.Load()), ast.Constant(0), ast.Load())], [])
    ast.fix_missing_locations(fn)
    return fn


CONVERTERS = {"array", "asarray", "asanyarray", "ascontiguousarray", "asfarray"}
RESHAPERS = {"squeeze", "ravel", "flatten", "reshape", "transpose", "atleast_1d", "atleast_2d", "atleast_3d", "expand_dims", "swapaxes", "moveaxis", "T",
             "resize", "flat", "diagonal", "take", "compress", "unique", "sort", "flip", "fliplr", "flipud", "roll", "rollaxis", "vstack", "hstack", "concatenate",
             "stack", "column_stack", "row_stack", "tile", "repeat", "trim_zeros", "nan_to_num", "abs", "absolute", "clip", "delete", "append"}


def data_entry_rule(ctx, cls, mod):
    """DATA-ENTRY: the rows transform consumes are the rows it was given.  Every data argument of the adapter's public methods enters through a
    converter helper (force_to_ndarray); the helper hands back its argument as an array of the same shape and contents: each value it binds or
    returns is its parameter, np.array / np.asarray / .__array__() of it, or None.  A reshaping or value-changing call there (squeeze, ravel,
    reshape, atleast_2d, sort, abs, ...) changes what a row is for every caller."""
    ctx.rule("DATA-ENTRY", "the converter the adapter passes its data through returns its argument as an array of the same shape and contents")
    convs = set()
    for name in ("transform", "mahalanobis", "score", "fit"):
        fn = core.find_func(cls, name)
        if fn is None:
            continue
        params = {a.arg for a in fn.args.args[1:]}
        for s_ in ast.walk(fn):
            if isinstance(s_, ast.Assign) and isinstance(s_.value, ast.Call) and isinstance(s_.value.func, ast.Name) and len(s_.value.args) == 1 \
                    and isinstance(s_.value.args[0], ast.Name) and s_.value.args[0].id in params and core.find_func_imported(ctx, mod, s_.value.func.id)[0] is not None \
                    and any(isinstance(t, ast.Name) and t.id == s_.value.args[0].id for t in s_.targets):
                convs.add(s_.value.func.id)
    n = 0
    for cn in sorted(convs):
        fn, cfile = core.find_func_imported(ctx, mod, cn)
        cfile = cfile or F
        if len(fn.args.args) != 1:
            continue
        P = fn.args.args[0].arg
        ldefs, busy = {}, set()
        for a_ in core.own_walk(fn):
            if isinstance(a_, ast.Assign) and len(a_.targets) == 1 and isinstance(a_.targets[0], ast.Name) and a_.targets[0].id != P:
                ldefs.setdefault(a_.targets[0].id, []).append(a_.value)

        def classify(e):
            """'same' | 'reshaped:<what>' | 'unknown'"""
            if isinstance(e, ast.Constant) and e.value is None:
                return "same"
            if isinstance(e, ast.Name):
                if e.id == P:
                    return "same"
                if e.id in ldefs and e.id not in busy:
                    busy.add(e.id)
                    cs = [classify(v) for v in ldefs[e.id]]
                    busy.discard(e.id)
                    return next((c_ for c_ in cs if c_ != "same"), "same")
                return "unknown"
            if isinstance(e, ast.IfExp):
                a, b = classify(e.body), classify(e.orelse)
                return a if a != "same" else b
            if isinstance(e, ast.Call):
                f = e.func
                if isinstance(f, ast.Attribute) and isinstance(f.value, ast.Name) and f.value.id in ("np", "numpy"):
                    if f.attr in CONVERTERS and e.args and not any(k.arg in ("ndmin", "shape", "order") for k in e.keywords):
                        return classify(e.args[0])
                    if f.attr in RESHAPERS:
                        return "reshaped:np." + f.attr
                    return "unknown"
                if isinstance(f, ast.Attribute) and f.attr in ("__array__", "copy", "to_numpy", "astype", "view"):
                    return classify(f.value)
                if isinstance(f, ast.Attribute) and f.attr in RESHAPERS and classify(f.value) != "unknown":
                    return "reshaped:." + f.attr
                return "unknown"
            if isinstance(e, ast.Attribute) and e.attr in RESHAPERS and classify(e.value) != "unknown":
                return "reshaped:." + e.attr
            if isinstance(e, ast.Attribute) and e.attr in ("values", "data") and classify(e.value) == "same":
                return "same"
            if isinstance(e, ast.Subscript) and classify(e.value) != "unknown":
                return "reshaped:[" + ast.unparse(e.slice)[:20] + "]"
            if isinstance(e, (ast.BinOp, ast.UnaryOp)):
                return "reshaped:arithmetic"
            return "unknown"
        for s_ in core.own_walk(fn):
            vals = []
            if isinstance(s_, ast.Assign) and any(isinstance(t, ast.Name) and t.id == P for t in s_.targets):
                vals.append(("binds", s_.value))
            elif isinstance(s_, ast.AugAssign) and isinstance(s_.target, ast.Name) and s_.target.id == P:
                vals.append(("binds", ast.BinOp(left=s_.target, op=s_.op, right=s_.value)))
            elif isinstance(s_, ast.Return) and s_.value is not None:
                vals.append(("returns", s_.value))
            elif isinstance(s_, ast.Assign) and not all(isinstance(t, ast.Name) for t in s_.targets):
                vals.append(("stores", ast.Name(id="?", ctx=ast.Load())))
            for what, e in vals:
                c = classify(e)
                n += 1
                if c == "unknown":
                    ctx.error(f"DATA-ENTRY: {cn} {what} `{ast.unparse(e)[:60]}` (line {s_.lineno}): not a recognised conversion of `{P}`")
                    continue
                ctx.oblige("DATA-ENTRY", f"{cfile}:{cn}", f"{what} `{ast.unparse(e)[:50]}`: {c}", c == "same", file=cfile, func=cn, construct=f"{what}:{c}", line=s_.lineno,
                           msg=f"{cn} {what} `{ast.unparse(e)[:60]}` ({c.split(':', 1)[-1]}): the data matrix the adapter's methods consume no longer has the rows "
                               "and columns the caller passed (a single row, or a column of weights, changes meaning)")
    ctx.floor("DATA-ENTRY", len(convs), 1, "converter helpers the adapter's data arguments pass through")
    ctx.floor("DATA-ENTRY", n, 1, "values bound / returned by the converter")


def default_return_rule(ctx, fn_norm, q, rule):
    """the plain value is what is returned when the optional boolean flag (default False) is not set; the tuple with extras only when it is"""
    from .c17 import _paths
    flags = [a.arg for a, d in zip(fn_norm.args.args[len(fn_norm.args.args) - len(fn_norm.args.defaults):], fn_norm.args.defaults)
             if isinstance(d, ast.Constant) and d.value is False]
    flags += [a.arg for a, d in zip(fn_norm.args.kwonlyargs, fn_norm.args.kw_defaults) if isinstance(d, ast.Constant) and d.value is False]
    if not flags:
        return
    for path in _paths(fn_norm.body):
        rets = [e[1] for e in path if e[0] == "stmt" and isinstance(e[1], ast.Return) and e[1].value is not None]
        if not rets:
            continue
        pol_of = {}
        for e in path:
            if e[0] == "cond":
                t, pol = e[1], e[2]
                while isinstance(t, ast.UnaryOp) and isinstance(t.op, ast.Not):
                    t, pol = t.operand, not pol
                if isinstance(t, ast.Name) and t.id in flags:
                    pol_of[t.id] = pol
        v = rets[0].value
        extras = isinstance(v, ast.Tuple)
        set_flags = [f for f, p_ in pol_of.items() if p_]
        ok = bool(set_flags) if extras else not set_flags
        ctx.oblige(rule, f"{F}:{q}", ("tuple with extras" if extras else "plain value") + f" returned with {pol_of}", ok, file=F, func=q,
                   construct="default return " + ("extras" if extras else "plain"),
                   msg=(f"{q} returns the tuple with extras although {flags} is not set" if extras else
                        f"{q} returns the plain value only when {set_flags} is set: the default call returns something else"),
                   line=getattr(rets[0], "lineno", None))


def refuse_only_rule(ctx, cls, mod):
    """REFUSE-ONLY: transform / mahalanobis / score raise only when something is wrong with the *result* (no sensors, a negative value, nothing
    computed, a non-finite score) -- decided on the guard normal form of every raise, so a negated or weakened guard that refuses valid data is
    reported.  (Whether these raises exist at all is not required by the property.)"""
    from .. import normast, estflow, rtmodel
    from .c17 import _paths
    ctx.rule("REFUSE-ONLY", "the adapter raises only under: no sensor models / negative NIS present / empty result / non-finite score")

    def bad(lit):
        c, pol = lit
        txt = rtmodel.cppast.show(c) if isinstance(c, tuple) else str(c)
        # any(x < 0) is true
        if pol and c[0] in ("mcall", "call") and (c[2] if c[0] == "mcall" else c[1]) == "any":
            args = c[3] if c[0] == "mcall" else c[2]
            return len(args) == 1 and args[0][0] == "bin" and args[0][1] == "<" and args[0][3] in (("num", "0.0"), ("num", "0"))
        # a scalar value < 0 (inside the diagnostic loop)
        if pol and c[0] == "bin" and c[1] == ">" and c[2] in (("num", "0.0"), ("num", "0")):
            return True
        # len(x) <= 0  (canonical: not (len(x) > 0)), len(x) == 0
        if not pol and c[0] == "bin" and c[1] == ">" and c[2][0] == "call" and c[2][1] == "len" and c[3] == ("num", "0"):
            return True
        if pol and c[0] == "bin" and c[1] == "==" and c[2][0] == "call" and c[2][1] == "len" and c[3] == ("num", "0"):
            return True
        # not isfinite(x)
        if not pol and c[0] in ("mcall", "call") and (c[2] if c[0] == "mcall" else c[1]) == "isfinite":
            return True
        # type / None guards on the arguments
        if c[0] == "call" and c[1] == "isinstance" and not pol:
            return True
        return False
    n = 0
    for name in ("transform", "mahalanobis", "score"):
        fn = core.need(core.find_func(cls, name), f"{CLS}.{name}")
        fn = normast.Normaliser(normast.class_resolver(mod, cls, module_funcs="small"), consts=normast.module_constants(mod)).function(fn)
        q = f"{CLS}.{name}"
        from .. import astpat
        RA_ = astpat.resolver(fn)[0]

        def paths_of(stmts, prefix):
            for path in _paths(stmts, prefix):
                yield path
        # loops are opaque to _paths: descend into loop bodies as well (conditions of enclosing statements kept)
        work = [(fn.body, [])]
        seen_raises = set()
        while work:
            stmts, prefix = work.pop()
            for path in _paths(stmts, prefix):
                conds = [(e[1], e[2]) for e in path if e[0] == "cond"]
                for e in path:
                    if e[0] == "stmt" and isinstance(e[1], (ast.For, ast.While)):
                        idx = path.index(e)
                        work.append((e[1].body, [x for x in path[:idx] if x[0] == "cond"]))
                    if e[0] == "stmt" and isinstance(e[1], ast.Raise) and id(e[1]) not in seen_raises:
                        seen_raises.add(id(e[1]))
                        n += 1
                        idx = path.index(e)
                        # a guard held in a local bound once (`negative = v < 0.0; if np.any(negative)`) is read through
                        cs = [(rtmodel.py_expr(RA_(x[1])), x[2]) for x in path[:idx] if x[0] == "cond"]
                        lits = estflow.literals(cs)
                        okr = lits is not None and any(bad(l) for l in lits)
                        ctx.oblige("REFUSE-ONLY", f"{F}:{q}", f"raise under `{' and '.join(('' if p_ else 'not ') + ast.unparse(t)[:50] for t, p_ in [(x[1], x[2]) for x in path[:idx] if x[0] == 'cond'])}`",
                                   okr, file=F, func=q, construct="raise guard " + ast.unparse(e[1])[:50],
                                   msg=f"{name} raises `{ast.unparse(e[1])[:70]}` under `" + " and ".join(("" if x[2] else "not ") + ast.unparse(x[1])[:60] for x in path[:idx] if x[0] == "cond")
                                       + "`: that is not one of the documented failure conditions (no sensors, negative values, nothing computed, non-finite score), so valid data is refused",
                                   line=getattr(e[1], "lineno", None))
    ctx.floor("REFUSE-ONLY", n, 4, "raise statements in transform / mahalanobis / score")


def _scalar(e, names, env=None, depth=0):
    """arithmetic expression -> commutative polynomial (matform.Scalar); a name with one arithmetic definition is unfolded, other names are atoms"""
    from fractions import Fraction
    from ..matform import Scalar
    if isinstance(e, ast.Name) and env is not None and len(env.get(e.id, [])) == 1 and depth < 6:
        d = env[e.id][0]
        if isinstance(d, (ast.BinOp, ast.UnaryOp, ast.Constant, ast.Name)):
            v = _scalar(d, names, env, depth + 1)
            if v is not None:
                return v
    if isinstance(e, ast.Constant) and isinstance(e.value, (int, float)) and not isinstance(e.value, bool):
        return Scalar.const(Fraction(str(e.value)))
    if isinstance(e, ast.UnaryOp) and isinstance(e.op, ast.USub):
        v = _scalar(e.operand, names, env, depth)
        return -v if v is not None else None
    if isinstance(e, ast.BinOp) and isinstance(e.op, (ast.Add, ast.Sub, ast.Mult)):
        a, b = _scalar(e.left, names, env, depth), _scalar(e.right, names, env, depth)
        if a is None or b is None:
            return None
        return a + b if isinstance(e.op, ast.Add) else (a - b if isinstance(e.op, ast.Sub) else a * b)
    if isinstance(e, ast.BinOp) and isinstance(e.op, ast.Div):
        a, b = _scalar(e.left, names, env, depth), _scalar(e.right, names, env, depth)
        if a is None or b is None:
            return None
        if len(b.t) == 1:
            (mono, c), = b.t.items()
            inv = Scalar({tuple((x, -k) for x, k in mono): Fraction(1) / c})
            return a * inv
        return a * Scalar.atom("recip[" + ast.unparse(e.right).replace(" ", "")[:60] + "]")
    if isinstance(e, ast.Name):
        names.add(e.id)
        return Scalar.atom(e.id)
    return None


def score_rule(ctx, cls, mod=None):
    """SCORE: the returned value normalises (commutative polynomial normal form, fv.matform.Scalar) to
    10*B + 1*((1/V + V)/2) + 0.01*M, and B, V, M -- whatever they are called -- are defined by the documented sub-terms"""
    from fractions import Fraction
    from .. import normast
    from ..matform import Scalar
    sc = core.need(core.find_func(cls, "score"), f"{CLS}.score")
    q = f"{CLS}.score"
    where = f"{F}:{q}"
    consts = normast.module_constants(mod) if mod is not None else {}
    sc = normast.Normaliser(None, consts=consts).function(sc)
    default_return_rule(ctx, sc, q, "SCORE")
    env = {}
    for s_ in ast.walk(sc):
        if isinstance(s_, ast.Assign) and len(s_.targets) == 1 and isinstance(s_.targets[0], ast.Name):
            env.setdefault(s_.targets[0].id, []).append(s_.value)
        if isinstance(s_, ast.AugAssign) and isinstance(s_.target, ast.Name):
            env.setdefault(s_.target.id, []).append(ast.BinOp(ast.Name(s_.target.id, ast.Load()), s_.op, s_.value))
    rets = [r.value for r in ast.walk(sc) if isinstance(r, ast.Return) and r.value is not None]
    plain = [r for r in rets if not isinstance(r, ast.Tuple)]
    tup = [r for r in rets if isinstance(r, ast.Tuple)]
    if not plain:
        ctx.error(f"{where}: no plain (non-explain) return found")
        return

    def resolve(e, depth=0):
        while isinstance(e, ast.Name) and len(env.get(e.id, [])) == 1 and depth < 6:
            e, depth = env[e.id][0], depth + 1
        return e
    res = resolve(plain[0])
    names = set()
    form = _scalar(res, names, env)
    if form is None:
        ctx.error(f"{where}: the returned expression `{ast.unparse(res)[:100]}` is not arithmetic over named sub-terms")
        return
    # identify B, V, M by their role in the polynomial
    B = V = M = None
    for m, c in form.t.items():
        if len(m) == 1 and m[0][1] == 1 and c == Fraction(10):
            B = m[0][0]
        elif len(m) == 1 and m[0][1] == 1 and c == Fraction(1, 100):
            M = m[0][0]
        elif len(m) == 1 and m[0][1] == -1:
            V = m[0][0]
    want = None
    if B and V and M:
        want = Scalar.const(10) * Scalar.atom(B) + (Scalar({((V, -1),): Fraction(1)}) + Scalar.atom(V)) * Scalar.const(Fraction(1, 2)) \
            + Scalar.const(Fraction(1, 100)) * Scalar.atom(M)
    ok = want is not None and form == want
    ctx.oblige("SCORE", where, f"result = {form!r}", ok, file=F, func=q, construct="score combination",
               msg=f"score returns {form!r}; documented: 10*bias + ((1/variance + variance)/2) + 0.01*size")
    if tup:
        # the explained tuple reports the same result first
        first = resolve(tup[0].elts[0]) if tup[0].elts else None
        okt = first is not None and _scalar(first, set(), env) == form
        ctx.oblige("SCORE", where, "explain_score returns the same result first", okt, file=F, func=q, construct="score explain",
                   msg="with explain_score the first returned element is not the score itself")
    if not ok:
        return

    def defs(nm):
        return {ast.unparse(v).replace(" ", "") for v in env.get(nm, [])}
    # which names hold the source values: mahalanobis(X) and its square root
    src = [k for k, vs in env.items() if any(ast.unparse(v).replace(" ", "") == "self.mahalanobis(X)" for v in vs)]
    ctx.oblige("SCORE", where, f"scored values are mahalanobis(X) ({src})", len(src) == 1 and len(env[src[0]]) == 1, file=F, func=q, construct="score source",
               msg=f"score is not computed from a single evaluation of self.mahalanobis(X) (found {src})")
    if len(src) != 1:
        return
    d2 = src[0]
    roots = {f"np.sqrt({d2})"}
    rname = [k for k, vs in env.items() if len(vs) == 1 and ast.unparse(vs[0]).replace(" ", "") in roots]
    r_ = rname[0] if rname else f"np.sqrt({d2})"
    oka = defs(B) == {f"np.sum(np.square(np.mean({r_})))", f"np.sum(np.square(np.mean({r_}*sample_weight)))"}
    okv = defs(V) == {f"np.sum({d2})", f"np.sum({d2}*sample_weight)"}
    ctx.oblige("SCORE", where, f"bias term {B} = {sorted(defs(B))}", oka, file=F, func=q, construct="score avg", msg=f"bias sub-term is {sorted(defs(B))}")
    ctx.oblige("SCORE", where, f"variance term {V} = {sorted(defs(V))}", okv, file=F, func=q, construct="score var", msg=f"variance sub-term is {sorted(defs(V))}")
    ms = defs(M)
    okms = any("np.sum(np.square(list(self._flatten_dict_diagonal(self.process_noise" in m for m in ms) \
        and any("self._flatten_dict_diagonal(" in m and m.startswith(f"{M}+") for m in ms)
    ctx.oblige("SCORE", where, "size term = sum of squared noise diagonals (process noise, then every sensor's noise)", okms, file=F, func=q,
               construct="score size term", msg=f"size sub-term is {sorted(ms)}")
