"""C14 -- structurally invalid definitions are refused (by every compile entry point), valid ones are accepted.

A validation matrix: rows = fault classes of the property, columns = the entry points python.compile, python.compile_ekf,
cpp.compile, cpp.compile_ekf (the shared ui.Model constructor's guards count for all of them, since every entry point
takes a ui.Model).  A cell is discharged when, in the static call graph from the entry point, an *unconditional* raise-guard
of that class is reached before the first output action (the returned object for Python; `_compile_impl`, which opens the
files for writing, for C++).  Guard recognisers look at the subject and relation of the test (which user collections are
compared and how), not at its text:

  F1  overlap            not set(A).isdisjoint(set(B)) -> raise, for all three pairs of {state, control, calibration}
  F2  coverage           len(state_model) vs len(state) AND every state is a key of state_model
  F3  calibration map    set(calibration_map.keys()) != set(calibration) -> raise          (a size-only test does not discharge)
  F4a noise key          process-noise key not in a set built from the declared controls -> raise, for every key
  F4b noise missing      len(process_noise) vs number of controls
  F4c noise negative     sign / PSD gate on each value or on the assembled matrix
  F5  sensor symbols     free_symbols of every reading of every sensor is a subset of state | calibration, and a fault found for
                         one reading cannot be erased by a later one
  F6  sensor noise       keys(sensor_models) == keys(sensor_noises) AND per-sensor size match
  ACCEPT                 no guard applies set algebra / (in)equality to a raw user container (C13's CONTAINER rule)
"""
import ast
from typing import Dict, List, Optional

from .. import core
from . import c13

META = dict(level="other", trusted_base=["Python semantics of set(), len(), isdisjoint, issubset, ==, raise, assert"],
            assumptions=["python is not run with -O (several Python-side guards are assert statements)",
                         "each guard's predicate is the fault class for all inputs: the recogniser checks subject and relation, not arithmetic"])

FILES = {"ui_model": "py/formak/ui_model.py", "common": "py/formak/common.py", "python": "py/formak/python.py", "cpp": "py/formak/cpp.py"}
ENTRIES = [("python", "compile"), ("python", "compile_ekf"), ("cpp", "compile"), ("cpp", "compile_ekf")]
ROLES = {"state": "STATE", "control": "CONTROL", "calibration": "CALIB"}


class Guard:
    def __init__(self, mod, qual, node, test, negated, ctxs, order):
        self.mod, self.qual, self.node, self.test, self.negated, self.ctxs, self.order = mod, qual, node, test, negated, ctxs, order
        self.toothless = False
        # ctxs: list of ("for", ast.For) / ("if", test, polarity) / ("try",) enclosing the guard, outermost first

    @property
    def line(self):
        return self.node.lineno

    def text(self):
        return ("not " if self.negated else "") + ast.unparse(self.test)

    def unconditional(self):
        return not any(c[0] == "if" for c in self.ctxs)


class Graph:
    def __init__(self, ctx: core.Ctx):
        self.ctx = ctx
        self.mods = {m: ctx.parse(rel) for m, rel in FILES.items()}
        self.generator_cls = None      # class that `generator.<method>()` resolves to while walking a C++ entry point

    def func(self, mod, qual) -> Optional[ast.FunctionDef]:
        t = self.mods[mod]
        if "." in qual:
            c, f = qual.split(".", 1)
            cls = core.find_class(t, c)
            return core.find_func(cls, f) if cls else None
        return core.find_func(t, qual)

    def callees(self, mod, qual, fn):
        """ordered list of (stmt index in fn body, mod, qual) of resolvable calls"""
        out = []
        cls = qual.split(".")[0] if "." in qual else None
        for idx, stmt in enumerate(fn.body):
            for c in ast.walk(stmt):
                if not isinstance(c, ast.Call):
                    continue
                f = c.func
                tgt = None
                if isinstance(f, ast.Name):
                    if core.find_func(self.mods[mod], f.id) is not None:
                        tgt = (mod, f.id)
                    elif core.find_class(self.mods[mod], f.id) is not None:
                        tgt = (mod, f.id + ".__init__")
                elif isinstance(f, ast.Attribute) and isinstance(f.value, ast.Name):
                    if f.value.id == "self" and cls and self.func(mod, f"{cls}.{f.attr}") is not None:
                        tgt = (mod, f"{cls}.{f.attr}")
                    elif f.value.id in self.mods and core.find_func(self.mods[f.value.id], f.attr) is not None:
                        tgt = (f.value.id, f.attr)
                    elif f.value.id == "generator" and self.generator_cls and self.func(mod, f"{self.generator_cls}.{f.attr}") is not None:
                        tgt = (mod, f"{self.generator_cls}.{f.attr}")
                    elif f.value.id == "fragments":
                        pass
                if tgt:
                    out.append((idx, tgt[0], tgt[1], c))
        return out

    def reach(self, mod, qual, stop=()):
        """functions reachable from the entry before the first output action, in call order"""
        seen, order = set(), []
        self.binds = getattr(self, "binds", {})

        def bind(fn2, call, caller_bind, is_method):
            """callee parameter -> the caller's argument expression (the caller's own parameters resolved the same way)"""
            pos = [a.arg for a in fn2.args.posonlyargs + fn2.args.args]
            if is_method and pos and pos[0] in ("self", "cls"):
                pos = pos[1:]
            out = {}
            for p_, a in zip(pos, call.args):
                if not isinstance(a, ast.Starred):
                    out[p_] = a
            allowed = set(pos) | {a.arg for a in fn2.args.kwonlyargs}
            for k in call.keywords:
                if k.arg in allowed:
                    out[k.arg] = k.value

            class R(ast.NodeTransformer):
                def visit_Name(self_, n):
                    if isinstance(n.ctx, ast.Load) and n.id in caller_bind:
                        return caller_bind[n.id]
                    return n
            import copy
            return {k: R().visit(copy.deepcopy(v)) for k, v in out.items()}

        self.callctx = getattr(self, "callctx", {})

        def enclosing_ifs(fn, call):
            """[(test, polarity)] of the ifs around `call` in fn (outermost first)"""
            path = []

            def walk(stmts, acc):
                for st in stmts:
                    if any(x is call for x in ast.walk(st)):
                        if isinstance(st, ast.If):
                            if any(x is call for b_ in st.body for x in ast.walk(b_)):
                                return walk(st.body, acc + [(st.test, True)])
                            if any(x is call for b_ in st.orelse for x in ast.walk(b_)):
                                return walk(st.orelse, acc + [(st.test, False)])
                            return acc
                        for fld in ("body", "orelse", "finalbody"):
                            v = getattr(st, fld, None)
                            if isinstance(v, list) and v and any(x is call for b_ in v for x in ast.walk(b_)):
                                return walk(v, acc)
                        return acc
                return acc
            return walk(fn.body, path)

        def visit(m, q, depth, b, cctx):
            if (m, q) in seen or depth > 6:
                return
            fn = self.func(m, q)
            if fn is None:
                return
            seen.add((m, q))
            self.binds[(m, q)] = b
            self.callctx[(m, q)] = cctx
            order.append((m, q, fn))
            for idx, m2, q2, call in self.callees(m, q, fn):
                if q2 in stop:
                    break
                f2 = self.func(m2, q2)
                visit(m2, q2, depth + 1, bind(f2, call, b, "." in q2) if f2 is not None else {}, cctx + enclosing_ifs(fn, call))
        visit(mod, qual, 0, {}, [])
        return order


def guards_of(mod, qual, fn) -> List[Guard]:
    out = []
    counter = [0]

    def walk(stmts, ctxs):
        for s in stmts:
            counter[0] += 1
            if isinstance(s, ast.If):
                if not any(isinstance(x, (ast.Raise, ast.Return, ast.Assert)) for x in ast.walk(s)) and not s.orelse:
                    g0 = Guard(mod, qual, s, s.test, False, list(ctxs), counter[0])
                    g0.toothless = True          # a test that raises nothing: only counts as evidence that the check was meant (see run)
                    out.append(g0)
                if any(isinstance(b, ast.Raise) for b in s.body):
                    out.append(Guard(mod, qual, s, s.test, False, list(ctxs), counter[0]))
                if any(isinstance(b, ast.Raise) for b in s.orelse):
                    out.append(Guard(mod, qual, s, s.test, True, list(ctxs), counter[0]))     # raises when the test is false
                walk(s.body, ctxs + [("if", s.test, True)])
                walk(s.orelse, ctxs + [("if", s.test, False)])
            elif isinstance(s, ast.Assert):
                out.append(Guard(mod, qual, s, s.test, True, list(ctxs), counter[0]))
            elif isinstance(s, ast.For):
                walk(s.body, ctxs + [("for", s)])
            elif isinstance(s, ast.Try):
                walk(s.body, ctxs + [("try", s)])
                for h in s.handlers:
                    walk(h.body, ctxs + [("except", s)])
            elif isinstance(s, ast.With):
                walk(s.body, ctxs)
            elif isinstance(s, ast.Expr) and isinstance(s.value, ast.Call):
                f = s.value.func
                if isinstance(f, ast.Name) and f.id == "assert_valid_covariance":
                    out.append(Guard(mod, qual, s, s.value, True, list(ctxs), counter[0]))
            if isinstance(s, (ast.Assign, ast.Expr, ast.Return)) and getattr(s, "value", None) is not None:
                for c in ast.walk(s.value):
                    if isinstance(c, ast.Call) and isinstance(c.func, ast.Attribute) and c.func.attr == "from_dict" and c.args:
                        out.append(Guard(mod, qual, s, c, True, list(ctxs), counter[0]))
    walk(fn.body, [])
    return out


def loop_cover(g: "Guard"):
    """-> [(why, line)]: ways in which an enclosing loop of guard g does not present every element to it"""
    out = []
    loops = [c[1] for c in g.ctxs if c[0] == "for"]
    for loop in loops:
        def narrow(e, depth=0):
            while depth < 8:
                depth += 1
                if isinstance(e, ast.Call) and isinstance(e.func, ast.Name) and e.func.id in ("sorted", "list", "tuple", "set", "enumerate", "reversed", "frozenset") and e.args:
                    e = e.args[0]
                elif isinstance(e, ast.Call) and isinstance(e.func, ast.Attribute) and e.func.attr in ("items", "keys", "values") and not e.args:
                    e = e.func.value
                elif isinstance(e, ast.Call) and ast.unparse(e.func).split(".")[-1] in ("product", "zip", "chain"):
                    for a_ in e.args:
                        r_ = narrow(a_, depth)
                        if r_:
                            return r_
                    return None
                else:
                    break
            if isinstance(e, ast.Subscript) and isinstance(e.slice, ast.Slice):
                return f"the loop ranges over the slice `{ast.unparse(e)[:60]}` only"
            if isinstance(e, ast.Call) and ast.unparse(e.func).split(".")[-1] in ("islice", "filter", "takewhile", "dropwhile", "filterfalse"):
                return f"the loop ranges over `{ast.unparse(e)[:60]}`, which drops elements"
            if isinstance(e, (ast.ListComp, ast.GeneratorExp, ast.SetComp)) and any(gen.ifs for gen in e.generators):
                return f"the loop ranges over the filtered collection `{ast.unparse(e)[:60]}`"
            return None
        r = narrow(loop.iter)
        if r:
            out.append((r, loop.lineno))

        def exits(stmts, in_handler=False):
            for st in stmts:
                if isinstance(st, ast.Break):
                    out.append((f"the loop is left by `break` (line {st.lineno}) before the remaining elements are seen", st.lineno))
                elif isinstance(st, ast.Return):
                    out.append((f"the function returns from inside the loop (line {st.lineno}) before the remaining elements are seen", st.lineno))
                elif isinstance(st, (ast.For, ast.While)):
                    # a nested loop's own break leaves only that loop -- which also hides ITS remaining elements when the guard is inside it
                    if any(st is l_ for l_ in loops):
                        continue
                    for x in ast.walk(st):
                        if isinstance(x, ast.Return):
                            out.append((f"the function returns from inside the loop (line {x.lineno})", x.lineno))
                elif isinstance(st, ast.If):
                    exits(st.body, in_handler)
                    exits(st.orelse, in_handler)
                elif isinstance(st, ast.Try):
                    exits(st.body, in_handler)
                    for h in st.handlers:
                        exits(h.body, True)
                    exits(st.orelse, in_handler)
                    exits(st.finalbody, in_handler)
                elif isinstance(st, ast.With):
                    exits(st.body, in_handler)
        exits(loop.body)
        # an exception handler around the check (or around what it is computed from) that carries on with the next element: only "this element
        # is not an expression" (AttributeError) is the accepted reason -- a handler that also swallows TypeError / ValueError / Exception takes a
        # failure of the check itself for "nothing to check"
        subj = {n_.id for n_ in ast.walk(g.test) if isinstance(n_, ast.Name)}
        for st in ast.walk(loop):
            if not isinstance(st, ast.Try):
                continue
            in_try = any(x is g.node for b_ in st.body for x in ast.walk(b_)) or \
                any(isinstance(x, ast.Name) and isinstance(x.ctx, ast.Store) and x.id in subj for b_ in st.body for x in ast.walk(b_))
            if not in_try:
                continue
            for h in st.handlers:
                swallows = not any(isinstance(x, ast.Raise) for x in ast.walk(h))
                types_ = [ast.unparse(e_) for e_ in (h.type.elts if isinstance(h.type, ast.Tuple) else [h.type])] if h.type is not None else ["<everything>"]
                wide = [t_ for t_ in types_ if t_.split(".")[-1] != "AttributeError"]
                if swallows and wide:
                    out.append((f"an element whose check raises {', '.join(wide)} is skipped by the handler at line {h.lineno} (only AttributeError -- the element "
                                f"is not an expression -- means there is nothing to check)", h.lineno))
        # a conditional `continue` ahead of the guard skips the element (the AttributeError / hasattr / isinstance idioms -- "this element is not
        # an expression, there is nothing to check" -- are the accepted ones)
        elem_names = {n.id for n in ast.walk(loop.target) if isinstance(n, ast.Name)}

        def skips(stmts):
            for st in stmts:
                if st is g.node or any(x is g.node for x in ast.walk(st)):
                    if isinstance(st, ast.If) and st is not g.node:
                        skips(st.body if any(x is g.node for b_ in st.body for x in ast.walk(b_)) else st.orelse)
                    elif isinstance(st, ast.Try):
                        skips(st.body)
                    elif isinstance(st, (ast.For, ast.While, ast.With)):
                        pass
                    return True
                if isinstance(st, ast.If) and not st.orelse and st.body and isinstance(st.body[-1], ast.Continue):
                    t = st.test
                    while isinstance(t, ast.UnaryOp) and isinstance(t.op, ast.Not):
                        t = t.operand
                    typ = isinstance(t, ast.Call) and isinstance(t.func, ast.Name) and t.func.id in ("hasattr", "isinstance") and t.args \
                        and isinstance(t.args[0], ast.Name) and t.args[0].id in elem_names
                    if not typ:
                        out.append((f"elements for which `{ast.unparse(st.test)[:60]}` holds are skipped by `continue` (line {st.lineno}) before the check", st.lineno))
            return False
        inner = next((l_ for l_ in loops if l_ is not loop and any(x is l_ for x in ast.walk(loop))), None)
        if inner is None or True:
            skips(loop.body)
    # de-duplicate
    seen, res = set(), []
    for w, l in out:
        if (w, l) not in seen:
            seen.add((w, l))
            res.append((w, l))
    return res


# --------------------------------------------------------------------------------------------------------- recognisers
def role_of(expr, env=None) -> Optional[str]:
    """which user collection does `expr` denote (through set()/list()/.keys() wrappers)?"""
    e = expr
    while True:
        if isinstance(e, ast.Call) and isinstance(e.func, ast.Name) and e.func.id in ("set", "list", "sorted", "frozenset", "tuple") and e.args:
            e = e.args[0]
        elif isinstance(e, ast.Call) and isinstance(e.func, ast.Attribute) and e.func.attr == "keys" and not e.args:
            e = e.func.value
        else:
            break
    if isinstance(e, ast.Attribute):
        if e.attr in ROLES:
            return ROLES[e.attr]
        if e.attr in ("state_model", "control_size", "calibration_size", "state_size"):
            return e.attr
    if isinstance(e, ast.Name):
        if e.id in ROLES:
            return ROLES[e.id]
        if e.id in ("state_model", "calibration_map", "process_noise", "sensor_models", "sensor_noises"):
            return e.id
        if env and e.id in env:
            return role_of(env[e.id], None)
    return None


BINDS: Dict[int, Dict[str, ast.AST]] = {}     # id(function node) -> parameter bindings from the call path being walked


def local_env(fn):
    env = dict(BINDS.get(id(fn), {}))
    for n in ast.walk(fn):
        if isinstance(n, ast.Assign) and len(n.targets) == 1 and isinstance(n.targets[0], ast.Name):
            if n.targets[0].id in BINDS.get(id(fn), {}):
                env[n.targets[0].id] = n.value
            else:
                env.setdefault(n.targets[0].id, n.value)
    return env


def reaching_env(fn, node):
    """local_env(fn), with every name bound more than once resolved to the binding that reaches `node`: the nearest preceding assignment in the
    statement lists that contain it (innermost wins)"""
    env = local_env(fn)
    chain = []

    def find(stmts, acc):
        for i, st in enumerate(stmts):
            if st is node or any(x is node for x in ast.walk(st)):
                acc.append((stmts, i))
                for fld in ("body", "orelse", "finalbody"):
                    v = getattr(st, fld, None)
                    if isinstance(v, list) and v and any(x is node for y in v for x in ast.walk(y)):
                        find(v, acc)
                if isinstance(st, ast.Try):
                    for h in st.handlers:
                        if any(x is node for y in h.body for x in ast.walk(y)):
                            find(h.body, acc)
                return
    find(fn.body, chain)
    for stmts, i in chain:
        for prev in stmts[:i]:
            if isinstance(prev, ast.Assign) and len(prev.targets) == 1 and isinstance(prev.targets[0], ast.Name):
                env[prev.targets[0].id] = prev.value
    return env


def len_role(e, env, depth=0):
    if isinstance(e, ast.Name) and env and e.id in env and depth < 4:
        return len_role(env[e.id], env, depth + 1)
    if isinstance(e, ast.Call) and isinstance(e.func, ast.Name) and e.func.id == "len" and e.args:
        return role_of(e.args[0], env)
    if isinstance(e, ast.Attribute) and e.attr in ("control_size", "calibration_size", "state_size"):
        return {"control_size": "CONTROL", "calibration_size": "CALIB", "state_size": "STATE"}[e.attr]
    return None


def expand(g: Guard, fn) -> Guard:
    """`if X: raise` where X is a local derived collection is rewritten to the relation it tests:
         X = A - B            ->  not A.issubset(B)
         X = A & B / A.intersection(B)  ->  not A.isdisjoint(B)
         X = [e for e in S if c] / {k: v for ... if c}   ->  `c` for every element of S (a synthetic enclosing loop)"""
    env = local_env(fn)
    t = g.test
    neg = g.negated
    while isinstance(t, ast.UnaryOp) and isinstance(t.op, ast.Not):
        t, neg = t.operand, not neg
    if isinstance(t, ast.Compare) and len(t.ops) == 1 and isinstance(t.left, ast.Call) and ast.unparse(t.left.func) == "len" \
            and isinstance(t.comparators[0], ast.Constant) and t.comparators[0].value == 0 and isinstance(t.ops[0], (ast.Gt, ast.NotEq)):
        t = t.left.args[0]
    if isinstance(t, ast.Compare) and len(t.ops) == 1 and isinstance(t.ops[0], ast.IsNot) and isinstance(t.comparators[0], ast.Constant) \
            and t.comparators[0].value is None and isinstance(t.left, ast.Name):
        t = t.left               # `x is not None` for x = next((... if cond), None): some element satisfies cond
    if not isinstance(t, ast.Name) or neg or t.id not in env:
        return g
    v = env[t.id]
    # the definition that reaches the guard: the nearest preceding assignment of the name in the guard's own statement list (a name reused for
    # several checks -- `shared = A & B; if shared: raise` three times -- means something different each time)
    for lst in [getattr(n_, f_) for n_ in ast.walk(fn) for f_ in ("body", "orelse", "finalbody") if isinstance(getattr(n_, f_, None), list)]:
        if any(x is g.node for x in lst):
            k = next(i for i, x in enumerate(lst) if x is g.node)
            for prev in reversed(lst[:k]):
                if isinstance(prev, ast.Assign) and len(prev.targets) == 1 and isinstance(prev.targets[0], ast.Name) and prev.targets[0].id == t.id:
                    v = prev.value
                    break
            break
    while isinstance(v, ast.Call) and isinstance(v.func, ast.Name) and v.func.id in ("sorted", "list", "tuple", "set", "frozenset") and len(v.args) == 1:
        v = v.args[0]            # sorted(A - B) is empty exactly when A - B is
    if isinstance(v, ast.BinOp) and isinstance(v.op, ast.Sub):
        new = ast.parse(f"({ast.unparse(v.left)}).issubset({ast.unparse(v.right)})", mode="eval").body
        return Guard(g.mod, g.qual, g.node, new, True, g.ctxs, g.order)
    inter = None
    if isinstance(v, ast.BinOp) and isinstance(v.op, ast.BitAnd):
        inter = (v.left, v.right)
    if isinstance(v, ast.Call) and isinstance(v.func, ast.Attribute) and v.func.attr == "intersection" and v.args:
        inter = (v.func.value, v.args[0])
    if inter:
        new = ast.parse(f"({ast.unparse(inter[0])}).isdisjoint({ast.unparse(inter[1])})", mode="eval").body
        return Guard(g.mod, g.qual, g.node, new, True, g.ctxs, g.order)
    if isinstance(v, ast.Call) and isinstance(v.func, ast.Name) and v.func.id == "next" and len(v.args) == 2 and isinstance(v.args[1], ast.Constant) \
            and v.args[1].value is None and isinstance(v.args[0], ast.GeneratorExp):
        v = v.args[0]            # the first offender, or None: a raise under `is not None` refuses exactly when some element offends
    if isinstance(v, (ast.ListComp, ast.DictComp, ast.SetComp, ast.GeneratorExp)) and len(v.generators) == 1 and len(v.generators[0].ifs) == 1:
        gen = v.generators[0]
        loop = ast.For(target=gen.target, iter=gen.iter, body=[], orelse=[], lineno=g.node.lineno, col_offset=0)
        return Guard(g.mod, g.qual, g.node, gen.ifs[0], False, g.ctxs + [("for", loop)], g.order)
    return g


def classify(g: Guard, fn, graph: Graph, _probe=False) -> List[str]:
    """fault classes (cells) this guard discharges"""
    if not _probe:
        out0 = classify(g, fn, graph, _probe=True)
        if out0:
            return out0
        # the same test with the opposite polarity would discharge a cell: this guard raises exactly when the definition is *fine*
        flipped = Guard(g.mod, g.qual, g.node, g.test, not g.negated, g.ctxs, g.order)
        inv = [c for c in classify(flipped, fn, graph, _probe=True) if not c.startswith("weak|") and c not in ("F5:erasable",)]
        if inv:
            return ["inverted|" + c for c in inv]
        # `if A and B: raise` where B alone would discharge a cell: the refusal additionally needs A -- a weaker guard
        t0, neg0 = g.test, g.negated
        while isinstance(t0, ast.UnaryOp) and isinstance(t0.op, ast.Not):
            t0, neg0 = t0.operand, not neg0
        if isinstance(t0, ast.BoolOp) and ((isinstance(t0.op, ast.And) and not neg0) or (isinstance(t0.op, ast.Or) and neg0)):
            outw = []
            for i_, v_ in enumerate(t0.values):
                part = Guard(g.mod, g.qual, g.node, v_, neg0, g.ctxs, g.order)
                for c in classify(part, fn, graph, _probe=True):
                    if not c.startswith("weak|") and c not in ("F5:erasable", "F4d:pairs-allowed"):
                        others = " and ".join(("not " if neg0 else "") + ast.unparse(o_) for j_, o_ in enumerate(t0.values) if j_ != i_)
                        outw.append(f"weak|{c}|the refusal `{ast.unparse(v_)[:50]}` is only made when also `{others[:60]}`")
            return outw
        return []
    env = reaching_env(fn, g.node)
    g = expand(g, fn)
    t = g.test
    out = []
    # strip a leading `not`
    neg = g.negated
    while isinstance(t, ast.UnaryOp) and isinstance(t.op, ast.Not):
        t, neg = t.operand, not neg
    loops = [c[1] for c in g.ctxs if c[0] == "for"]
    # F1: disjointness
    if isinstance(t, ast.Call) and isinstance(t.func, ast.Attribute) and t.func.attr == "isdisjoint" and t.args and neg and g.unconditional():
        a, b = role_of(t.func.value, env), role_of(t.args[0], env)
        if a and b and a != b and {a, b} <= {"STATE", "CONTROL", "CALIB"}:
            out.append("F1:" + "/".join(sorted((a, b))))
        elif loops:
            pairs = _loop_pairs(loops[-1], fn)
            for p in pairs or []:
                out.append("F1:" + "/".join(sorted(p)))
    if isinstance(t, ast.Call) and isinstance(t.func, ast.Attribute) and t.func.attr in ("issubset", "issuperset") and t.args and neg and g.unconditional() \
            and {role_of(t.func.value, env), role_of(t.args[0], env)} == {"calibration_map", "CALIB"}:
        out.append("weak|F3|the calibration map's names are only compared one-sidedly (`%s`): a map with extra (or with missing) names passes" % ast.unparse(t))
    if isinstance(t, ast.Compare) and len(t.ops) == 1:
        op, l, r = t.ops[0], t.left, t.comparators[0]
        ll, lr = len_role(l, env), len_role(r, env)
        eq_fail = (isinstance(op, ast.Eq) and neg) or (isinstance(op, ast.NotEq) and not neg)     # raises when the sides differ
        if g.unconditional() and {ll, lr} == {"state_model", "STATE"} and isinstance(op, (ast.Lt, ast.Gt, ast.LtE, ast.GtE)):
            out.append("weak|F2:size|the state-model size is only compared one-sidedly (`%s`): extra or missing update expressions pass" % ast.unparse(t))
        if g.unconditional() and isinstance(op, (ast.Lt, ast.Gt, ast.LtE, ast.GtE)) and ll is None and lr is None \
                and {role_of(l, env), role_of(r, env)} == {"calibration_map", "CALIB"}:
            out.append("weak|F3|the calibration map's names are only compared one-sidedly (`%s`): a map with extra (or with missing) names passes" % ast.unparse(t))
        if g.unconditional() and isinstance(t.left, ast.Call) and isinstance(t.left.func, ast.Attribute) and False:
            pass
        if eq_fail and g.unconditional() and {ll, lr} == {"calibration_map", "CALIB"}:
            out.append("weak|F3|only the number of calibration values is compared (`%s`): a map naming the wrong symbols passes" % ast.unparse(t))
        if eq_fail and g.unconditional():
            if {ll, lr} == {"state_model", "STATE"}:
                out.append("F2:size")
            if {ll, lr} == {"process_noise", "CONTROL"}:
                out.append("F4b")
            rl, rr = role_of(l, env), role_of(r, env)
            is_set = lambda e: isinstance(e, ast.Call) and isinstance(e.func, ast.Name) and e.func.id in ("set", "frozenset") \
                or (isinstance(e, ast.Name) and _is_set_name(e.id, env)) \
                or (isinstance(e, ast.Call) and isinstance(e.func, ast.Attribute) and e.func.attr == "keys" and not e.args)      # a keys view compares like a set
            if {rl, rr} == {"calibration_map", "CALIB"} and ll is None and lr is None and is_set(l):
                out.append("F3")
            if {rl, rr} == {"sensor_models", "sensor_noises"} and ll is None and lr is None:
                out.append("F6:keys")
            if ll is None and lr is None and loops and _per_sensor_size(l, r, env):
                out.append("F6:size")
            if (ll or lr) and loops and _per_sensor_size(l, r, env):
                out.append("F6:size")
        # membership: every state is a key of state_model
        if isinstance(op, ast.In) and neg and loops and role_of(r, env) == "state_model" and role_of(loops[-1].iter, env) == "STATE":
            out.append("F2:keys")
        if isinstance(op, ast.NotIn) and not neg and loops and role_of(r, env) == "state_model" and role_of(loops[-1].iter, env) == "STATE":
            out.append("F2:keys")
        # F4a: key not in allowed set built from controls
        if isinstance(op, ast.NotIn) and not neg and loops and role_of(loops[-1].iter, env) == "process_noise" and isinstance(r, ast.Name):
            src = env.get(r.id)
            if src is not None and any(role_of(n) == "CONTROL" for n in ast.walk(src) if isinstance(n, (ast.Attribute, ast.Name))) \
                    and not any(role_of(n) in ("STATE", "CALIB") for n in ast.walk(src) if isinstance(n, (ast.Attribute, ast.Name))):
                if len(loops) == 1 and not any(c[0] == "if" for c in g.ctxs):
                    out.append("F4a")
        # F4c: value < 0 for every process-noise value
        if isinstance(op, ast.Lt) and not neg and loops and isinstance(r, ast.Constant) and r.value in (0, 0.0):
            it = loops[-1].iter
            if isinstance(it, ast.Call) and isinstance(it.func, ast.Attribute) and it.func.attr in ("items", "values") and role_of(it.func.value, env) == "process_noise":
                out.append("F4c")
    # F6:names -- binding the per-sensor noise by name into a named class over that sensor's readings (its constructor refuses unknown names)
    if isinstance(t, ast.Call) and isinstance(t.func, ast.Attribute) and t.func.attr == "from_dict" and t.args and g.unconditional():
        if "noise" in ast.unparse(t.args[0]) and ("Covariance" in ast.unparse(t.func.value) or "Reading" in ast.unparse(t.func.value)):
            out.append("F6:names")
    # F4d -- every accepted process-noise key is a single control symbol (otherwise the count check F4b proves nothing)
    if isinstance(t, ast.Call) and isinstance(t.func, ast.Name) and t.func.id == "isinstance" and len(t.args) == 2 and neg and loops \
            and role_of(loops[-1].iter, env) == "process_noise":
        ty = t.args[1]
        names = [ast.unparse(x) for x in (ty.elts if isinstance(ty, ast.Tuple) else [ty])]
        if names == ["Symbol"]:
            out.append("F4d")
        elif "tuple" in names:
            out.append("F4d:pairs-allowed")
    # F4c via the covariance gate on the assembled matrix
    if isinstance(t, ast.Call) and isinstance(t.func, ast.Name) and t.func.id == "assert_valid_covariance" and t.args and g.unconditional():
        a0 = t.args[0]
        if "process_noise" in ast.unparse(a0):
            out.append("F4c")
    # F5: free symbols subset of state | calibration
    if isinstance(t, ast.Call) and isinstance(t.func, ast.Attribute) and t.func.attr == "issubset" and neg and t.args:
        if "free_symbols" in ast.unparse(t.func.value):
            allowed = t.args[0]
            src = env.get(allowed.id) if isinstance(allowed, ast.Name) else allowed
            roles = {role_of(n) for n in ast.walk(src) if isinstance(n, (ast.Attribute, ast.Name))} if src is not None else set()
            if {"STATE", "CALIB"} <= roles and "CONTROL" in roles and len(loops) >= 2:
                out.append("weak|F5|the allowed symbol set of sensor models includes the controls")
            if {"STATE", "CALIB"} <= roles and "CONTROL" not in roles and len(loops) >= 2:
                if _raise_immediate(g) or _accumulate_monotone(g, fn):
                    out.append("F5")
                else:
                    out.append("F5:erasable")
    return out


def _is_set_name(name, env):
    v = env.get(name)
    return isinstance(v, ast.Call) and isinstance(v.func, ast.Name) and v.func.id in ("set", "frozenset")


def _per_sensor_size(l, r, env):
    def res(e):
        return env[e.id] if isinstance(e, ast.Name) and env and e.id in env and isinstance(env[e.id], ast.AST) else e
    txt = ast.unparse(res(l)) + " " + ast.unparse(res(r))
    return "sensor_noises[" in txt and ("len(" in txt or "sensor_size" in txt)


CLASS_ATTRS: Dict[str, Optional[ast.AST]] = {}      # class-level `NAME = <literal>` of the analysed modules (None when the name is bound more than once)


def _loop_pairs(loop: ast.For, fn):
    """pairs of roles a `for a, b in <pairs>` loop ranges over, when <pairs> is a literal-based idiom"""
    env = local_env(fn)

    def lit(e):
        if isinstance(e, ast.Name) and e.id in env:
            e = env[e.id]
        if isinstance(e, ast.Attribute) and isinstance(e.value, ast.Name) and e.value.id in ("self", "cls") and CLASS_ATTRS.get(e.attr) is not None:
            e = CLASS_ATTRS[e.attr]            # a class-level constant (`_ROLES = ("state", "calibration", "control")`)
        if isinstance(e, (ast.List, ast.Tuple)):
            rs = []
            for x in e.elts:
                if isinstance(x, ast.Constant) and isinstance(x.value, str):
                    rs.append(ROLES.get(x.value))        # role names, read back with getattr(self, <name>)
                    continue
                if isinstance(x, (ast.Tuple, ast.List)) and x.elts:
                    cand = [role_of(y, env) for y in x.elts]
                    cand = [c for c in cand if c in ("STATE", "CONTROL", "CALIB")]
                    rs.append(cand[0] if cand else None)
                else:
                    rs.append(role_of(x, env))
            return rs
        return None
    it = loop.iter
    if isinstance(it, ast.Call):
        name = it.func.attr if isinstance(it.func, ast.Attribute) else (it.func.id if isinstance(it.func, ast.Name) else None)
        if name == "combinations" and len(it.args) == 2 and isinstance(it.args[1], ast.Constant) and it.args[1].value == 2:
            L = lit(it.args[0])
            if L and all(L):
                return [(L[i], L[j]) for i in range(len(L)) for j in range(i + 1, len(L))]
        if name == "zip" and len(it.args) == 2:
            a, b = it.args
            L = lit(a)
            if L and all(L) and isinstance(b, ast.Subscript) and ast.unparse(b.value) == ast.unparse(a) and isinstance(b.slice, ast.Slice) \
                    and isinstance(b.slice.lower, ast.Constant) and b.slice.upper is None:
                k = b.slice.lower.value
                return [(L[i], L[i + k]) for i in range(len(L) - k)]
    L = lit(it)
    if L is None and isinstance(it, (ast.List, ast.Tuple)):
        pairs = []
        for x in it.elts:
            if isinstance(x, (ast.Tuple, ast.List)) and len(x.elts) >= 2:
                rs = [role_of(y, env) for y in x.elts]
                rs = [r for r in rs if r in ("STATE", "CONTROL", "CALIB")]
                if len(rs) == 2:
                    pairs.append(tuple(rs))
        return pairs
    return None


def _raise_immediate(g: Guard):
    return isinstance(g.node, ast.If) and any(isinstance(b, ast.Raise) for b in g.node.body)


def _accumulate_monotone(g: Guard, fn):
    return False


def accept_rule(ctx: core.Ctx, graph: "Graph"):
    """ACCEPT (valid definitions are not refused): every `raise` on the entry points' paths is reached under at least one *fault* literal -- a
    failed equality / membership / subset / disjointness / type test, an empty required map, a negative value.  A raise reached only under the
    opposite of such a literal (the sizes agree, the key is allowed, ...) refuses exactly the valid definitions.  Decided on the guard normal
    form (conjunction of literals through nested ifs, guard clauses normalised); a raise whose guards are of no recognised kind is only noted."""
    from .. import estflow, rtmodel, normast
    from .c17 import _paths
    ctx.rule("ACCEPT", "no raise on an entry point's path is reached only under conditions that valid definitions satisfy")

    def kind(lit):
        """-> 'fault' | 'valid' | 'context' | None for one literal"""
        c, pol = lit
        if not isinstance(c, tuple) or not c:
            return None
        if c[0] == "bin" and c[1] == "==":
            a, b = c[2], c[3]
            is_len0 = (a[0] == "call" and a[1] == "len" and b == ("num", "0")) or (b[0] == "call" and b[1] == "len" and a == ("num", "0"))
            if is_len0:
                subj = (a if a[0] == "call" else b)[2][0]
                user_input = subj[0] == "ref" and subj[1] in PARAMS
                if user_input:
                    return "fault-empty" if pol else "valid"     # a required map given empty / given at all
                return "context" if pol else "fault"             # a derived collection (missing / extra / overlap) that is not empty
            if ("num", "None") in (a, b):
                return None
            return "valid" if pol else "fault"                # sizes / key sets agree
        if c[0] == "bin" and c[1] in ("in",):
            return "valid" if pol else "fault"
        if c[0] == "mcall" and c[2] in ("issubset", "isdisjoint", "issuperset"):
            return "valid" if pol else "fault"
        if c[0] == "call" and c[1] in ("isinstance", "all"):
            return "valid" if pol else "fault"
        if c[0] == "bin" and c[1] == ">":
            a, b = c[2], c[3]
            if a in (("num", "0"), ("num", "0.0")):
                return "fault" if pol else "valid"            # value < 0
            if b in (("num", "0"), ("num", "0.0")) and (a[0] == "call" and a[1] == "len" or (a[0] == "field" and a[2].endswith("_size"))):
                return "context"                               # "has any": applicability, neither fault nor validity
            if a[0] == "call" and a[1] == "len" or b[0] == "call" and b[1] == "len":
                return None
        return None
    n = 0
    seen = set()
    PARAMS = set()

    def size_ctx(lit):
        """+1 for `<x>_size > 0` / `len(..) > 0` holding, -1 for its negation, 0 otherwise"""
        c, pol = lit
        if isinstance(c, tuple) and c and c[0] == "bin" and c[1] == ">" and c[3] in (("num", "0"), ("num", "0.0")) \
                and (c[2][0] == "field" and c[2][2].endswith("_size") or c[2][0] == "call" and c[2][1] == "len"):
            return 1 if pol else -1
        if isinstance(c, tuple) and c and c[0] == "bin" and c[1] == "==" and ("num", "0") in (c[2], c[3]):
            o = c[3] if c[2] == ("num", "0") else c[2]
            if o[0] == "field" and o[2].endswith("_size") or o[0] == "ref" and o[1].endswith("_size") or o[0] == "call" and o[1] == "len" and not (
                    o[2] and o[2][0][0] == "ref" and o[2][0][1] in PARAMS and o[2][0][1].endswith("_map")):
                return -1 if pol else 1              # size == 0 / size != 0
        if isinstance(c, tuple) and c and c[0] == "bin" and c[1] == ">" and c[3] in (("num", "0"), ("num", "0.0")) and c[2][0] == "ref" and c[2][1].endswith("_size"):
            return 1 if pol else -1
        return 0
    for mod, name in ENTRIES:
        graph.generator_cls = "ExtendedKalmanFilter" if name.endswith("_ekf") else "Model"
        for m, q, f in graph.reach(mod, name):
            if (m, q) in seen:
                continue
            seen.add((m, q))
            fnn = normast.Normaliser(None).function(f)
            PARAMS.clear()
            PARAMS.update(a_.arg for a_ in f.args.posonlyargs + f.args.args + f.args.kwonlyargs)
            par = {}
            for p_ in ast.walk(fnn):
                for fld, val in ast.iter_fields(p_):
                    if isinstance(val, list):
                        for ch in val:
                            if isinstance(ch, ast.AST):
                                par[ch] = (p_, fld)
                    elif isinstance(val, ast.AST):
                        par[val] = (p_, fld)
            for r in [x for x in ast.walk(fnn) if isinstance(x, ast.Raise) and x.exc is not None]:
                exc = ast.unparse(r.exc)
                if not any(k in exc for k in ("ModelConstructionError", "ModelDefinitionError", "ValueError", "TypeError")):
                    continue
                # all enclosing conditions (for the "is there a fault literal" question) and the deciding one: the innermost enclosing if, or --
                # for a raise that follows guard clauses -- the exits it falls through
                conds, deciding = [], None
                node = r
                while node in par:
                    up, fld = par[node]
                    if isinstance(up, ast.If) and fld in ("body", "orelse"):
                        lit = (rtmodel.py_expr(up.test), fld == "body")
                        conds.append(lit)
                        if deciding is None:
                            deciding = [lit]
                    if isinstance(up, (ast.FunctionDef,)):
                        break
                    if fld in ("body", "orelse") and isinstance(getattr(up, fld, None), list) and deciding is None:
                        blk = getattr(up, fld)
                        k = blk.index(node) if node in blk else -1
                        prev = [x for x in blk[:k] if isinstance(x, ast.If) and not x.orelse and x.body and isinstance(x.body[-1], (ast.Return, ast.Continue, ast.Raise))]
                        if prev and k >= 0 and isinstance(node, ast.Raise):
                            deciding = [(rtmodel.py_expr(x.test), False) for x in prev]
                            conds += deciding
                    node = up
                if not conds or deciding is None:
                    continue
                # the conditions under which this function is called at all (the ifs around its call site, transitively)
                conds += [(rtmodel.py_expr(t_), pol_) for t_, pol_ in graph.callctx.get((m, q), [])]
                lits = estflow.literals(conds)
                dl = estflow.literals(deciding)
                if lits is None or dl is None:
                    continue
                n += 1
                if any(kind(l) == "fault" for l in lits):
                    continue
                if any(kind(l) == "fault-empty" for l in lits):
                    # "the required map is empty" is a fault only where something is required: under a positive size
                    if not any(size_ctx(l) > 0 for l in lits):
                        txt = " and ".join(("" if p_ else "not ") + rtmodel.cppast.show(c_)[:60] for c_, p_ in lits)
                        ctx.oblige("ACCEPT", f"{FILES[m]}:{q}", f"raise under `{txt}`", False, file=FILES[m], func=q, construct="empty-map guard misplaced",
                                   msg=f"{q} raises `{exc[:60]}` for an empty map under `{txt}`: a model that declares nothing of the kind is refused for not "
                                       f"supplying it", line=r.lineno)
                    continue
                dk = [kind(l) for l in dl]
                if dk and all(k_ == "valid" for k_ in dk):
                    txt = " and ".join(("" if p_ else "not ") + rtmodel.cppast.show(c_)[:70] for c_, p_ in dl)
                    ctx.oblige("ACCEPT", f"{FILES[m]}:{q}", f"raise under `{txt}`", False, file=FILES[m], func=q, construct="raise under valid condition:" + txt[:60],
                               msg=f"{q} raises `{exc[:60]}` when `{txt}` holds -- a condition that valid definitions satisfy -- and under no fault condition: "
                                   f"valid definitions are refused", line=r.lineno)
                elif not any(k_ in ("fault", "valid") for k_ in dk):
                    ctx.note(f"ACCEPT: raise at {FILES[m]}:{r.lineno} is decided by a condition of no recognised kind")
    ctx.floor("ACCEPT", n, 12, "raise statements on the entry points' paths whose guards are conjunctions of literals")


def run(ctx: core.Ctx) -> int:
    for rid, t in (("VALID-MATRIX", "every fault class has an unconditional raise-guard on every entry point's path before the first output action"),
                   ("F5-ERASE", "a sensor-symbol fault found for one reading cannot be erased by a later reading"),
                   ("ORDER", "validation precedes the first output action (file writing) in the C++ entry points"),
                   ("CONTAINER", "no guard applies set algebra / equality to a raw user container")):
        ctx.rule(rid, t)
    graph = Graph(ctx)
    CLASS_ATTRS.clear()
    for _m in graph.mods.values():
        for _c in ast.walk(_m):
            if isinstance(_c, ast.ClassDef):
                for _s in _c.body:
                    if isinstance(_s, ast.Assign) and len(_s.targets) == 1 and isinstance(_s.targets[0], ast.Name):
                        CLASS_ATTRS[_s.targets[0].id] = None if _s.targets[0].id in CLASS_ATTRS else _s.value
    # shared constructor
    uim = core.need(graph.func("ui_model", "Model.__init__"), "ui_model.Model.__init__")
    ui_cells: Dict[str, Guard] = {}
    all_guards = 0
    ui_unclassified = []
    ui_weak = {}
    ui_inverted = []
    ui_toothless = []
    ui_guards = []
    for m_, q_, f_ in graph.reach("ui_model", "Model.__init__"):
        # the constructor and the private stages it is split into
        if m_ != "ui_model":
            continue
        BINDS[id(f_)] = graph.binds.get((m_, q_), {})
        if q_ != "Model.__init__":
            ctx.functions.append(f"ui_model.{q_} (reached from Model.__init__)")
        ui_guards += [(g, f_) for g in guards_of(m_, q_, f_)]
    for g, uim_f in ui_guards:
        if g.toothless:
            ui_toothless += [(c, g) for c in classify(g, uim_f, graph) if "|" not in c]
            continue
        all_guards += 1
        cs = classify(g, uim_f, graph)
        if not cs:
            ui_unclassified.append((g, uim_f))
        for c in cs:
            if c.startswith("inverted|"):
                ui_inverted.append((c.split("|", 1)[1], g))
            elif c.startswith("weak|"):
                _, cellname, why_ = c.split("|", 2)
                ui_weak.setdefault(cellname, (why_, g))
            else:
                ui_cells.setdefault(c, g)
    need_cells = {"python.compile": ["F1:CALIB/STATE", "F1:CONTROL/STATE", "F1:CALIB/CONTROL", "F2:size", "F2:keys", "F3"],
                  "cpp.compile": ["F1:CALIB/STATE", "F1:CONTROL/STATE", "F1:CALIB/CONTROL", "F2:size", "F2:keys", "F3"]}
    ekf = ["F1:CALIB/STATE", "F1:CONTROL/STATE", "F1:CALIB/CONTROL", "F2:size", "F2:keys", "F3", "F4a", "F4b", "F4c", "F4d", "F5", "F6:keys", "F6:size", "F6:names"]
    need_cells["python.compile_ekf"] = ekf
    need_cells["cpp.compile_ekf"] = ekf
    matrix = {}
    n_cover = [0]
    ctx.rule("LOOP-COVER", "a guard inside a loop sees every element: the loop ranges over the whole collection and is never left early or skipped past")
    for mod, name in ENTRIES:
        ent = f"{mod}.{name}"
        fn = core.need(graph.func(mod, name), ent)
        ctx.functions.append(ent)
        cells: Dict[str, Guard] = dict(ui_cells)
        erasable = []
        weak = dict(ui_weak)
        inverted = list(ui_inverted)
        toothless = list(ui_toothless)
        unclassified = list(ui_unclassified)
        graph.generator_cls = "ExtendedKalmanFilter" if name.endswith("_ekf") else "Model"
        for m, q, f in graph.reach(mod, name):
            BINDS[id(f)] = graph.binds.get((m, q), {})
            for g in guards_of(m, q, f):
                if g.toothless:
                    toothless += [(c, g) for c in classify(g, f, graph) if "|" not in c]
                    continue
                all_guards += 1
                cs = classify(g, f, graph)
                if not cs:
                    unclassified.append((g, f))
                for c in cs:
                    if c.startswith("inverted|"):
                        inverted.append((c.split("|", 1)[1], g))
                        continue
                    if c.startswith("weak|"):
                        _, cellname, why_ = c.split("|", 2)
                        weak.setdefault(cellname, (why_, g))
                        continue
                    if c == "F5:erasable":
                        erasable.append(g)
                    elif c == "F4d:pairs-allowed":
                        ctx.oblige("VALID-MATRIX", ent, "process-noise keys are single control symbols", False, file=FILES[g.mod], func=g.qual,
                                   construct="F4d pairs allowed",
                                   msg="(control, control) pair keys pass the process-noise key gate, so `len(process_noise) == number of controls` no longer "
                                       "shows that every control has a noise entry: a definition with one control's noise replaced by a pair entry is accepted",
                                   line=g.line)
                        cells.setdefault("F4d", g)
                    else:
                        cells.setdefault(c, g)
        for g in erasable:
            if "F5" not in cells:
                ctx.oblige("F5-ERASE", f"{FILES[g.mod]}:{g.qual}", "sensor-symbol fault raised immediately / accumulated monotonically", False,
                           file=FILES[g.mod], func=g.qual, construct="F5 erasable",
                           msg="the sensor-symbol check does not raise where the fault is found: the per-reading result is stored and can be "
                               "overwritten by a later (clean) reading of the same sensor before it is reported", line=g.line)
        for cellname, ig in inverted:
            if cellname in need_cells[ent]:
                ctx.oblige("VALID-MATRIX", ent, f"{cellname}: guard with inverted polarity", False, file=FILES[ig.mod], func=ig.qual,
                           construct=f"cell {cellname} inverted",
                           msg=f"the guard `{ig.text()[:80]}` at {FILES[ig.mod]}:{ig.line} raises exactly when the definition is fine as far as fault class "
                               f"{cellname} ({_explain(cellname)}) goes, and lets the faulty ones through", line=ig.line)
        row = {}
        for c in need_cells[ent]:
            g = cells.get(c)
            row[c] = f"{FILES[g.mod]}:{g.qual}:{g.line}" if g else None
            if g is not None:
                for why_, line_ in loop_cover(g):
                    ctx.oblige("LOOP-COVER", ent, f"{c}: the guard at {FILES[g.mod]}:{g.line} sees every element", False, file=FILES[g.mod], func=g.qual,
                               construct=f"cell {c} loop cover: {why_[:60]}",
                               msg=f"{ent}: fault class {c} ({_explain(c)}) is checked element by element at {FILES[g.mod]}:{g.line}, but {why_}: "
                                   f"a definition whose fault sits in an element that is not reached is accepted", line=line_)
                n_cover[0] += sum(1 for x in g.ctxs if x[0] == "for")
            tl = [tg for tc, tg in toothless if tc == c]
            if g is None and tl:
                ctx.oblige("VALID-MATRIX", ent, f"{c}: tested but not refused", False, file=FILES[tl[0].mod], func=tl[0].qual, construct=f"cell {c} toothless {ent}",
                           msg=f"{ent}: fault class {c} ({_explain(c)}) is tested at {FILES[tl[0].mod]}:{tl[0].line} (`{tl[0].text()[:70]}`) but nothing is raised there, "
                               f"and no other guard refuses it", line=tl[0].line)
                continue
            if g is None and c in weak:
                why, wg = weak[c]
                ctx.oblige("VALID-MATRIX", ent, f"{c}: only a weaker guard", False, file=FILES[wg.mod], func=wg.qual, construct=f"cell {c} weak {ent}",
                           msg=f"{ent}: fault class {c} ({_explain(c)}) is only met by a weaker guard at {FILES[wg.mod]}:{wg.line}: {why}", line=wg.line)
                continue
            if g is None:
                # a guard about this fault class exists but its form is outside the recognisers: that is an analysis limit, not a finding
                kw = {"F1": ("isdisjoint", "intersection", "&"), "F2": ("state_model",), "F3": ("calibration",), "F4a": ("process_noise",),
                      "F4b": ("process_noise",), "F4c": ("process_noise", "noise"), "F4d": ("isinstance",), "F5": ("free_symbols",),
                      "F6": ("sensor_noises",)}[c.split(":")[0]]
                near = []
                for ug, uf in unclassified:
                    if ug.qual == "assert_valid_covariance":
                        continue        # the covariance gate is classified as one unit at its call sites (F4c); its internals are C09's
                    e = expand(ug, uf)
                    tt = e.test
                    while isinstance(tt, ast.UnaryOp):
                        tt = tt.operand
                    if isinstance(tt, ast.Call) and isinstance(tt.func, ast.Name) and tt.func.id == "isinstance" and len(tt.args) == 2 \
                            and ast.unparse(tt.args[1]) in ("dict", "list", "set", "Config", "float", "int", "str", "(dict, list)"):
                        continue        # a container-type assertion says nothing about the fault classes
                    txt = ast.unparse(e.test) + " " + " ".join(ast.unparse(v) for k2, v in local_env(uf).items()
                                                                if any(isinstance(n, ast.Name) and n.id == k2 for n in ast.walk(ug.test)))
                    if any(k in txt for k in kw):
                        near.append(f"{FILES[ug.mod]}:{ug.qual}:{ug.line} `{ug.text()[:60]}`")
                if near:
                    ctx.error(f"{ent}: fault class {c} is not discharged by a recognised guard, but guard(s) about the same subject exist whose form "
                              f"is not enumerated: {near[:3]}")
                    continue
            ctx.oblige("VALID-MATRIX", ent, f"{c}: {row[c]}", g is not None, file=FILES[mod], func=name, construct=f"cell {c}",
                       msg=f"{ent} reaches no unconditional guard for fault class {c} ({_explain(c)}) before producing its output: "
                           f"such a definition is turned into a " + ("model / filter" if mod == "python" else "source file"))
        matrix[ent] = row
        if mod == "cpp":
            # ORDER: everything that validates precedes _compile_impl
            idx_out = None
            idx_val = []
            for idx, stmt in enumerate(fn.body):
                for c in ast.walk(stmt):
                    if isinstance(c, ast.Call):
                        nm = c.func.id if isinstance(c.func, ast.Name) else (c.func.attr if isinstance(c.func, ast.Attribute) else "")
                        if nm == "_compile_impl" and idx_out is None:
                            idx_out = idx
                        if nm in ("model_validation", "_generate_model_function_bodies", "_generate_ekf_function_bodies"):
                            idx_val.append(idx)
            ok = idx_out is not None and idx_val and max(idx_val) < idx_out
            if idx_out is not None and idx_val and max(idx_val) == idx_out:
                # same statement: the validating / constructing calls are arguments of the output call, hence evaluated before it
                outc = next(c for c in ast.walk(fn.body[idx_out]) if isinstance(c, ast.Call) and (c.func.id if isinstance(c.func, ast.Name) else
                                                                                                   getattr(c.func, "attr", "")) == "_compile_impl")
                inside = {id(x) for a_ in list(outc.args) + [k_.value for k_ in outc.keywords] for x in ast.walk(a_)}
                vals = [c for c in ast.walk(fn.body[idx_out]) if isinstance(c, ast.Call) and (c.func.id if isinstance(c.func, ast.Name) else getattr(c.func, "attr", ""))
                        in ("model_validation", "_generate_model_function_bodies", "_generate_ekf_function_bodies")]
                ok = all(id(c) in inside for c in vals)
            ctx.oblige("ORDER", ent, f"validation statements {idx_val} precede output statement {idx_out}", ok, file=FILES[mod], func=name,
                       construct="validation before output", msg=f"{ent}: the files are written before validation / construction has finished")
    ctx.floor("GUARDS", all_guards, 14, "raise-guards examined on the entry points' paths")
    ctx.floor("LOOP-COVER", n_cover[0], 4, "loops enclosing the guards that discharge a fault class")
    ctx.extra["validation_matrix"] = matrix
    # the file-writing function itself: generation of both texts precedes open(..., 'w')
    ci = graph.func("cpp", "_compile_impl")
    if ci is None:
        ctx.error("anchor missing: cpp._compile_impl")
    else:
        first_open = None
        gen_lines = []
        for n in ast.walk(ci):
            if isinstance(n, ast.Call) and isinstance(n.func, ast.Name) and n.func.id == "open":
                if any(isinstance(a, ast.Constant) and isinstance(a.value, str) and "w" in a.value for a in n.args[1:]):
                    first_open = min(first_open or n.lineno, n.lineno)
            if isinstance(n, ast.Call) and isinstance(n.func, ast.Name) and n.func.id in ("header_from_ast", "source_from_ast"):
                gen_lines.append(n.lineno)
        ok = first_open is not None and len(gen_lines) >= 2 and max(gen_lines) < first_open
        ctx.oblige("ORDER", "cpp._compile_impl", f"text generation (lines {gen_lines}) precedes open(..., 'w') (line {first_open})", ok,
                   file=FILES["cpp"], func="_compile_impl", construct="generate before open",
                   msg="_compile_impl opens the output files before both texts have been generated: an error during generation leaves a (partial) source file")
    no_coerce_rule(ctx, graph)
    accept_rule(ctx, graph)
    # F6:names (and every by-name binding the validation relies on) is discharged by the named-array constructors refusing unknown names:
    # their guard is part of this property (rules shared with C13)
    for _rid, _t in (("NV-NAMES", "named arrays accept exactly the str() names of their arglist"), ("NV-GUARD", "unknown names are refused before anything is stored"),
                     ("NV-STORE", "a given value is stored at its own name's slot"), ("NV-DEFAULT", "defaults"), ("NV-DATA", "_data path"), ("NV-SHAPE", "shape")):
        ctx.rule(_rid, _t)
    c13.check_named(ctx, graph.mods["common"], "named_vector", "vec")
    c13.check_named(ctx, graph.mods["common"], "named_covariance", "cov")
    c13.container_rule(ctx)
    return core.finish(ctx, explanation="validation matrix over the static call graph of the four compile entry points; guard recognisers by "
                                        "subject and relation", **META)


COERCERS = {"sympify", "parse_expr", "S", "eval", "exec", "_sympify", "sympify_expr"}


def no_coerce_rule(ctx: core.Ctx, graph: "Graph"):
    """NO-COERCE: the expressions the validator examined are the ones compiled.  model_validation looks at `.free_symbols` and skips what has
    none (plain numbers); a back-end that re-parses / coerces a model expression (sympify, parse_expr, S, eval) turns spellings the validator
    never examined -- strings -- into compiled expressions.  Text is parsed in the UI layer only (ui_model, before validation): that site is
    the positive example the recogniser must find on every run."""
    ctx.rule("NO-COERCE", "no back-end module parses / coerces a model expression after validation (sympify, parse_expr, S, eval): "
                          "what is compiled is what was validated")
    n_ui = 0
    for m, tree in graph.mods.items():
        imported = {}
        for n in ast.walk(tree):
            if isinstance(n, ast.ImportFrom):
                for a in n.names:
                    imported[a.asname or a.name] = a.name
        for fn in [f for f in ast.walk(tree) if isinstance(f, (ast.FunctionDef, ast.AsyncFunctionDef))]:
            for n in core.own_walk(fn):
                if not isinstance(n, ast.Call):
                    continue
                f = n.func
                nm = imported.get(f.id, f.id) if isinstance(f, ast.Name) else f.attr if isinstance(f, ast.Attribute) else None
                if nm not in COERCERS:
                    continue
                if isinstance(f, ast.Name) and f.id not in imported and f.id not in ("eval", "exec"):
                    continue
                if isinstance(f, ast.Attribute) and not (isinstance(f.value, ast.Name) and f.value.id in ("sympy", "sp", "sym", "parsing", "sympy_parser")):
                    continue
                if not n.args or isinstance(n.args[0], ast.Constant):
                    continue
                if m == "ui_model":
                    n_ui += 1
                    ctx.oblige("NO-COERCE", f"{FILES[m]}:{fn.name}", f"`{ast.unparse(n)[:60]}` in the UI layer, before validation", True, file=FILES[m], func=fn.name,
                               construct="coercion:" + nm, line=n.lineno)
                    continue
                ctx.oblige("NO-COERCE", f"{FILES[m]}:{fn.name}", f"`{ast.unparse(n)[:60]}`", False, file=FILES[m], func=fn.name, construct="coercion:" + nm + ":" + ast.unparse(n.args[0])[:40],
                           line=n.lineno, msg=f"{fn.name} coerces `{ast.unparse(n.args[0])[:60]}` with {nm}() after validation: a definition spelled in a way the validator "
                                              "skipped (a string) becomes a compiled expression without ever having been validated")
    ctx.floor("NO-COERCE", n_ui, 1, "text-parsing site in the UI layer (positive example)")


def _explain(c):
    return {"F1": "overlapping state / control / calibration sets", "F2": "update expressions do not cover the state exactly",
            "F3": "calibration values do not match the declared calibration symbols", "F4a": "process noise for something that is not a declared control",
            "F4b": "missing process noise", "F4c": "negative process noise", "F4d": "process-noise keys that are not single controls", "F5": "sensor model depends on controls / undeclared symbols",
            "F6": "sensor noise does not match the sensors and their readings"}[c.split(":")[0]]
