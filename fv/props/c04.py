"""C04 -- prediction step  x' = f(x,u),  P' = G P G^T + V M V^T.

Decided: (ARR-MM / ARR-EW) every matrix product and sum in process_model conforms on name-typed axes
(G : STATE' x STATE, V : STATE' x CONTROL, P : STATE x STATE, M : CONTROL x CONTROL); (COV-FORM) the
returned covariance normalises to G.P.G^T + V.M.V^T; (STATE-CALL) the returned state is the filter's own
state-model call on the same (dt, state, control) that fed G and V; (LAY-KEYMAT) the process-noise matrix
entry (i, j) is the user's noise for controls (i, j) by name; (PURE) the prediction path writes nothing
but fresh locals.  Not decided: the numeric values of G, V (C03 + sympy).
"""
import ast

from .. import core, effects, keymat, scenarios
from ..matform import MatForm
from ..values import *  # noqa

META = dict(level="other",
            trusted_base=["numpy.matmul / transpose / + implement matrix product, transpose, sum",
                          "sympy / lambdify (values of G, V, f)"],
            assumptions=["the covariance argument and the assembled process noise are symmetric (stated by the property)"])

PURE = [("ExtendedKalmanFilter", "process_model"), ("ExtendedKalmanFilter", "process_jacobian"),
        ("ExtendedKalmanFilter", "control_jacobian"), ("Model", "model"), ("BasicBlock", "execute")]


def origin_of(v):
    if isinstance(v, NInst):
        return v.origin
    if isinstance(v, SymV):
        return str(v.role)
    return repr(v)


def run(ctx: core.Ctx) -> int:
    ctx.rule("ARR-MM", "matmul(A, B): column layout of A == row layout of B (name-typed axes; next-state axes are primed)")
    ctx.rule("ARR-EW", "A + B / A - B: identical axis layouts (no implicit broadcast); '*' between matrices is not a matrix product")
    ctx.rule("COV-FORM", "returned covariance == G.P.G^T + V.M.V^T as a non-commutative polynomial (P, M symmetric)")
    ctx.rule("STATE-CALL", "returned state is Model.model(dt, state, control) with the same three arguments as the Jacobian calls")
    ctx.rule("LAY-KEYMAT", "process_noise[i, j] is the user's noise for the control pair (i, j), chosen by name")
    ctx.rule("LAY-SLOT", "noise matrix indices enumerate the sorted control list; from_data keeps the layout")
    ctx.rule("PURE", "the prediction path assigns no attribute, stores into no non-fresh container and calls no mutator")
    sc = scenarios.PyEKF(ctx, run=("process_model",))
    it = sc.it
    scenarios.transfer(it, ctx, rules={"ARR-MM", "ARR-EW", "LAY-SLOT"}, funcs=["ExtendedKalmanFilter.process_model",
                                                                                "ExtendedKalmanFilter._construct_process"])
    # G, V and f are inputs of the prediction: their argument layouts and un-flatten nests (shared with C01/C03)
    ctx.rule("LAY-CALL", "execute() actuals == the block's arglist (state model and both Jacobians)")
    ctx.rule("LAY-FLAT", "G, V are un-flattened with the row stride of the compiled Jacobians")
    ctx.rule("LAY-ZIP", "state-model results are zipped with the sorted state names")
    scenarios.transfer(it, ctx, rules={"LAY-CALL", "LAY-FLAT", "LAY-ZIP"},
                       funcs=["ExtendedKalmanFilter.process_jacobian", "ExtendedKalmanFilter.control_jacobian", "Model.model"])
    file = "py/formak/python.py"
    qual = "ExtendedKalmanFilter.process_model"
    G, V = MatForm.atom("G"), MatForm.atom("V")
    P, M = MatForm.atom("P", True), MatForm.atom("M", True)
    want = G * P * G.T() + V * M * V.T()
    n_form = n_state = 0
    for r in sc.alts(sc.results["process_model"]):
        if not (isinstance(r, TupleV) and len(r.items) == 2):
            ctx.error(f"{qual}: return value is not a (state, covariance) pair: {r!r}")
            continue
        st, cov = r.items
        form = cov.arr.form if isinstance(cov, NInst) and cov.arr is not None else None
        if form is None:
            ctx.error(f"{qual}: the returned covariance has no derivable matrix normal form ({cov!r})")
        else:
            n_form += 1
            ctx.oblige("COV-FORM", f"{file}:{qual}", f"returned covariance = {form!r}; required {want!r}", form == want,
                       file=file, func=qual, construct="returned covariance",
                       msg=f"returned covariance normalises to  {form!r}  -- the property requires  {want!r}")
        # state
        ok = isinstance(st, NInst) and st.origin == "f(dt,x,u)"
        n_state += 1
        ctx.oblige("STATE-CALL", f"{file}:{qual}", f"returned state provenance {origin_of(st)}", ok, file=file, func=qual,
                   construct="returned state", msg=f"returned state is {origin_of(st)}, not the result of the filter's state model")
    # same arguments to Model.model / process_jacobian / control_jacobian
    calls = {c["callee"]: c for c in it.calls if c["callee"] in
             ("Model.model", "ExtendedKalmanFilter.process_jacobian", "ExtendedKalmanFilter.control_jacobian")
             and ("process_model" in c.get("where", "") or any(f_.endswith(".process_model") for f_ in c.get("stack", ())))}
    expect = {"dt": "DT", "state": "x", "control": "u"}
    for callee in ("Model.model", "ExtendedKalmanFilter.process_jacobian", "ExtendedKalmanFilter.control_jacobian"):
        c = calls.get(callee)
        if c is None:
            ctx.error(f"{qual}: no call of {callee} found on the prediction path")
            continue
        got = {k: origin_of(c["args"].get(k)) for k in expect}
        ctx.oblige("STATE-CALL", c["where"], f"{callee}{got}", got == expect, file=file, func=qual,
                   construct=f"arguments of {callee}",
                   msg=f"{callee} is called with {got}; the prediction must use (dt, state, control) = {expect}")
    # noise assembly
    mod = it.p.modules["python"]
    cls = core.need(core.find_class(mod, "ExtendedKalmanFilter"), "python.ExtendedKalmanFilter")
    fn = core.need(core.find_func(cls, "_construct_process"), "ExtendedKalmanFilter._construct_process")
    keymat.check_function(ctx, file, "ExtendedKalmanFilter._construct_process", fn, "process_noise", mod=mod, cls=cls)
    pn = sc.ekf.attrs.get("process_noise")
    C = Layout((("SORT", "CONTROL", "name"),))
    ok = isinstance(pn, ArrV) and pn.rows == C and pn.cols == C
    ctx.oblige("LAY-SLOT", f"{file}:ExtendedKalmanFilter._construct_process", f"self.process_noise : {pn!r}", ok, file=file,
               func="ExtendedKalmanFilter._construct_process", construct="self.process_noise",
               msg=f"self.process_noise is {pn!r}; expected Arr({C} x {C})")
    # purity
    n_pure = 0
    for cname, mname in PURE:
        c = core.find_class(mod, cname)
        f = core.find_func(c, mname) if c else None
        if f is None:
            ctx.error(f"anchor missing: python.{cname}.{mname}")
            continue
        n_pure += 1
        ctx.functions.append(f"python.{cname}.{mname}")
        ws = effects.writes(f)
        ctx.oblige("PURE", f"{file}:{cname}.{mname}", f"{len(ws)} write effect(s)", not ws, file=file, func=f"{cname}.{mname}",
                   construct="writes:" + ";".join(sorted(w.kind + " " + w.target for w in ws)),
                   msg="prediction path is not side-effect free: " + "; ".join(f"{w.kind} {w.target} (line {w.line})" for w in ws),
                   line=ws[0].line if ws else None)
    # module-level helpers the prediction path calls (assert_valid_covariance, force_to_ndarray, ...): same effect rule, so that a helper
    # told to work in place (overwrite_a=True, out=<argument>) on the caller's array is a write on the prediction path
    import ast as _ast
    seen_h, todo_h = set(), []
    for cname, mname in PURE:
        c = core.find_class(mod, cname)
        f = core.find_func(c, mname) if c else None
        if f is not None:
            todo_h.append(f)
    n_help = 0
    while todo_h:
        f = todo_h.pop()
        for n in _ast.walk(f):
            if isinstance(n, _ast.Call) and isinstance(n.func, _ast.Name) and n.func.id not in seen_h:
                h, hfile = core.find_func_imported(ctx, mod, n.func.id)
                if h is None:
                    continue
                hfile = hfile or file
                seen_h.add(n.func.id)
                todo_h.append(h)
                n_help += 1
                ctx.functions.append(f"python.{h.name}")
                ws = effects.writes(h)
                ctx.oblige("PURE", f"{hfile}:{h.name}", f"{len(ws)} write effect(s)", not ws, file=hfile, func=h.name,
                           construct="writes:" + ";".join(sorted(w.kind + " " + w.target for w in ws)),
                           msg="helper on the prediction path is not side-effect free: " + "; ".join(f"{w.kind} {w.target} (line {w.line})" for w in ws),
                           line=ws[0].line if ws else None)
    ctx.note(f"PURE: {n_help} module-level helper(s) on the prediction path analysed")
    _pos = _ast.parse("def f(c, b):\n    w = eigvalsh(c, overwrite_a=True)\n    np.abs(b, out=b)\n    return w").body[0]
    if len(effects.writes(_pos)) != 2:
        ctx.error("PURE: built-in positive example (overwrite_a=True / out=<argument>) not recognised")
    ctx.floor("ARR-MM", scenarios.count(it, "ARR-MM", "process_model"), 2, "matrix products in process_model")
    ctx.floor("ARR-EW", scenarios.count(it, "ARR-EW", "process_model"), 1, "sums in process_model")
    ctx.floor("COV-FORM", n_form, 1, "returned covariance forms")
    ctx.floor("STATE-CALL", n_state, 1, "returned states")
    ctx.floor("PURE", n_pure, 5, "methods on the prediction path")
    # the values of the compiled blocks go through python.BasicBlock: its temporaries protocol and trusted sympy signatures (shared with C01/C08)
    from .. import tmprules as _tmp
    for _rid, _t in (("TMP-1", "python prefix/body lambdify protocol"), ("TMP-2", "python execute protocol"), ("TMP-4", "CSE flag gates only cse()/simplify()"),
                     ("TRUST-SIG", "trusted sympy call signatures")):
        ctx.rule(_rid, _t)
    _tmp.check_python_block(ctx, it.p.modules["python"])
    # what is compiled is the user's expression / its exact derivative: no sympy rewriting outside the CSE gate (shared with C01)
    from . import c01 as _c01nr
    _c01nr.py_no_rewrite(ctx, mod, "py/formak/python.py")
    arg_pass(ctx, mod, cls, file)
    from . import c13 as _c13nv
    _c13nv.named_arrays(ctx, ("vec", "cov"))
    # no module-level / class-level mutable state shared between filters: one filter's construction or update must not reach another's (shared with C01)
    from . import c15 as _c15pp
    ctx.rule("PY-PURE", "no module-level / class-level mutable state shared between filters (shared with C01)")
    _c15pp.gen_pure(ctx, {"python": "py/formak/python.py", "common": "py/formak/common.py"}, rule="PY-PURE", floor=40)
    return core.finish(ctx, explanation="E2 axis typing + E3 normal form of process_model's result, name-keyed noise table, "
                                        "effect analysis of the prediction path", **META)


def arg_pass(ctx, mod, cls, file):
    # ARG-PASS: the entry point hands what it was given to the filter's constructor as is.  The noise, the models and the symbolic model that
    # compile_ekf receives are the ones the filter is built from -- a "sanitised" / rounded / re-keyed copy (e.g. nearest_positive_definite(
    # process_noise), which floors small entries) makes the filter's M something other than the noise the user supplied by name.
    ctx.rule("ARG-PASS", "python.compile_ekf passes its symbolic model, noises and sensor models to ExtendedKalmanFilter unchanged")
    ce = core.find_func(mod, "compile_ekf")
    ekf_init = core.find_func(cls, "__init__")
    npass = 0
    if ce is None or ekf_init is None:
        ctx.error("anchor missing: python.compile_ekf / ExtendedKalmanFilter.__init__")
    else:
        calls = [c_ for c_ in ast.walk(ce) if isinstance(c_, ast.Call) and ast.unparse(c_.func) == "ExtendedKalmanFilter"]
        if len(calls) != 1:
            ctx.error(f"python.compile_ekf constructs ExtendedKalmanFilter {len(calls)} time(s)")
        else:
            bound = core.bind_call(calls[0], ekf_init, skip_first=True)
            if bound is None:
                ctx.error("python.compile_ekf: the constructor call cannot be bound to ExtendedKalmanFilter.__init__")
            else:
                ce_params = {a.arg for a in ce.args.posonlyargs + ce.args.args + ce.args.kwonlyargs}
                rebinds = {t_.id for a_ in ast.walk(ce) if isinstance(a_, (ast.Assign, ast.AugAssign, ast.AnnAssign))
                           for t_ in ast.walk(a_.targets[0] if isinstance(a_, ast.Assign) else a_.target) if isinstance(t_, ast.Name)}
                for pname, want in (("state_model", "symbolic_model"), ("process_noise", "process_noise"), ("sensor_models", "sensor_models"),
                                    ("sensor_noises", "sensor_noises")):
                    got = bound.get(pname)
                    txt = ast.unparse(got) if got is not None else None
                    okp = isinstance(got, ast.Name) and got.id == want and want in ce_params and want not in rebinds
                    npass += 1
                    ctx.oblige("ARG-PASS", f"{file}:compile_ekf", f"{pname} = {txt}", okp, file=file, func="compile_ekf", construct=f"constructor argument {pname}",
                               msg=f"compile_ekf builds the filter with {pname}={txt}, not with the `{want}` it was given: the filter's "
                                   f"{'noise matrix' if 'noise' in pname else 'model'} is no longer what the caller supplied by name",
                               line=calls[0].lineno)
    ctx.floor("ARG-PASS", npass, 4, "constructor arguments of the filter in python.compile_ekf")
