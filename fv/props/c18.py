"""C18 -- the design workflow follows its declared transitions and selects from the grid.

Decided:
  GRAPH      nodes = StateMachineState subclasses with distinct state_id() constants covering StateId; edges = for each name in
             available_transitions(), the method of that name and its return annotation (a class defined earlier, annotations not
             postponed); the extracted graph is the chain Start -> Symbolic_Model -> Fit_Model; listed names are methods, transition
             methods are listed
  CONSTRUCT  a state class is constructed only inside the transition method of its predecessor whose annotation names it, with
             history=self.history(); every state passes a *fresh* list history + [own id] (start: [own id]) to the base constructor, which
             stores it without mutating; nothing appends to a history list (no aliasing between predecessor and successor)
  SEARCH     non-StateId target -> raise first; FIFO frontier (pop front, append back); every appended entry extends the popped entry's
             path by the transition just looked up; goal test on the popped entry; exhaustion -> raise.  Shortest: BFS + FIFO
  FIT        n_samples < MIN_SAMPLES -> raise dominates the split and the grid search; param_grid is the constructor's parameter_space
             (defaults only for absent / empty keys); fit_estimator = best_estimator_; export_python delegates to it, which passes
             config=self.config; ConfigView lets given parameters override defaults; set_params applies every key (C17's SET-PARAMS)
Not decided: what GridSearchCV selects.
"""
import ast

from .. import astpat, core, normast
from . import c17

META = dict(level="other", trusted_base=["inspect.signature(...).return_annotation returns the annotated class", "sklearn GridSearchCV only sets parameters from param_grid"],
            assumptions=[])
F = "py/formak/ui_state_machine.py"


def run(ctx: core.Ctx) -> int:
    for rid, t in (("GRAPH", "declared transition graph is the chain Start -> Symbolic_Model -> Fit_Model"), ("CONSTRUCT", "states built only by their predecessor's transition; fresh history lists"),
                   ("SEARCH", "BFS with FIFO frontier, path extension, goal test, raises"), ("FIT", "min-samples guard, grid dataflow, export delegation, ConfigView precedence"),
                   ("SET-PARAMS", "see C17")):
        ctx.rule(rid, t)
    mod = ctx.parse(F)
    postponed = any(isinstance(s, ast.ImportFrom) and s.module == "__future__" and any(a.name == "annotations" for a in s.names) for s in mod.body)
    ctx.oblige("GRAPH", F, "annotations are not postponed", not postponed, file=F, func="<module>", construct="postponed annotations",
               msg="`from __future__ import annotations` makes return annotations strings: search() would follow names, not classes")
    enum = core.need(core.find_class(mod, "StateId"), "StateId")
    members = [ast.unparse(s.targets[0]) for s in enum.body if isinstance(s, ast.Assign)]
    classes = {c.name: c for c in mod.body if isinstance(c, ast.ClassDef)}
    order = [c.name for c in mod.body if isinstance(c, ast.ClassDef)]
    states = {n: c for n, c in classes.items() if any(ast.unparse(b) == "StateMachineState" for b in c.bases)}
    ids, edges = {}, {}
    for n, c in states.items():
        ctx.functions.append(f"ui_state_machine.{n}")
        sid = core.find_func(c, "state_id")
        rid = next((ast.unparse(r.value) for r in ast.walk(sid) if isinstance(r, ast.Return)), None) if sid else None
        ids[n] = rid
        av = core.find_func(c, "available_transitions")
        lst = next((r.value for r in ast.walk(av) if isinstance(r, ast.Return)), None) if av else None
        names = [e.value for e in lst.elts] if isinstance(lst, (ast.List, ast.Tuple)) and all(isinstance(e, ast.Constant) for e in lst.elts) else None
        ctx.oblige("GRAPH", f"{F}:{n}", f"available_transitions = {names}", names is not None, file=F, func=f"{n}.available_transitions", construct="transition list",
                   msg=f"{n}.available_transitions() is not a literal list of names")
        edges[n] = []
        for t in names or []:
            m = core.find_func(c, t)
            ann = ast.unparse(m.returns) if m is not None and m.returns is not None else None
            ok = m is not None and ann in states and order.index(ann) < order.index(n)
            ctx.oblige("GRAPH", f"{F}:{n}.{t}", f"{n}.{t} -> {ann}", ok, file=F, func=f"{n}.{t}", construct=f"transition {t}",
                       msg=f"transition `{t}` listed by {n} " + ("is not a method" if m is None else f"is annotated `{ann}`, not a state class defined before {n}"))
            if ok:
                edges[n].append((t, ann))
        # transition methods are listed: a method returning a state class must be listed
        for m in c.body:
            if isinstance(m, ast.FunctionDef) and m.returns is not None and ast.unparse(m.returns) in states and m.name not in (names or []):
                ctx.oblige("GRAPH", f"{F}:{n}.{m.name}", "transition method is listed", False, file=F, func=f"{n}.{m.name}", construct=f"unlisted {m.name}",
                           msg=f"{n}.{m.name} returns state {ast.unparse(m.returns)} but is not in available_transitions()")
    want_ids = {f"StateId.{m}" for m in members}
    ctx.oblige("GRAPH", F, f"state ids {ids}", set(ids.values()) == want_ids and len(set(ids.values())) == len(ids), file=F, func="<module>", construct="state ids",
               msg=f"state_id() values {ids} are not distinct / do not cover StateId {sorted(want_ids)}")
    by_id = {v: k for k, v in ids.items()}
    chain = []
    cur = by_id.get("StateId.Start")
    seen = set()
    while cur and cur not in seen:
        seen.add(cur)
        chain.append(ids[cur])
        nxt = edges.get(cur, [])
        if len(nxt) != 1:
            break
        cur = nxt[0][1]
    okchain = chain == ["StateId.Start", "StateId.Symbolic_Model", "StateId.Fit_Model"] and all(len(edges[n]) <= 1 for n in edges) \
        and sum(len(v) for v in edges.values()) == 2
    ctx.oblige("GRAPH", F, f"declared graph {[(n, e) for n, e in edges.items()]}", okchain, file=F, func="<module>", construct="chain",
               msg=f"the declared transitions form {chain} / {edges}, not the chain Start -> Symbolic_Model -> Fit_Model")
    ctx.floor("GRAPH", len(states), 3, "state classes")
    # ---- CONSTRUCT
    base = core.need(classes.get("StateMachineState"), "StateMachineState")
    binit = core.need(core.find_func(base, "__init__"), "StateMachineState.__init__")
    stores = {ast.unparse(s.targets[0]): ast.unparse(s.value) for s in binit.body if isinstance(s, ast.Assign)}
    okb = stores.get("self._history") == "history"
    muts = [ast.unparse(c)[:60] for c in ast.walk(mod) if isinstance(c, ast.Call) and isinstance(c.func, ast.Attribute)
            and c.func.attr in ("append", "extend", "insert", "pop", "clear") and "history" in ast.unparse(c.func.value).lower()]
    aug = [ast.unparse(s)[:60] for s in ast.walk(mod) if isinstance(s, ast.AugAssign) and "history" in ast.unparse(s.target).lower()]
    ctx.oblige("CONSTRUCT", f"{F}:StateMachineState.__init__", "base stores the given history list; nothing mutates a history list", okb and not muts and not aug,
               file=F, func="StateMachineState.__init__", construct="history storage",
               msg="history lists are mutated in place / not stored as given (" + "; ".join(muts + aug) + "): predecessor and successor states then share one list")
    hist = core.find_func(base, "history")
    okh = hist is not None and any(isinstance(r, ast.Return) and ast.unparse(r.value) == "self._history" for r in ast.walk(hist))
    ctx.oblige("CONSTRUCT", f"{F}:StateMachineState.history", "history() returns the stored list", okh, file=F, func="StateMachineState.history", construct="history()",
               msg="history() does not return the recorded list")
    for n, c in states.items():
        init = core.find_func(c, "__init__")
        sup = next((x for x in ast.walk(init) if isinstance(x, ast.Call) and ast.unparse(x.func) == "super().__init__"), None) if init else None
        hv = next((ast.unparse(k.value).replace(" ", "") for k in sup.keywords if k.arg == "history"), None) if sup is not None else None
        want = "[self.state_id()]" if ids[n] == "StateId.Start" else "history+[self.state_id()]"
        ctx.oblige("CONSTRUCT", f"{F}:{n}.__init__", f"super().__init__(history={hv})", hv == want, file=F, func=f"{n}.__init__", construct="history extension",
                   msg=f"{n} records its history as `{hv}`; required the fresh list `{want}` (own id appended exactly once, no aliasing)")
    # who may construct
    for call in [c for c in ast.walk(mod) if isinstance(c, ast.Call) and isinstance(c.func, ast.Name) and c.func.id in states]:
        owner = None
        for n, c in states.items():
            for m in c.body:
                if isinstance(m, ast.FunctionDef) and call in list(ast.walk(m)):
                    owner = (n, m)
        ok = owner is not None and owner[1].returns is not None and ast.unparse(owner[1].returns) == call.func.id and (owner[1].name, call.func.id) in edges.get(owner[0], [])
        hk = next((ast.unparse(k.value).replace(" ", "") for k in call.keywords if k.arg == "history"), None)
        ctx.oblige("CONSTRUCT", f"{F}:{owner[0] + '.' + owner[1].name if owner else '?'}", f"{call.func.id}(history={hk})", ok and hk == "self.history()", file=F,
                   func=f"{owner[0]}.{owner[1].name}" if owner else "<module>", construct=f"construct {call.func.id}",
                   msg=f"{call.func.id} is constructed " + ("outside a declared transition of its predecessor" if not ok else f"with history={hk}, not the predecessor's history"),
                   line=call.lineno)
    # ---- SEARCH
    search = core.need(core.find_func(base, "search"), "StateMachineState.search")
    where = f"{F}:StateMachineState.search"
    # helper generators fused, namedtuple entries unpacked, annotated assignments plain: the rules read the search, not its packaging
    _nzs = normast.Normaliser(normast.class_resolver(mod, base), consts=normast.module_constants(mod), namedtuples=normast.module_namedtuples(mod))
    search = normast.inline_only(search, normast.class_resolver(mod, base))
    search.body = normast.plain_annassign(search.body)
    search = _nzs.alias(search)
    search.body = normast.split_assign(_nzs.nt_unpack(search.body))
    search = _nzs.alias(search)
    ast.fix_missing_locations(search)
    b = search.body
    first = next((s for s in b if not (isinstance(s, ast.Expr) and isinstance(s.value, ast.Constant))), None)
    ok1 = isinstance(first, ast.If) and ast.unparse(first.test).replace(" ", "") == "notisinstance(end_state,StateId)" and any(isinstance(x, ast.Raise) for x in first.body)
    ctx.oblige("SEARCH", where, "non-StateId -> raise (first statement)", ok1, file=F, func="StateMachineState.search", construct="type guard",
               msg="search does not refuse a target that is not a StateId before searching")
    from .. import normstmt as _ns
    _al = _ns.Aliases(search, linear_calls=True)
    U = lambda e: ast.unparse(e).replace(" ", "")
    # the frontier is whatever variable is initialised with the single entry (self, []) -- a list or a deque
    fr = None
    is_deque = False
    for s_ in b:
        if isinstance(s_, ast.Assign) and len(s_.targets) == 1 and isinstance(s_.targets[0], ast.Name):
            v = s_.value
            dq = False
            while isinstance(v, ast.Call) and U(v.func) in ("deque", "collections.deque", "list") and len(v.args) == 1 and not v.keywords:
                dq = dq or U(v.func).endswith("deque")
                v = v.args[0]
            if isinstance(v, (ast.List, ast.Tuple)) and len(v.elts) == 1 and _al.text(v.elts[0]) in ("SearchState(self,[])", "SearchState(state=self,transitions=[])"):
                fr, is_deque = s_.targets[0].id, dq
    ctx.oblige("SEARCH", where, f"search starts from (self, []) in `{fr}`", fr is not None, file=F, func="StateMachineState.search", construct="initial frontier",
               msg="the search does not start from this state with an empty path")
    loop = next((s_ for s_ in b if isinstance(s_, (ast.For, ast.While))), None)
    if fr is None or loop is None:
        if loop is None:
            ctx.error(f"{where}: no search loop found")
    else:
        body = loop.body
        txt = [U(s_) for s_ in body]
        whole = "".join(txt)
        okq = any((t.startswith(f"iflen({fr})<=0:") or t.startswith(f"ifnot{fr}:") or t.startswith(f"iflen({fr})==0:")) and "break" in t for t in txt) \
            or (isinstance(loop, ast.While) and U(loop.test) in (fr, f"len({fr})>0", f"len({fr})!=0"))
        # the pop: `cur, path = F[0]` + (`F = F[1:]` | `del F[0]`), `F.pop(0)`, `F.popleft()`
        cur = path = None
        front = False
        for k_, s_ in enumerate(body):
            if isinstance(s_, ast.Assign) and len(s_.targets) == 1 and isinstance(s_.targets[0], ast.Tuple) and len(s_.targets[0].elts) == 2 \
                    and all(isinstance(e_, ast.Name) for e_ in s_.targets[0].elts):
                v = U(s_.value)
                if v in (f"{fr}.pop(0)", f"{fr}.popleft()"):
                    front = v.endswith("popleft()") if is_deque else v.endswith("pop(0)")
                    cur, path = (e_.id for e_ in s_.targets[0].elts)
                elif v == f"{fr}[0]" and not is_deque:
                    rest = [U(x) for x in body[k_ + 1:k_ + 3]]
                    front = f"{fr}={fr}[1:]" in rest or f"del{fr}[0]" in rest
                    cur, path = (e_.id for e_ in s_.targets[0].elts)
        lifo = f"={fr}.pop()" in whole or f"={fr}[-1]" in whole or f"{fr}.insert(0" in whole or f"{fr}.appendleft(" in whole
        if not front and not lifo:
            ctx.error(f"{where}: how the frontier `{fr}` is popped is not an enumerated idiom")
        goal = cur is not None and any(t.startswith(f"if{cur}.state_id()==end_state:") and f"return{path}" in t for t in txt)
        ctx.oblige("SEARCH", where, "FIFO pop from the front; goal test on the popped entry", okq and front and not lifo and goal, file=F,
                   func="StateMachineState.search", construct="frontier discipline",
                   msg="the frontier is not processed first-in first-out with the goal test on the popped entry (paths may not be shortest / may be wrong)")
        inner = next((s_ for s_ in body if isinstance(s_, ast.For)), None)
        ext = False
        if inner is not None and cur is not None:
            it_ok = U(inner.iter) == f"{cur}.available_transitions()" and isinstance(inner.target, ast.Name)
            tn = inner.target.id if isinstance(inner.target, ast.Name) else "?"
            apps = [c for st in inner.body for c in ast.walk(st) if isinstance(c, ast.Call) and U(c.func) == f"{fr}.append"]
            want = f"{fr}.append(SearchState(inspect.signature(getattr({cur},{tn})).return_annotation,{path}+[{tn}]))"
            _sra, SR = astpat.resolver(search, keep={fr, cur, path, tn})
            ext = it_ok and len(apps) == 1 and (_al.text(apps[0]) == want or SR(apps[0]) == want)
        ctx.oblige("SEARCH", where, "each listed transition appends (its annotated target, popped path + [name]) at the back", ext, file=F, func="StateMachineState.search",
                   construct="path extension", msg="frontier entries do not extend the popped entry's path by the transition just looked up")
        after = b[b.index(loop) + 1:] if loop in b else []
        okx = any(isinstance(s_, ast.Raise) and "ValueError" in ast.unparse(s_) for s_ in after)
        ctx.oblige("SEARCH", where, "exhaustion -> raise ValueError", okx, file=F, func="StateMachineState.search", construct="exhaustion raise",
                   msg="an unreachable target does not end in a raise")
    # ---- FIT
    fm = core.need(classes.get("FitModelState"), "FitModelState")
    impl = core.need(core.find_func(fm, "_fit_model_impl"), "FitModelState._fit_model_impl")
    where = f"{F}:FitModelState._fit_model_impl"
    # staged private helpers and module constants are folded in: the rules below read the workflow, not how it is cut into methods
    _nz = normast.Normaliser(normast.class_resolver(mod, fm), consts=normast.module_constants(mod))
    impl = _nz.function(impl)
    for h_ in _nz.inlined:
        ctx.functions.append(f"ui_state_machine.FitModelState.{h_} (inlined into _fit_model_impl)")
    ib = impl.body
    RA, R = astpat.resolver(impl)

    def lt_form(t):
        """test -> (A, B, k) meaning A < B + k, or None"""
        if isinstance(t, ast.UnaryOp) and isinstance(t.op, ast.Not) and isinstance(t.operand, ast.Compare) and len(t.operand.ops) == 1:
            c = t.operand
            l, r = c.left, c.comparators[0]
            return {ast.GtE: (l, r, 0), ast.Gt: (l, r, 1), ast.LtE: (r, l, 0), ast.Lt: (r, l, 1)}.get(type(c.ops[0]))
        if isinstance(t, ast.Compare) and len(t.ops) == 1:
            l, r = t.left, t.comparators[0]
            return {ast.Lt: (l, r, 0), ast.LtE: (l, r, 1), ast.Gt: (r, l, 0), ast.GtE: (r, l, 1)}.get(type(t.ops[0]))
        return None

    def is_use(c):
        if not isinstance(c, ast.Call):
            return False
        if R(c.func) in ("train_test_split", "GridSearchCV", "TimeSeriesSplit"):
            return True
        return isinstance(c.func, ast.Attribute) and c.func.attr == "fit" and R(c.func.value).startswith("GridSearchCV(")
    first_use = next((i for i, s in enumerate(ib) if any(is_use(c) for c in ast.walk(s))), None)
    if first_use is None:
        ctx.error(f"{where}: no train_test_split / GridSearchCV / grid-search fit call found")
    raises = [(i, s) for i, s in enumerate(ib[:first_use or 0]) if isinstance(s, ast.If) and any(isinstance(x, ast.Raise) and "ModelFitError" in ast.unparse(x) for x in s.body)]
    okg, seen = False, []
    for i, s in raises:
        lf = lt_form(s.test)
        if lf is None:
            ctx.error(f"{where}: the refusal `if {ast.unparse(s.test)}: raise ModelFitError` is not a recognised size comparison")
            continue
        A, B, k = lf
        try:
            bound = ast.literal_eval(RA(B)) + k
        except Exception:
            ctx.error(f"{where}: the minimum sample count `{ast.unparse(B)}` is not a constant")
            continue
        seen.append(f"{R(A)} < {bound}")
        if R(A) in ("len(self.data)",) and isinstance(bound, int) and bound >= 2:
            okg = True
    ctx.oblige("FIT", where, f"refusals before the split / grid search: {seen}", bool(okg), file=F, func="FitModelState._fit_model_impl",
               construct="min samples guard", msg="data sets too small to split are not refused before train_test_split / GridSearchCV")
    gs = next((c for c in ast.walk(impl) if isinstance(c, ast.Call) and R(c.func) == "GridSearchCV"), None)
    kws = {k.arg: R(k.value) for k in gs.keywords} if gs is not None else {}
    ctx.oblige("FIT", where, f"GridSearchCV(param_grid={kws.get('param_grid')}, estimator={(kws.get('estimator') or '')[:50]})", kws.get("param_grid") == "self.parameter_space"
               and (kws.get("estimator") or "").startswith("python.SklearnEKFAdapter.Create("), file=F, func="FitModelState._fit_model_impl", construct="grid dataflow",
               msg=f"the grid search runs over {kws.get('param_grid')} with estimator {(kws.get('estimator') or '')[:60]}, not the parameter space supplied to fit_model "
                   f"over the SklearnEKFAdapter")
    okbest = gs is not None and any(isinstance(s, ast.Assign) and ast.unparse(s.targets[0]) == "self.fit_estimator" and R(s.value) == R(gs) + ".best_estimator_" for s in ib)
    ctx.oblige("FIT", where, "fit_estimator = <the grid search>.best_estimator_", okbest, file=F, func="FitModelState._fit_model_impl", construct="best estimator",
               msg="the fitted estimator is not the grid search's best estimator")
    ex = core.find_func(fm, "export_python")
    okex = ex is not None and any(isinstance(r, ast.Return) and ast.unparse(r.value) == "self.fit_estimator.export_python()" for r in ast.walk(ex))
    ctx.oblige("FIT", f"{F}:FitModelState.export_python", "export_python delegates to the fitted estimator", okex, file=F, func="FitModelState.export_python",
               construct="export delegation", msg="export_python does not export the fitted estimator")
    finit = normast.Normaliser(normast.class_resolver(mod, fm, exclude={"_fit_model_impl"}), consts=normast.module_constants(mod)).function(
        core.need(core.find_func(fm, "__init__"), "FitModelState.__init__"))
    # GET-FALSY: for the grid dict `not PS.get(k)` is `k not in PS or not PS[k]` (a missing key reads as None)
    class _GetFalsy(ast.NodeTransformer):
        def visit_UnaryOp(self, n):
            self.generic_visit(n)
            c = n.operand
            if isinstance(n.op, ast.Not) and isinstance(c, ast.Call) and isinstance(c.func, ast.Attribute) and c.func.attr == "get" and len(c.args) == 1 and not c.keywords \
                    and ast.unparse(c.func.value) in ("self.parameter_space", "parameter_space"):
                import copy as _cp
                return ast.copy_location(ast.BoolOp(ast.Or(), [ast.Compare(_cp.deepcopy(c.args[0]), [ast.NotIn()], [_cp.deepcopy(c.func.value)]),
                                                               ast.UnaryOp(ast.Not(), ast.Subscript(_cp.deepcopy(c.func.value), _cp.deepcopy(c.args[0]), ast.Load()))]), n)
            return n
    finit = ast.fix_missing_locations(_GetFalsy().visit(finit))
    _fa, FR = astpat.resolver(finit)
    hits = [h_ for h_ in astpat.find("""
for _K_, _D_ in __E__.items():
    if _K_ not in __PS__ or not __PS__[_K_]:
        __PS__[_K_] = [_D_]
""", finit) if ast.unparse(h_[0]["__PS__"]) in ("self.parameter_space", "parameter_space")]
    # ... or over a sequence of required keys with a fresh default each
    hits += [h_ for h_ in astpat.find("""
for _K_ in __E__:
    if _K_ not in __PS__ or not __PS__[_K_]:
        __PS__[_K_] = [__D__]
""", finit) if ast.unparse(h_[0]["__PS__"]) in ("self.parameter_space", "parameter_space")
        and not any(isinstance(x_, ast.Name) and x_.id in ("parameter_space",) or isinstance(x_, ast.Attribute) and x_.attr == "parameter_space" for x_ in ast.walk(h_[0]["__D__"]))]
    # the grid object is `parameter_space` (the argument) alias `self.parameter_space`: writes through either name count
    names_ps = ("self.parameter_space", "parameter_space")
    stores = [n_ for n_ in ast.walk(finit) if isinstance(n_, ast.Subscript) and isinstance(n_.ctx, (ast.Store, ast.Del)) and ast.unparse(n_.value) in names_ps]
    muts = [c_ for c_ in ast.walk(finit) if isinstance(c_, ast.Call) and isinstance(c_.func, ast.Attribute) and ast.unparse(c_.func.value) in names_ps
            and c_.func.attr in ("update", "pop", "clear", "setdefault", "popitem")]
    okd = len(hits) == 1 and len(stores) == 1 and not muts
    ps = [ast.unparse(s.value) for s in ast.walk(finit) if isinstance(s, ast.Assign) and any(ast.unparse(t_) == "self.parameter_space" for t_ in s.targets)]
    ctx.oblige("FIT", f"{F}:FitModelState.__init__", f"parameter_space stored as given ({ps}); defaults only for absent / empty keys ({len(hits)} default loop, "
               f"{len(stores)} item store(s), {len(muts)} mutating call(s))", okd and ps == ["parameter_space"], file=F, func="FitModelState.__init__",
               construct="grid defaults", msg="the supplied grid is altered beyond adding defaults for absent / empty required keys")
    # ConfigView precedence
    cv = core.need(classes.get("ConfigView"), "ConfigView")
    cvi = normast.Normaliser().function(core.need(core.find_func(cv, "__init__"), "ConfigView.__init__"))
    _ca, CR = astpat.resolver(cvi)
    pname = [a_.arg for a_ in cvi.args.args][1] if len(cvi.args.args) > 1 else None
    given = [ast.unparse(s.value) for s in ast.walk(cvi) if isinstance(s, ast.Assign) and any(ast.unparse(t_) == "self._params" for t_ in s.targets)]
    names_p = ("self._params", pname)
    hits = [h_ for h_ in astpat.find("""
for _K_, _V_ in dataclasses.asdict(__D__).items():
    if _K_ not in __P__:
        __P__[_K_] = _V_
""", cvi) if ast.unparse(h_[0]["__P__"]) in names_p]
    cstores = [n_ for n_ in ast.walk(cvi) if isinstance(n_, ast.Subscript) and isinstance(n_.ctx, (ast.Store, ast.Del)) and ast.unparse(n_.value) in names_p]
    cmuts = [c_ for c_ in ast.walk(cvi) if isinstance(c_, ast.Call) and isinstance(c_.func, ast.Attribute) and ast.unparse(c_.func.value) in names_p
             and c_.func.attr in ("update", "pop", "clear", "setdefault", "popitem")]
    okcv = given == [pname] and len(hits) == 1 and CR(hits[0][0]["__D__"]) == "python.Config()" and len(cstores) == 1 and not cmuts
    ctx.oblige("FIT", f"{F}:ConfigView.__init__", f"given parameters override defaults (defaults fill only missing keys): _params = {given}, {len(hits)} default loop, "
               f"{len(cstores)} item store(s)", okcv, file=F, func="ConfigView.__init__",
               construct="ConfigView precedence", msg="ConfigView lets library defaults override the hyper-parameters it is given")
    props = {m.name for m in cv.body if isinstance(m, ast.FunctionDef) and any(ast.unparse(d) == "property" for d in m.decorator_list)}
    bad = [m.name for m in cv.body if isinstance(m, ast.FunctionDef) and m.name in props and
           not any(isinstance(r, ast.Return) and ast.unparse(r.value) == f"self._params['{m.name}']" for r in ast.walk(m))]
    ctx.oblige("FIT", f"{F}:ConfigView", f"properties {sorted(props)} read their own key", not bad and len(props) >= 5, file=F, func="ConfigView", construct="ConfigView properties",
               msg=f"ConfigView properties {bad} do not return the parameter of their own name")
    # the adapter side: export_python passes config=self.config; set_params applies every key
    py = ctx.parse("py/formak/python.py")
    ad = core.need(core.find_class(py, "SklearnEKFAdapter"), "python.SklearnEKFAdapter")
    aex = core.need(core.find_func(ad, "export_python"), "SklearnEKFAdapter.export_python")
    call = next((c for c in ast.walk(aex) if isinstance(c, ast.Call) and ast.unparse(c.func) == "compile_ekf"), None)
    bound = core.bind_call(call, core.find_func(py, "compile_ekf")) if call is not None else None
    args = [f"{k}={ast.unparse(v)}" for k, v in (bound or {}).items()]
    okae = dict((k, ast.unparse(v)) for k, v in (bound or {}).items()) == {k: f"self.{k}" for k in ("symbolic_model", "process_noise", "sensor_models", "sensor_noises",
                                                                                                       "calibration_map", "config")}
    ctx.oblige("FIT", "py/formak/python.py:SklearnEKFAdapter.export_python", f"compile_ekf({', '.join(args)})", okae, file="py/formak/python.py",
               func="SklearnEKFAdapter.export_python", construct="export args", msg="the exported filter is not compiled from exactly the estimator's six parameters")
    # GridSearchCV refits best_estimator_ through the adapter's fit: the hyper-parameters the search selected must survive it (shared with C17)
    from . import c17 as _c17
    from .. import normast as _nm
    afit = core.need(core.find_func(ad, "fit"), "SklearnEKFAdapter.fit")
    ctx.functions.append("python.SklearnEKFAdapter.fit")
    _c17.fit_param_integrity(ctx, ad, _nm.Normaliser(None).function(afit), "FIT")
    # ... and reach the filter as the values the grid named: Config stores what it is given
    _c17.config_verbatim(ctx, "FIT")
    c17.set_params_rule(ctx, ad, py)
    return core.finish(ctx, explanation="declared transition graph extraction, typestate (who may construct), BFS discipline, grid/export dataflow", **META)
