"""C03 -- Python filter Jacobians are the true partial derivatives, laid out by name.

Decided (DESIGN.md section 3/C03): the glue around sympy's Matrix.jacobian -- which list the
matrix is differentiated by, the argument layout of the three compiled blocks at their execute()
sites, and the row-major un-flatten (stride, row range, column prefix, index order) -- for every
model at once.  Not decided: Matrix.jacobian / lambdify themselves (trusted base).
"""
from .. import core, scenarios
from ..values import *  # noqa

META = dict(level="other",
            trusted_base=["sympy.Matrix.jacobian returns d(row expr)/d(column symbol)",
                          "iterating a sympy Matrix is row-major",
                          "sympy.lambdify binds positional arguments in list order"],
            assumptions=["ast.parse of py/formak/python.py, common.py is the program that runs"])

JAC = {"process_jacobian": ("_impl_process_jacobian", "STATE", "STATE"),
       "control_jacobian": ("_impl_control_jacobian", "STATE", "CONTROL")}


def seg(role, key="name"):
    return ("SORT", role, key)


def run(ctx: core.Ctx) -> int:
    ctx.rule("LAY-CALL", "flattened actual-argument layout at block.execute(...) == the arglist the block was compiled over")
    ctx.rule("LAY-FLAT", "un-flatten nest out[row,col] = flat[row*S+col]: S == ncols(Flat), row range == nrows(Flat), "
                         "column range is a whole-segment prefix of the Flat's column layout, store indices are the loop indices")
    ctx.rule("LAY-JACPY", "each Jacobian block is Matrix([model[a] for a in L_out]).jacobian(L_in) with the layouts the API claims")
    ctx.rule("LAY-RESULT", "the array returned by *_jacobian has rows = outputs (by name) and columns = the claimed input layout")
    sc = scenarios.PyEKF(ctx, run=("process_model", "sensor_model"))
    it, a = sc.it, sc.ekf.attrs
    funcs = ["process_jacobian", "control_jacobian", "sensor_jacobian"]
    scenarios.transfer(it, ctx, rules={"LAY-CALL", "LAY-FLAT"}, funcs=["ExtendedKalmanFilter." + f for f in funcs])

    # LAY-JACPY on the constructed blocks
    S, C, K = Layout((seg("STATE"),)), Layout((seg("CONTROL"),)), Layout((seg("CALIB"),))
    DT = Layout((("DT",),))
    full = DT + S + K + C
    n_jac = 0
    for fn, (attr, rrole, crole) in JAC.items():
        b = a.get(attr)
        where = f"py/formak/python.py:ExtendedKalmanFilter._construct_process ({attr})"
        if not isinstance(b, BlockV) or not isinstance(b.outputs, FlatV):
            ctx.error(f"{attr}: not a BasicBlock over a flattened sympy Jacobian (got {b!r})")
            continue
        n_jac += 1
        want_rows = Layout((seg(rrole),)).prime()
        want_cols = Layout((seg(crole),))
        ok = b.outputs.rows == want_rows and b.outputs.cols == want_cols
        ctx.oblige("LAY-JACPY", where, f"{attr}: Flat({b.outputs.rows} x {b.outputs.cols}) == d next-{rrole} / d {crole}", ok,
                   file="py/formak/python.py", func="ExtendedKalmanFilter._construct_process", construct=attr,
                   msg=f"{attr} is the flattening of a {b.outputs.rows} x {b.outputs.cols} Jacobian; "
                       f"the API claims rows {want_rows}, columns {want_cols}")
        okf = b.formals == full
        ctx.oblige("LAY-JACPY", where, f"{attr}: compiled over {b.formals}", okf,
                   file="py/formak/python.py", func="ExtendedKalmanFilter._construct_process", construct=attr + ".arglist",
                   msg=f"{attr} compiled over {b.formals}, expected {full}")
    sj = a.get("_impl_sensor_jacobians")
    b = sj.attrs.get("__fam__") if isinstance(sj, ObjV) else None
    where = "py/formak/python.py:ExtendedKalmanFilter._construct_sensors (_impl_sensor_jacobians[k])"
    if not isinstance(b, BlockV) or not isinstance(b.outputs, FlatV):
        ctx.error(f"_impl_sensor_jacobians[k]: not a BasicBlock over a flattened sympy Jacobian (got {b!r})")
    else:
        n_jac += 1
        R = Layout((("SORT", ("READ", "k"), "natural"),))
        ok = b.outputs.rows == R and b.outputs.cols == S + K
        ctx.oblige("LAY-JACPY", where, f"sensor Jacobian: Flat({b.outputs.rows} x {b.outputs.cols}) == d reading / d (STATE + CALIB)", ok,
                   file="py/formak/python.py", func="ExtendedKalmanFilter._construct_sensors", construct="_impl_sensor_jacobians",
                   msg=f"sensor Jacobian block flattens {b.outputs.rows} x {b.outputs.cols}; expected {R} x {S + K}")
        ctx.oblige("LAY-JACPY", where, f"sensor Jacobian compiled over {b.formals}", b.formals == S + K,
                   file="py/formak/python.py", func="ExtendedKalmanFilter._construct_sensors", construct="_impl_sensor_jacobians.arglist",
                   msg=f"sensor Jacobian compiled over {b.formals}, expected {S + K}")

    # LAY-RESULT on what the three public functions return
    want = {"ExtendedKalmanFilter.process_jacobian": (S.prime(), S),
            "ExtendedKalmanFilter.control_jacobian": (S.prime(), C),
            "ExtendedKalmanFilter.sensor_jacobian": (Layout((("SORT", ("READ", "k"), "natural"),)), S)}
    seen = set()
    for c in it.calls:
        if c["callee"] in want and c["callee"] not in seen and "result" in c:
            seen.add(c["callee"])
            r = c["result"]
            wr, wc = want[c["callee"]]
            ok = isinstance(r, ArrV) and r.rows == wr and r.cols == wc
            ctx.oblige("LAY-RESULT", f"py/formak/python.py:{c['callee']}", f"returns {r!r}; claimed Arr({wr} x {wc})", ok,
                       file="py/formak/python.py", func=c["callee"], construct="return",
                       msg=f"{c['callee']} returns {r!r}, the API claims rows {wr} and columns {wc}")
    ctx.floor("LAY-JACPY", n_jac, 3, "Jacobian blocks (process, control, sensor)")
    ctx.floor("LAY-CALL", sum(scenarios.count(it, "LAY-CALL", f) > 0 for f in funcs), 3, "execute() sites in the three *_jacobian methods")
    ctx.floor("LAY-FLAT", sum(min(scenarios.count(it, "LAY-FLAT", f), 3) for f in funcs), 9, "un-flatten obligations (3 per nest x 3 nests)")
    ctx.floor("LAY-RESULT", len(seen), 3, "returned Jacobian arrays")
    for u in it.undecided_sites:
        ctx.note(f"undecided: {u}")
    # the Jacobian functions keep no state between calls (a memoised matrix is the Jacobian of an earlier evaluation point)
    from .. import effects as _eff
    ctx.rule("PURE", "process_jacobian / control_jacobian / sensor_jacobian write nothing but fresh locals")
    _cls = core.need(core.find_class(it.p.modules["python"], "ExtendedKalmanFilter"), "python.ExtendedKalmanFilter")
    for _f in funcs:
        _fn = core.need(core.find_func(_cls, _f), f"ExtendedKalmanFilter.{_f}")
        _ws = _eff.writes(_fn)
        ctx.oblige("PURE", f"py/formak/python.py:ExtendedKalmanFilter.{_f}", f"{len(_ws)} write effect(s)", not _ws, file="py/formak/python.py",
                   func=f"ExtendedKalmanFilter.{_f}", construct="writes:" + ";".join(sorted(w.kind + " " + w.target for w in _ws)),
                   msg="the Jacobian function keeps state between calls: " + "; ".join(f"{w.kind} {w.target} (line {w.line})" for w in _ws),
                   line=_ws[0].line if _ws else None)
    from . import c15 as _c15
    ctx.rule("PY-PURE", "no module-level / class-level mutable state shared between filters (shared with C01)")
    _c15.gen_pure(ctx, {"python": "py/formak/python.py", "common": "py/formak/common.py"}, rule="PY-PURE", floor=40)
    # the values of the compiled blocks go through python.BasicBlock: its temporaries protocol and trusted sympy signatures (shared with C01/C08)
    from .. import tmprules as _tmp
    for _rid, _t in (("TMP-1", "python prefix/body lambdify protocol"), ("TMP-2", "python execute protocol"), ("TMP-4", "CSE flag gates only cse()/simplify()"),
                     ("TRUST-SIG", "trusted sympy call signatures")):
        ctx.rule(_rid, _t)
    _tmp.check_python_block(ctx, it.p.modules["python"])
    # what is compiled is the user's expression / its exact derivative: no sympy rewriting outside the CSE gate (shared with C01)
    from . import c01 as _c01nr
    _c01nr.py_no_rewrite(ctx, it.p.modules["python"], "py/formak/python.py")
    return core.finish(ctx, explanation="layout abstract interpretation (E2) of python.ExtendedKalmanFilter: Jacobian blocks, "
                                        "their execute() sites and the three un-flatten nests, for every model at once", **META)
