"""C02 -- generated C++ computes the symbolic model, its derivatives and noise matrices, each in the slot named for it.

Decided: every index, slot, accessor and argument list the generator prints is bound to the name it is printed for
(fv/genlayout.py: GEN-ITER, SLOT-AGREE, SLOT-IDX, SUBS, LAY-JAC, LAY-TGT, LAY-COVIDX, LAY-DICT, LAY-KEYMAT); the temporaries
protocol of cpp.BasicBlock (TMP-3, TMP-4, TRUST-SIG); declarations and definitions agree for all four control x calibration
valuations (DECL-DEF); the templates type-check against the declared types (WITNESS, shared with C12).
Not decided: sympy.diff / ccode printing, compilation against real Eigen, run-time values.
"""
from concurrent.futures import ThreadPoolExecutor

from .. import core, genlayout, minieval, tmprules, witness

META = dict(level="other",
            trusted_base=["sympy.diff / subs / ccode", "clang++-14 type checker + dimension-typed Eigen stand-in",
                          "fv.minieval printer mirrors ast_tools for the node kinds used"],
            assumptions=["symbol names are C++ identifiers (the property's quantifier)"])


def decl_def(ctx: core.Ctx, w: "witness.Witness"):
    """every function declared in the header part has a definition in the source part with the same signature (and vice versa
    for qualified definitions), for each valuation"""
    n = 0
    for ctl in (False, True):
        for cal in (False, True):
            v = witness.Valuation(ctl, cal)
            ev = w.evaluator()
            gen = witness.FakeGenerator(v, w)
            header = ev.call_named("cpp", "_header_body", generator=gen)
            source = ev.call_named("cpp", "_source_body", generator=gen)
            decls = {}

            def walk(node, cls=None):
                if node.kind == "ClassDef":
                    for c in node.body:
                        walk(c, node.name)
                elif node.kind == "FunctionDeclaration" and cls and "= 0" not in (node.modifier or ""):
                    decls[f"{cls}::{node.name}"] = ([(a.type_, a.name) for a in node.args], node.return_type.replace("static ", "").strip(), node.modifier)
                elif node.kind == "ConstructorDeclaration" and cls:
                    decls[f"{cls}::{cls}/{len(node.args or [])}"] = ([(a.type_, a.name) for a in node.args or []], "", "")
                elif node.kind == "Templated":
                    walk(node.templated, cls)
            for h in header:
                walk(h)
            defs = {}
            for s in source:
                if s.kind == "FunctionDef":
                    defs[s.name] = ([(a.type_, a.name) for a in s.args], s.return_type.strip(), s.modifier)
                elif s.kind == "ConstructorDefinition":
                    defs[f"{s.classname}::{s.classname}/{len(s.args or [])}"] = ([(a.type_, a.name) for a in s.args or []], "", "")
            for name, (args, ret, mod) in sorted(decls.items()):
                cls = name.split("::")[0]
                d = defs.get(name)
                # declared-but-never-defined statics that nothing calls (Reading::model / jacobian / covariance duplicate the
                # SensorModel declarations) are harmless in C++; a definition is required only for what the templates, the
                # runtime and the constructors call
                called = cls.endswith("SensorModel") or cls in ("ExtendedKalmanFilterProcessModel", "ExtendedKalmanFilter", "Model") \
                    or "/" in name
                if d is None and not called:
                    continue
                n += 1
                ok = d is not None and d[0] == args and d[1].replace("typename ", "") == ret.replace("typename ", "") and (d[2] or "") == (mod or "")
                ctx.oblige("DECL-DEF", f"valuation {v.tag}", f"{name}{args} declared; defined: {d}", ok, file=witness.FRAG, func=name,
                           construct=f"decl/def {name} ctl={ctl} cal={cal}",
                           msg=f"[{v.tag}] `{ret} {name}({', '.join(t + ' ' + a for t, a in args)}) {mod}` is declared in the header but "
                               + ("has no definition in the source" if d is None else f"defined as `{d[1]} {name}({', '.join(t + ' ' + a for t, a in d[0])}) {d[2]}`"))
            for name in sorted(defs):
                if name not in decls:
                    ctx.oblige("DECL-DEF", f"valuation {v.tag}", f"{name} defined without declaration", False, file=witness.FRAG, func=name,
                               construct=f"def without decl {name} ctl={ctl} cal={cal}", msg=f"[{v.tag}] {name} is defined in the source but not declared in the header")
    ctx.floor("DECL-DEF", n, 60, "header declarations matched with source definitions (4 valuations)")


def run(ctx: core.Ctx) -> int:
    gen_memo(ctx)        # first: purely syntactic, and the evaluators below stop at instance state they do not know
    ctx.rule("DECL-DEF", "header declarations and source definitions agree in name, argument list, return type and modifier")
    ctx.rule("WITNESS", "templates type-check against the declared types for all four control x calibration valuations")
    ctx.rule("TMP-3", "cpp.BasicBlock emits every temporary once, typed double, in cse order, before the first target")
    ctx.rule("TMP-4", "the CSE flag gates only cse() and simplify()")
    ctx.rule("TRUST-SIG", "sympy is called with its trusted signatures only")
    g = genlayout.check_all(ctx)
    tmprules.check_cpp_block(ctx, g.p.modules["cpp"])
    from . import c13 as _c13
    for _rid, _t in (("NV-NAMES", "named arrays accept the str() names of their arglist"), ("NV-STORE", "the value given for a name is stored unmodified at its index"),
                     ("NV-DEFAULT", "zeros / unit variance defaults"), ("NV-GUARD", "unknown names refused"), ("NV-DATA", "_data stored as is"),
                     ("NV-SHAPE", "shape from the arglist"), ("NV-FROMDICT", "from_dict binds by str(key)")):
        ctx.rule(_rid, _t)
    _c13.check_named(ctx, g.p.modules["common"], "named_covariance", "cov")
    _c13.check_base(ctx, g.p.modules["common"])
    w = witness.Witness(ctx)
    decl_def(ctx, w)
    vals = [witness.Valuation(ctl, cal) for ctl in (False, True) for cal in (False, True)]
    vals += [witness.Valuation(ctl, cal, ekf=False) for ctl in (False, True) for cal in (False, True)]      # the plain Model generation
    if ctx.tier == "thorough":
        vals += [witness.Valuation(ctl, cal, False, sensors=(("a", 1), ("b", 2), ("c", 6)), n_state=7, n_control=3, n_calib=2)
                 for ctl in (False, True) for cal in (False, True)]
    with ThreadPoolExecutor(8) as ex:
        res = list(ex.map(lambda v: (v, w.compile(v)), vals))
    for v, (rc, diag, src) in res:
        first = diag[0] if diag else {"where": "?", "message": "", "text": ""}
        ctx.oblige("WITNESS", f"witness {v.tag}", f"rc={rc}", rc == 0, file=first["where"].split(":")[0], func=v.tag,
                   construct=(first["message"] + " | " + first["text"])[:200],
                   msg=f"valuation {v.tag} does not type-check: {first['where']}: {first['message']}   [{first['text']}]")
    ctx.floor("WITNESS", len(res), 8, "witness TUs (filter and plain model, control x calibration)")
    return core.finish(ctx, explanation="E2 layout interpretation of the generator + iteration inventory rules, temporaries protocol, "
                                        "declaration/definition agreement and compile witnesses", **META)



EXACT_WRAP = {"tuple", "frozenset", "sorted", "str", "repr", "list"}


def gen_memo(ctx: core.Ctx, rel="py/formak/cpp.py"):
    """GEN-MEMO: what the generator emits for a function is determined by that function's own arguments.  The generator's methods other than
    __init__ store nothing on the instance -- except a memo `self.C[K] = V` whose key determines the value: every parameter of the method that the
    cached computation reads occurs WHOLE in the key (itself, or `p.items()` for a mapping, under tuple / frozenset / sorted / str).  A key built
    from a part of a parameter (`sorted(mapping)`: the reading names only) hands one sensor another sensor's block.  Any other store on the
    instance outside __init__ is not an enumerated idiom (analysis error, not a verdict)."""
    import ast
    from .. import effects
    ctx.rule("GEN-MEMO", "generator methods other than __init__ store nothing on the instance except memo entries whose key contains every parameter the cached value reads, whole")
    mod = ctx.parse(rel)
    n = 0
    # construction helpers: methods (of any class of the module, base classes included) called only from __init__ / from other construction
    # helpers are part of construction
    allm = {}
    for cls in [c for c in mod.body if isinstance(c, ast.ClassDef)]:
        for f in cls.body:
            if isinstance(f, ast.FunctionDef):
                allm.setdefault(f.name, []).append(f)

    def self_calls(f):
        return {x.func.attr for x in ast.walk(f) if isinstance(x, ast.Call) and isinstance(x.func, ast.Attribute) and isinstance(x.func.value, ast.Name)
                and x.func.value.id in ("self", "cls") and x.func.attr in allm} | \
               {x.func.attr for x in ast.walk(f) if isinstance(x, ast.Call) and isinstance(x.func, ast.Attribute) and isinstance(x.func.value, ast.Call)
                and isinstance(x.func.value.func, ast.Name) and x.func.value.func.id == "super" and x.func.attr in allm}
    ctor = {"__init__", "__post_init__"}
    changed = True
    while changed:
        changed = False
        cand = set()
        for nm in ctor:
            for f in allm.get(nm, []):
                cand |= self_calls(f)
        for nm in cand - ctor:
            used_elsewhere = any(nm in self_calls(f) for on, fs in allm.items() if on not in ctor and on != nm for f in fs)
            if not used_elsewhere:
                ctor.add(nm)
                changed = True
    for cls in [c for c in mod.body if isinstance(c, ast.ClassDef)]:
        methods = {f.name: f for f in cls.body if isinstance(f, ast.FunctionDef)}
        for fn in methods.values():
            if fn.name in ctor:
                continue
            n += 1
            q = f"{cls.name}.{fn.name}"
            ws = [w_ for w_ in effects.writes(fn) if w_.target.split("[")[0].split(".")[0] == "self"]
            if not ws:
                ctx.oblige("GEN-MEMO", f"{rel}:{q}", "stores nothing on the instance", True, file=rel, func=q, construct="stateless")
                continue
            params = [a.arg for a in fn.args.posonlyargs + fn.args.args + fn.args.kwonlyargs if a.arg != "self"]
            defs = {}
            for a in ast.walk(fn):
                if isinstance(a, ast.Assign) and len(a.targets) == 1 and isinstance(a.targets[0], ast.Name):
                    defs.setdefault(a.targets[0].id, []).append(a.value)

            def res(e, depth=0):
                class T(ast.NodeTransformer):
                    def visit_Name(self, nd):
                        if isinstance(nd.ctx, ast.Load) and nd.id not in params and len(defs.get(nd.id, [])) == 1 and depth < 5:
                            return res(defs[nd.id][0], depth + 1)
                        return nd
                import copy
                return T().visit(copy.deepcopy(e))

            def is_mapping(pn, f=fn, depth=0):
                for x in ast.walk(f):
                    if isinstance(x, ast.Attribute) and x.attr in ("items", "values", "keys", "get") and isinstance(x.value, ast.Name) and x.value.id == pn:
                        return True
                    if isinstance(x, ast.Call) and isinstance(x.func, ast.Attribute) and isinstance(x.func.value, ast.Name) and x.func.value.id == "self" \
                            and x.func.attr in methods and depth < 3:
                        cal = methods[x.func.attr]
                        cpar = [a.arg for a in cal.args.args if a.arg != "self"]
                        for i, a in enumerate(x.args):
                            if isinstance(a, ast.Name) and a.id == pn and i < len(cpar) and is_mapping(cpar[i], cal, depth + 1):
                                return True
                return False

            def whole(k, pn, mapping):
                """does the key expression k contain parameter pn whole?"""
                if isinstance(k, ast.Name):
                    return k.id == pn and not mapping
                if isinstance(k, (ast.Tuple, ast.List)):
                    return any(whole(e, pn, mapping) for e in k.elts)
                if isinstance(k, ast.Call) and isinstance(k.func, ast.Name) and k.func.id in EXACT_WRAP and len(k.args) >= 1:
                    a0 = k.args[0]
                    if mapping and isinstance(a0, ast.Call) and isinstance(a0.func, ast.Attribute) and a0.func.attr == "items" and isinstance(a0.func.value, ast.Name) \
                            and a0.func.value.id == pn:
                        return True
                    if k.func.id in ("str", "repr") and isinstance(a0, ast.Name) and a0.id == pn:
                        return True
                    return whole(a0, pn, mapping)
                if isinstance(k, ast.Call) and isinstance(k.func, ast.Name) and k.func.id == "id" and len(k.args) == 1 and isinstance(k.args[0], ast.Name):
                    return k.args[0].id == pn
                return False
            for st in ast.walk(fn):
                if not (isinstance(st, ast.Assign) and len(st.targets) == 1 and isinstance(st.targets[0], ast.Subscript)
                        and isinstance(st.targets[0].value, ast.Attribute) and isinstance(st.targets[0].value.value, ast.Name) and st.targets[0].value.value.id == "self"):
                    continue
                key = res(st.targets[0].slice)
                val = res(st.value)
                reads = [p_ for p_ in params if any(isinstance(x, ast.Name) and x.id == p_ for x in ast.walk(val))]
                missing = [p_ for p_ in reads if not whole(key, p_, is_mapping(p_))]
                ws = [w_ for w_ in ws if w_.line != st.lineno]
                ctx.oblige("GEN-MEMO", f"{rel}:{q}", f"memo `{ast.unparse(st.targets[0])[:50]}` keyed by `{ast.unparse(key)[:50]}`; the value reads {reads}", not missing,
                           file=rel, func=q, construct="memo key:" + ast.unparse(key)[:50], line=st.lineno,
                           msg=f"{q} caches `{ast.unparse(st.value)[:50]}...` under the key `{ast.unparse(key)[:60]}`, which does not contain the parameter(s) {missing} "
                               f"whole: two calls that differ only in the rest of {missing} (two sensors with the same reading names but different models) "
                               f"get the same cached block -- the second function returns the first one's expressions")
            # a keyless memo `if self.X is None: self.X = V` (the cached-property idiom): V may read nothing but the instance
            for st in ast.walk(fn):
                if not (isinstance(st, ast.Assign) and len(st.targets) == 1 and isinstance(st.targets[0], ast.Attribute) and isinstance(st.targets[0].value, ast.Name)
                        and st.targets[0].value.id == "self"):
                    continue
                val = res(st.value)
                reads = [p_ for p_ in params if any(isinstance(x, ast.Name) and x.id == p_ for x in ast.walk(val))]
                ws = [w_ for w_ in ws if w_.line != st.lineno]
                ctx.oblige("GEN-MEMO", f"{rel}:{q}", f"keyless memo `{ast.unparse(st.targets[0])}`; the value reads {reads}", not reads,
                           file=rel, func=q, construct="keyless memo:" + ast.unparse(st.targets[0]), line=st.lineno,
                           msg=f"{q} keeps `{ast.unparse(st.value)[:50]}...` in `{ast.unparse(st.targets[0])}` for later calls although it depends on the parameter(s) {reads}: "
                               f"a later call with other arguments (or a second emission that needs fresh one-shot generators) is handed the first call's result")
            for w_ in ws:
                ctx.error(f"GEN-MEMO: {rel}:{w_.line} {q} stores on the instance (`{w_.text[:70]}`): not an enumerated idiom (memo with a whole-parameter key)")
    ctx.floor("GEN-MEMO", n, 15, "generator methods other than __init__")
    if not isinstance(ctx, _MemoProbe):
        # expected number of memo entries on today's tree is zero: the recogniser must fire on a built-in positive example on every run
        pr = _MemoProbe()
        gen_memo(pr, "<positive example>")
        if not pr.failed or pr.errors:
            ctx.error(f"GEN-MEMO: built-in positive example not recognised ({pr.failed}, {pr.errors})")
        else:
            ctx.note("GEN-MEMO: built-in positive example (cache keyed by sorted(mapping)) recognised")


class _MemoProbe:
    """stands in for the context when gen_memo is run on its built-in positive example"""
    SRC = (
        "class G:\n"
        "    def __init__(self):\n"
        "        self._c = {}\n"
        "    def emit(self, name, mapping):\n"
        "        k = tuple(sorted(mapping))\n"
        "        if k not in self._c:\n"
        "            self._c[k] = list(self.impl(mapping))\n"
        "        return self._c[k]\n"
        "    def impl(self, mapping):\n"
        "        for a, b in mapping.items():\n"
        "            yield a, b\n")

    def __init__(self):
        self.failed, self.errors = [], []

    def parse(self, rel):
        import ast
        return ast.parse(self.SRC)

    def rule(self, *a, **k):
        pass

    def floor(self, *a, **k):
        pass

    def note(self, *a, **k):
        pass

    def error(self, msg):
        self.errors.append(msg)

    def oblige(self, rule, where, what, ok, **k):
        if not ok:
            self.failed.append(where)
