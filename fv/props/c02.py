"""C02 -- generated C++ computes the symbolic model, its derivatives and noise matrices, each in the slot named for it.

Decided: every index, slot, accessor and argument list the generator prints is bound to the name it is printed for
(fv/genlayout.py: GEN-ITER, SLOT-AGREE, SLOT-IDX, SUBS, LAY-JAC, LAY-TGT, LAY-COVIDX, LAY-DICT, LAY-KEYMAT); the temporaries
protocol of cpp.BasicBlock (TMP-3, TMP-4, TRUST-SIG); declarations and definitions agree for all four control x calibration
valuations (DECL-DEF); the templates type-check against the declared types (WITNESS, shared with C12).
Not decided: sympy.diff / ccode printing, compilation against real Eigen, run-time values.
"""
from concurrent.futures import ThreadPoolExecutor

from .. import core, genlayout, minieval, tmprules, witness

META = dict(level="other",
            trusted_base=["sympy.diff / subs / ccode", "clang++-14 type checker + dimension-typed Eigen stand-in",
                          "fv.minieval printer mirrors ast_tools for the node kinds used"],
            assumptions=["symbol names are C++ identifiers (the property's quantifier)"])


def decl_def(ctx: core.Ctx, w: "witness.Witness"):
    """every function declared in the header part has a definition in the source part with the same signature (and vice versa
    for qualified definitions), for each valuation"""
    n = 0
    for ctl in (False, True):
        for cal in (False, True):
            v = witness.Valuation(ctl, cal)
            ev = w.evaluator()
            gen = witness.FakeGenerator(v, w)
            header = ev.call_named("cpp", "_header_body", generator=gen)
            source = ev.call_named("cpp", "_source_body", generator=gen)
            decls = {}

            def walk(node, cls=None):
                if node.kind == "ClassDef":
                    for c in node.body:
                        walk(c, node.name)
                elif node.kind == "FunctionDeclaration" and cls and "= 0" not in (node.modifier or ""):
                    decls[f"{cls}::{node.name}"] = ([(a.type_, a.name) for a in node.args], node.return_type.replace("static ", "").strip(), node.modifier)
                elif node.kind == "ConstructorDeclaration" and cls:
                    decls[f"{cls}::{cls}/{len(node.args or [])}"] = ([(a.type_, a.name) for a in node.args or []], "", "")
                elif node.kind == "Templated":
                    walk(node.templated, cls)
            for h in header:
                walk(h)
            defs = {}
            for s in source:
                if s.kind == "FunctionDef":
                    defs[s.name] = ([(a.type_, a.name) for a in s.args], s.return_type.strip(), s.modifier)
                elif s.kind == "ConstructorDefinition":
                    defs[f"{s.classname}::{s.classname}/{len(s.args or [])}"] = ([(a.type_, a.name) for a in s.args or []], "", "")
            for name, (args, ret, mod) in sorted(decls.items()):
                cls = name.split("::")[0]
                d = defs.get(name)
                # declared-but-never-defined statics that nothing calls (Reading::model / jacobian / covariance duplicate the
                # SensorModel declarations) are harmless in C++; a definition is required only for what the templates, the
                # runtime and the constructors call
                called = cls.endswith("SensorModel") or cls in ("ExtendedKalmanFilterProcessModel", "ExtendedKalmanFilter", "Model") \
                    or "/" in name
                if d is None and not called:
                    continue
                n += 1
                ok = d is not None and d[0] == args and d[1].replace("typename ", "") == ret.replace("typename ", "") and (d[2] or "") == (mod or "")
                ctx.oblige("DECL-DEF", f"valuation {v.tag}", f"{name}{args} declared; defined: {d}", ok, file=witness.FRAG, func=name,
                           construct=f"decl/def {name} ctl={ctl} cal={cal}",
                           msg=f"[{v.tag}] `{ret} {name}({', '.join(t + ' ' + a for t, a in args)}) {mod}` is declared in the header but "
                               + ("has no definition in the source" if d is None else f"defined as `{d[1]} {name}({', '.join(t + ' ' + a for t, a in d[0])}) {d[2]}`"))
            for name in sorted(defs):
                if name not in decls:
                    ctx.oblige("DECL-DEF", f"valuation {v.tag}", f"{name} defined without declaration", False, file=witness.FRAG, func=name,
                               construct=f"def without decl {name} ctl={ctl} cal={cal}", msg=f"[{v.tag}] {name} is defined in the source but not declared in the header")
    ctx.floor("DECL-DEF", n, 60, "header declarations matched with source definitions (4 valuations)")


def run(ctx: core.Ctx) -> int:
    ctx.rule("DECL-DEF", "header declarations and source definitions agree in name, argument list, return type and modifier")
    ctx.rule("WITNESS", "templates type-check against the declared types for all four control x calibration valuations")
    ctx.rule("TMP-3", "cpp.BasicBlock emits every temporary once, typed double, in cse order, before the first target")
    ctx.rule("TMP-4", "the CSE flag gates only cse() and simplify()")
    ctx.rule("TRUST-SIG", "sympy is called with its trusted signatures only")
    g = genlayout.check_all(ctx)
    tmprules.check_cpp_block(ctx, g.p.modules["cpp"])
    from . import c13 as _c13
    for _rid, _t in (("NV-NAMES", "named arrays accept the str() names of their arglist"), ("NV-STORE", "the value given for a name is stored unmodified at its index"),
                     ("NV-DEFAULT", "zeros / unit variance defaults"), ("NV-GUARD", "unknown names refused"), ("NV-DATA", "_data stored as is"),
                     ("NV-SHAPE", "shape from the arglist"), ("NV-FROMDICT", "from_dict binds by str(key)")):
        ctx.rule(_rid, _t)
    _c13.check_named(ctx, g.p.modules["common"], "named_covariance", "cov")
    _c13.check_base(ctx, g.p.modules["common"])
    w = witness.Witness(ctx)
    decl_def(ctx, w)
    vals = [witness.Valuation(ctl, cal) for ctl in (False, True) for cal in (False, True)]
    vals += [witness.Valuation(ctl, cal, ekf=False) for ctl in (False, True) for cal in (False, True)]      # the plain Model generation
    if ctx.tier == "thorough":
        vals += [witness.Valuation(ctl, cal, False, sensors=(("a", 1), ("b", 2), ("c", 6)), n_state=7, n_control=3, n_calib=2)
                 for ctl in (False, True) for cal in (False, True)]
    with ThreadPoolExecutor(8) as ex:
        res = list(ex.map(lambda v: (v, w.compile(v)), vals))
    for v, (rc, diag, src) in res:
        first = diag[0] if diag else {"where": "?", "message": "", "text": ""}
        ctx.oblige("WITNESS", f"witness {v.tag}", f"rc={rc}", rc == 0, file=first["where"].split(":")[0], func=v.tag,
                   construct=(first["message"] + " | " + first["text"])[:200],
                   msg=f"valuation {v.tag} does not type-check: {first['where']}: {first['message']}   [{first['text']}]")
    ctx.floor("WITNESS", len(res), 8, "witness TUs (filter and plain model, control x calibration)")
    return core.finish(ctx, explanation="E2 layout interpretation of the generator + iteration inventory rules, temporaries protocol, "
                                        "declaration/definition agreement and compile witnesses", **META)
