"""C05 -- sensor update is the Kalman correction, for any number of readings.

Decided: (ARR-MM / ARR-EW) axis conformance of every product / sum in sensor_model with
H : READ(k) x STATE, P : STATE x STATE, Q : READ(k) x READ(k); (Q-KIND) the per-sensor noise is a
*covariance* class over the sensor's sorted readings, filled by name (from_dict); (UPD-FORM) normal forms
  recorded uncertainty  S  = H.P.H^T + Q
  recorded innovation   y  = z - h(x)
  posterior state          = x + K.(z - h(x)),  K = P.H^T.Inv(S)
  posterior covariance     in { P - K.H.P  (== (I-K.H).P),  Joseph (I-K.H).P.(I-K.H)^T + K.Q.K^T }.
The corollaries in the statement (no change for z = h(x), symmetry, posterior <= prior) follow from the
forms in exact arithmetic and are not separately checked.  Not decided: numeric values of H, h.
"""
from .. import core, scenarios
from ..matform import MatForm
from ..values import *  # noqa

META = dict(level="other",
            trusted_base=["numpy.matmul / transpose / linalg.inv / + / -", "sympy / lambdify (values of H, h)"],
            assumptions=["P and Q symmetric (stated by the property)"])


def run(ctx: core.Ctx) -> int:
    ctx.rule("ARR-MM", "matmul(A, B): column layout of A == row layout of B")
    ctx.rule("ARR-EW", "A + B / A - B: identical axis layouts (no implicit broadcast)")
    ctx.rule("Q-KIND", "sensor_noises[k] is a named *covariance* over sorted readings of sensor k, filled by name")
    ctx.rule("UPD-FORM", "S, y, posterior state and posterior covariance normalise to the Kalman forms")
    ctx.rule("LAY-SLOT", "from_data(...) receives arrays whose axes are the class layout")
    sc = scenarios.PyEKF(ctx, run=("sensor_model",))
    it = sc.it
    file = "py/formak/python.py"
    qual = "ExtendedKalmanFilter.sensor_model"
    scenarios.transfer(it, ctx, rules={"ARR-MM", "ARR-EW", "LAY-SLOT", "LAY-DICT"},
                       funcs=[qual, "ExtendedKalmanFilter._construct_sensors"])
    # H and h(x) are inputs of the update: their argument layouts and the un-flatten of H (shared with C03)
    ctx.rule("LAY-CALL", "execute() actuals == the block's arglist (sensor prediction and sensor Jacobian)")
    ctx.rule("LAY-FLAT", "H is un-flattened with the row stride of the compiled Jacobian")
    ctx.rule("LAY-ZIP", "predicted readings are zipped with the sensor's sorted reading names")
    scenarios.transfer(it, ctx, rules={"LAY-CALL", "LAY-FLAT", "LAY-ZIP", "LAY-SLOT"},
                       funcs=["ExtendedKalmanFilter.sensor_jacobian", "SensorModel.model"])
    R = Layout((("SORT", ("READ", "k"), "natural"),))
    # the Jacobian block behind H: rows = the sensor's sorted readings, columns = state + calibration (shared with C03)
    ctx.rule("LAY-JACPY", "H's block is Matrix([sensor[r] for r in sorted readings]).jacobian(state + calibration)")
    sj = sc.ekf.attrs.get("_impl_sensor_jacobians")
    blk = sj.attrs.get("__fam__") if isinstance(sj, ObjV) else None
    S_, K_ = Layout((("SORT", "STATE", "name"),)), Layout((("SORT", "CALIB", "name"),))
    if isinstance(blk, BlockV) and isinstance(blk.outputs, FlatV):
        okb = blk.outputs.rows == R and blk.outputs.cols == S_ + K_ and blk.formals == S_ + K_
        ctx.oblige("LAY-JACPY", f"{file}:ExtendedKalmanFilter._construct_sensors", f"sensor Jacobian block Flat({blk.outputs.rows} x {blk.outputs.cols}) over {blk.formals}",
                   okb, file=file, func="ExtendedKalmanFilter._construct_sensors", construct="_impl_sensor_jacobians",
                   msg=f"the rows of H follow {blk.outputs.rows} (columns {blk.outputs.cols}); z, h(x) and Q are laid out as {R}: H is row-permuted "
                       f"relative to the innovation unless the user happened to declare the readings in sorted order")
    else:
        ctx.error(f"_impl_sensor_jacobians[k] is not a block over a flattened Jacobian ({blk!r})")
    # the update keeps no state besides the two records
    from .. import effects
    ctx.rule("PURE", "sensor_model / sensor_jacobian / SensorModel.model write only self.innovations[key] and self.sensor_prediction_uncertainty[key]")
    pmod = it.p.modules["python"]
    for cname, mname in (("ExtendedKalmanFilter", "sensor_model"), ("ExtendedKalmanFilter", "sensor_jacobian"), ("SensorModel", "model")):
        c = core.find_class(pmod, cname)
        fnn = core.find_func(c, mname) if c else None
        if fnn is None:
            ctx.error(f"anchor missing: python.{cname}.{mname}")
            continue
        ws = [w for w in effects.writes(fnn) if not (w.kind == "item" and w.target in ("self.innovations", "self.sensor_prediction_uncertainty"))]
        ctx.oblige("PURE", f"{file}:{cname}.{mname}", f"{len(ws)} write effect(s) besides the two records", not ws, file=file, func=f"{cname}.{mname}",
                   construct="writes:" + ";".join(sorted(w.kind + " " + w.target for w in ws)),
                   msg="the update changes filter state it must only read (e.g. the stored noise Q or the inputs, through an alias): "
                       + "; ".join(f"{w.kind} {w.target} (line {w.line}: {w.text[:60]})" for w in ws), line=ws[0].line if ws else None)
    from . import c13 as _c13
    for _rid, _t in (("NV-NAMES", "named arrays accept the str() names of their arglist"), ("NV-STORE", "the value given for a name is stored unmodified at its index"),
                     ("NV-DEFAULT", "zeros / unit variance defaults"), ("NV-GUARD", "unknown names refused"), ("NV-DATA", "_data stored as is"),
                     ("NV-SHAPE", "shape from the arglist"), ("NV-FROMDICT", "from_dict binds by str(key)"), ("NV-FROMDATA", "from_data refuses wrong shapes"),
                     ("NV-ITER", "row-order iteration")):
        ctx.rule(_rid, _t)
    _c13.check_named(ctx, it.p.modules["common"], "named_covariance", "cov")
    _c13.check_named(ctx, it.p.modules["common"], "named_vector", "vec")
    _c13.check_base(ctx, it.p.modules["common"])
    q = sc.Qcls
    okq = isinstance(q, NCls) and q.kind == "cov" and q.layout == R
    ctx.oblige("Q-KIND", f"{file}:ExtendedKalmanFilter._construct_sensors", f"sensor_noises[k] : {q!r}", okq, file=file,
               func="ExtendedKalmanFilter._construct_sensors", construct="sensor_noises[k]",
               msg=f"per-sensor noise container is {q!r}; the update needs a covariance (m x m, diagonal by name) over {R}")
    x, z, h = MatForm.atom("x"), MatForm.atom("z"), MatForm.atom("h(x)")
    P, Q, H = MatForm.atom("P", True), MatForm.atom("Q", True), MatForm.atom("H")
    I = MatForm.identity()
    S = H * P * H.T() + Q
    K = P * H.T() * S.inv()
    want_state = x + K * (z - h)
    want_cov = [("P - K.H.P", P - K * H * P), ("Joseph", (I - K * H) * P * (I - K * H).T() + K * Q * K.T())]
    rec_S = sc.ekf.attrs.get("sensor_prediction_uncertainty")
    rec_y = sc.ekf.attrs.get("innovations")
    n = 0
    for name, rec, want in (("sensor_prediction_uncertainty", rec_S, S), ("innovations", rec_y, z - h)):
        v = rec.attrs.get("__fam__") if isinstance(rec, ObjV) else None
        form = v.form if isinstance(v, ArrV) else None
        if form is None:
            ctx.error(f"{qual}: self.{name}[sensor_key] is not recorded with a derivable form ({v!r})")
            continue
        n += 1
        ctx.oblige("UPD-FORM", f"{file}:{qual}", f"self.{name}[k] = {form!r}; required {want!r}", form == want, file=file, func=qual,
                   construct=f"self.{name}[sensor_key]", msg=f"recorded {name} normalises to  {form!r} ; required  {want!r}")
    upd = 0
    for r in sc.alts(sc.results["sensor_model"]):
        if not (isinstance(r, TupleV) and len(r.items) == 2):
            ctx.error(f"{qual}: return value is not a (state, covariance) pair: {r!r}")
            continue
        st, cov = r.items
        if isinstance(st, NInst) and st.origin == "x" and isinstance(cov, NInst) and cov.origin == "P":
            continue   # the rejected-reading path (C06)
        upd += 1
        sf = st.arr.form if isinstance(st, NInst) and st.arr is not None else None
        cf = cov.arr.form if isinstance(cov, NInst) and cov.arr is not None else None
        if sf is None or cf is None:
            ctx.error(f"{qual}: updated state/covariance has no derivable normal form ({st!r}, {cov!r})")
            continue
        ctx.oblige("UPD-FORM", f"{file}:{qual}", f"posterior state = {sf!r}", sf == want_state, file=file, func=qual,
                   construct="posterior state", msg=f"posterior state normalises to  {sf!r} ; required  {want_state!r}")
        okc = any(cf == w for _, w in want_cov)
        ctx.oblige("UPD-FORM", f"{file}:{qual}", f"posterior covariance = {cf!r}", okc, file=file, func=qual,
                   construct="posterior covariance",
                   msg=f"posterior covariance normalises to  {cf!r} ; accepted forms: " + " | ".join(f"{nm}: {w!r}" for nm, w in want_cov))
    ctx.floor("UPD-FORM", n + 2 * upd, 4, "S, y, posterior state, posterior covariance")
    ctx.floor("ARR-MM", scenarios.count(it, "ARR-MM", "sensor_model"), 4, "matrix products in sensor_model")
    ctx.floor("ARR-EW", scenarios.count(it, "ARR-EW", "sensor_model"), 2, "sums/differences in sensor_model")
    # the values of the compiled blocks go through python.BasicBlock: its temporaries protocol and trusted sympy signatures (shared with C01/C08)
    from .. import tmprules as _tmp
    for _rid, _t in (("TMP-1", "python prefix/body lambdify protocol"), ("TMP-2", "python execute protocol"), ("TMP-4", "CSE flag gates only cse()/simplify()"),
                     ("TRUST-SIG", "trusted sympy call signatures")):
        ctx.rule(_rid, _t)
    _tmp.check_python_block(ctx, it.p.modules["python"])
    # no module-level / class-level mutable state shared between filters: one filter's construction or update must not reach another's (shared with C01)
    from . import c15 as _c15pp
    ctx.rule("PY-PURE", "no module-level / class-level mutable state shared between filters (shared with C01)")
    _c15pp.gen_pure(ctx, {"python": "py/formak/python.py", "common": "py/formak/common.py"}, rule="PY-PURE", floor=40)
    # the sensor noise the update uses is the noise the caller gave compile_ekf by name (shared with C04)
    from . import c04 as _c04ap
    _pm = ctx.parse("py/formak/python.py")
    _c04ap.arg_pass(ctx, _pm, core.find_class(_pm, "ExtendedKalmanFilter"), "py/formak/python.py")
    # what is compiled is the user's expression / its exact derivative: no sympy rewriting outside the CSE gate (shared with C01)
    from . import c01 as _c01nr
    _c01nr.py_no_rewrite(ctx, _pm, "py/formak/python.py")
    from . import c01 as _c01cv
    _c01cv.sensor_calibration_vector(ctx)
    # "unless the reading is rejected by innovation filtering": the gate sensor_model consults is the documented one (C06's Python-side forms)
    from . import c06 as _c06g
    _c06g.py_gate_forms(ctx)
    return core.finish(ctx, explanation="E2 axis typing + E3 normal forms of sensor_model's records and results", **META)
