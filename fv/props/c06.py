"""C06 -- reading discarded iff NIS > k*sqrt(2m)+m; a discard changes nothing; three implementations agree.

Decided (E3 normal forms, Python via the E2/E3 interpreter, C++ via clang's AST of the repo's header and
of the rendered sensor_model.hpp template inside a witness TU):
  NIS-FORM     the compared quantity is y^T.Inv(S).y as *matrix* products (1x1 extraction transparent)
  THRESH-FORM  the bound is k*sqrt(2*m)+m with m the reading dimension and k the configured threshold
  CMP          the comparison is strictly  NIS > bound
  SIBLINGS     python.remove_innovation == removeInnovation (C++ helper) as normal forms; the template calls
               the helper with (config threshold, innovation, Inv(S))
  ARGS         the decision is taken on (z - h(x), Inv(H.P.H^T + Q)) of this update
  EARLY        on rejection the function returns its own state / covariance arguments, the innovation record
               precedes the decision and the posterior is not computed from anything else
  DISABLED     Python: `innovation_filtering is None` => False before anything is computed;
               C++: Config.ccode maps a falsy threshold to 0.0 and the template guards the only call
               with `if constexpr (threshold > 0.0)`.
Not decided: ulp-level agreement at the boundary (numpy vs Eigen summation order).
"""
import ast

from .. import core, scenarios
from ..matform import MatForm, Scalar
from ..values import *  # noqa
from ..interp import Join

META = dict(level="other",
            trusted_base=["numpy.matmul/transpose, math.sqrt, std::sqrt, Eigen operator*/transpose",
                          "clang++-14 front end (AST of innovation_filtering.h and of the rendered template)"],
            assumptions=["Inv(S) is symmetric (S is)"])

PY = "py/formak/python.py"


def py_decision(ctx, sc):
    """-> (nis MatForm, threshold Scalar, op) of python remove_innovation evaluated on atoms y, Sinv"""
    R = Layout((("SORT", ("READ", "k"), "natural"),))
    y = ArrV(R, ONE, form=MatForm.atom("y"))
    Sinv = ArrV(R, R, form=MatForm.atom("Sinv", True))
    n0 = len(sc.it.calls)
    sc.call("ExtendedKalmanFilter", "remove_innovation", sc.ekf, innovation=y, S_inv=Sinv)
    call = [c for c in sc.it.calls[n0:] if c["callee"] == "ExtendedKalmanFilter.remove_innovation"][-1]
    qual = "ExtendedKalmanFilter.remove_innovation"
    decisions, disabled = [], []
    for v, path in call.get("returns", []):
        if isinstance(v, Const) and v.value is False:
            disabled.append(path)
        elif isinstance(v, CmpV):
            decisions.append((v, path))
        elif isinstance(v, Const) and v.value is True:
            ctx.oblige("CMP", f"{PY}:{qual}", "returns constant True", False, file=PY, func=qual, construct="return True",
                       msg="remove_innovation returns True unconditionally on some path")
        else:
            ctx.error(f"{qual}: return value {v!r} is neither False nor a comparison of NIS with the threshold")
    # DISABLED guard: some `return False` is guarded by `<config.innovation_filtering> is None` only
    # (a local bound once -- `if (t := self.config.innovation_filtering) is None` after UNWALRUS -- is read through)
    from .. import astpat
    from .. import normast as _nm
    cls_ = sc.it.p.classes["python"]["ExtendedKalmanFilter"]
    fn_ = core.find_func(cls_, "remove_innovation")
    props_ = _nm.property_exprs(cls_)
    RA0_ = astpat.resolver(fn_)[0] if fn_ is not None else (lambda e: e)

    def RA_(e):
        return _nm.subst_properties(RA0_(e), props_)          # a read-only property that returns the setting is the setting
    for rets_ in (call.get("returns", []),):
        for i_, (v_, path_) in enumerate(rets_):
            rets_[i_] = (v_, [(RA_(t_) if isinstance(t_, ast.AST) else t_, pol_, x_) for t_, pol_, x_ in path_])
    disabled = [path for v, path in call.get("returns", []) if isinstance(v, Const) and v.value is False]
    decisions = [(v, path) for v, path in call.get("returns", []) if isinstance(v, CmpV)]
    ok = False
    for path in disabled:
        if len(path) == 1:
            t, pol, _ = path[0]
            if isinstance(t, ast.Compare) and len(t.ops) == 1 and isinstance(t.comparators[0], ast.Constant) \
                    and t.comparators[0].value is None and "innovation_filtering" in ast.unparse(t.left) \
                    and ((isinstance(t.ops[0], ast.Is) and pol) or (isinstance(t.ops[0], ast.IsNot) and not pol)):
                ok = True
    ctx.oblige("DISABLED", f"{PY}:{qual}", "innovation_filtering is None -> return False (sole guard)", ok, file=PY, func=qual,
               construct="disabled guard", msg="no `return False` guarded exactly by `config.innovation_filtering is None`")
    for path in disabled:
        if not (len(path) == 1 and "innovation_filtering" in ast.unparse(path[0][0])):
            ctx.oblige("DISABLED", f"{PY}:{qual}", "return False only when disabled", False, file=PY, func=qual,
                       construct="extra return False:" + ";".join(ast.unparse(t) for t, _, _ in path),
                       msg="a reading is kept (return False) under a condition other than filtering being disabled: "
                           + " and ".join(("" if pol else "not ") + ast.unparse(t) for t, pol, _ in path))
    if len(decisions) != 1:
        ctx.error(f"{qual}: expected exactly one decision comparison, found {len(decisions)}")
        return None
    cmpv, path = decisions[0]
    for t, pol, _ in path:
        if "innovation_filtering" not in ast.unparse(t):
            ctx.oblige("CMP", f"{PY}:{qual}", "decision unconditional once enabled", False, file=PY, func=qual,
                       construct="guarded decision:" + ast.unparse(t),
                       msg=f"the decision comparison is only reached when `{ast.unparse(t)}` is {pol}")
    left, right, op = cmpv.left, cmpv.right, cmpv.op

    def matrix_side(v):
        return (isinstance(v, ScalV) and v.m is not None) or isinstance(v, ArrV)
    # orient the comparison as  NIS <op> bound  (the side that is a 1x1 matrix product is the NIS)
    if matrix_side(right) and not matrix_side(left):
        left, right, op = right, left, {"Lt": "Gt", "LtE": "GtE", "Gt": "Lt", "GtE": "LtE"}.get(op, op)
    nis = left.m if isinstance(left, ScalV) else (left.form if isinstance(left, ArrV) else None)
    thr = right.s if isinstance(right, ScalV) else None
    if nis is None or thr is None:
        ctx.error(f"{qual}: cannot derive normal forms of the compared quantities ({left!r} vs {right!r})")
        return None
    return nis, thr, op


def py_gate_forms(ctx: core.Ctx):
    """the Python filter's gate alone (shared with C05): NIS-FORM / THRESH-FORM / CMP of ExtendedKalmanFilter.remove_innovation"""
    for rid, text in (("NIS-FORM", "compared quantity == y^T.Inv(S).y (matrix products)"), ("THRESH-FORM", "bound == k*sqrt(2*m) + m"), ("CMP", "strict >")):
        ctx.rule(rid, text)
    sc = scenarios.PyEKF(ctx, run=("sensor_model",))
    qual = "ExtendedKalmanFilter.remove_innovation"
    d = py_decision(ctx, sc)
    y, Sinv = MatForm.atom("y"), MatForm.atom("Sinv", True)
    want_nis = y.T() * Sinv * y
    k, m = Scalar.atom("config.innovation_filtering"), Scalar.atom("|READ(k)|")
    want_thr = k * (Scalar.const(2) * m).sqrt() + m
    if d is None:
        ctx.error(f"{PY}:{qual}: the decision could not be derived")
        return
    nis, thr, op = d
    ctx.oblige("NIS-FORM", f"{PY}:{qual}", f"NIS = {nis!r}", nis == want_nis, file=PY, func=qual, construct="NIS",
               msg=f"normalised innovation is  {nis!r} ; required  {want_nis!r}")
    ctx.oblige("THRESH-FORM", f"{PY}:{qual}", f"threshold = {thr!r}", thr == want_thr, file=PY, func=qual, construct="threshold",
               msg=f"threshold is  {thr!r} ; required  {want_thr!r}")
    ctx.oblige("CMP", f"{PY}:{qual}", f"comparison {op}", op == "Gt", file=PY, func=qual, construct="comparison",
               msg=f"the reading is discarded when NIS {op} bound; required strictly greater")


def run(ctx: core.Ctx) -> int:
    for rid, text in (("NIS-FORM", "compared quantity == y^T.Inv(S).y (matrix products)"),
                      ("THRESH-FORM", "bound == k*sqrt(2*m) + m"), ("CMP", "strict >"),
                      ("SIBLINGS", "Python, C++ helper and generated template take the same decision"),
                      ("ARGS", "decision taken on (z - h(x), Inv(S)) of this update"),
                      ("EARLY", "rejection returns the inputs; innovation recorded before the decision"),
                      ("DISABLED", "disabled setting never discards"),
                      ("ARR-MM", "matrix products conform"), ("ARR-EW", "no elementwise product where a matrix product is specified")):
        ctx.rule(rid, text)
    sc = scenarios.PyEKF(ctx, run=("sensor_model",))
    it = sc.it
    qual = "ExtendedKalmanFilter.remove_innovation"
    d = py_decision(ctx, sc)
    scenarios.transfer(it, ctx, rules={"ARR-MM", "ARR-EW"}, funcs=[qual])
    y, Sinv = MatForm.atom("y"), MatForm.atom("Sinv", True)
    want_nis = y.T() * Sinv * y
    k, m = Scalar.atom("config.innovation_filtering"), Scalar.atom("|READ(k)|")
    want_thr = k * (Scalar.const(2) * m).sqrt() + m
    forms = {}
    if d is not None:
        nis, thr, op = d
        forms["python"] = (repr(nis), repr(thr), op)
        ctx.oblige("NIS-FORM", f"{PY}:{qual}", f"NIS = {nis!r}", nis == want_nis, file=PY, func=qual, construct="NIS",
                   msg=f"normalised innovation is  {nis!r} ; required  {want_nis!r}")
        ctx.oblige("THRESH-FORM", f"{PY}:{qual}", f"threshold = {thr!r}", thr == want_thr, file=PY, func=qual, construct="threshold",
                   msg=f"threshold is  {thr!r} ; required  {want_thr!r}")
        ctx.oblige("CMP", f"{PY}:{qual}", f"comparison {op}", op == "Gt", file=PY, func=qual, construct="comparison",
                   msg=f"decision uses {op}; the property requires strictly greater (NIS > bound)")
    # ---- ARGS + EARLY in sensor_model
    sq = "ExtendedKalmanFilter.sensor_model"
    P, Q, H = MatForm.atom("P", True), MatForm.atom("Q", True), MatForm.atom("H")
    z, h = MatForm.atom("z"), MatForm.atom("h(x)")
    S = H * P * H.T() + Q
    calls = [c for c in it.calls if c["callee"] == qual and "sensor_model" in c.get("where", "")]
    ctx.floor("ARGS", len(calls), 1, "calls of remove_innovation from sensor_model")
    for c in calls:
        a_in, a_s = c["args"].get("innovation"), c["args"].get("S_inv")
        fi = a_in.form if isinstance(a_in, ArrV) else None
        fs = a_s.form if isinstance(a_s, ArrV) else None
        ctx.oblige("ARGS", c["where"], f"innovation arg = {fi!r}", fi == z - h, file=PY, func=sq, construct="remove_innovation arg innovation",
                   msg=f"decision is taken on  {fi!r}  instead of  z - h(x)")
        ctx.oblige("ARGS", c["where"], f"S_inv arg = {fs!r}", fs == S.inv(), file=PY, func=sq, construct="remove_innovation arg S_inv",
                   msg=f"decision is taken with  {fs!r}  instead of  Inv(H.P.H^T + Q)")
    ev = scenarios.events_of(it, sq)
    rec = [e for e in ev if e["kind"] == "store" and "innovations" in e.get("target", "")]
    rets = [e for e in ev if e["kind"] == "return"]
    def decided(t, pol):
        """(mentions the decision, the decision's truth value on this path)"""
        while isinstance(t, ast.UnaryOp) and isinstance(t.op, ast.Not):
            t, pol = t.operand, not pol
        return "remove_innovation" in ast.unparse(t), pol
    early = [e for e in rets if any(decided(t, pol) == (True, True) for t, pol, _ in e["rpath"])]
    late = [e for e in rets if e not in early]
    if calls and not early:
        # the decision is taken (remove_innovation is called from sensor_model) but no path returns under it: a rejected reading is applied all the same
        ctx.oblige("EARLY", f"{PY}:{sq}", "a path returns when the decision says discard", False, file=PY, func=sq, construct="no rejection return",
                   msg="sensor_model calls remove_innovation but no return is taken when it says discard: rejected readings are applied like accepted ones")
    else:
        ctx.floor("EARLY", len(early), 1, "rejection return paths in sensor_model")
    for e in early:
        v = e["value"]
        okv = isinstance(v, TupleV) and len(v.items) == 2 and _is_input(v.items[0], "x") and _is_input(v.items[1], "P")
        ctx.oblige("EARLY", f"{PY}:{sq}", f"rejection returns {v!r}", okv, file=PY, func=sq, construct="rejection return",
                   msg=f"on rejection sensor_model returns {_short(v)}, not its own (state, covariance) arguments", line=e["line"])
        okr = any(r["seq"] < e["seq"] and not r["rpath"] for r in rec)
        ctx.oblige("EARLY", f"{PY}:{sq}", "innovation recorded before the rejection return", okr, file=PY, func=sq,
                   construct="record before decision", msg="the innovation is not recorded (unconditionally) before the rejection return",
                   line=e["line"])
        if len(e["rpath"]) != 1:
            ctx.oblige("EARLY", f"{PY}:{sq}", "rejection guarded only by the decision", False, file=PY, func=sq,
                       construct="rejection guard", msg="the rejection return is guarded by more than the filter decision: "
                       + " and ".join(ast.unparse(t) for t, _, _ in e["rpath"]), line=e["line"])
    for e in late:
        v = e["value"]
        if isinstance(v, TupleV) and len(v.items) == 2 and _is_input(v.items[0], "x") and _is_input(v.items[1], "P"):
            ctx.oblige("EARLY", f"{PY}:{sq}", "accepted readings are applied", False, file=PY, func=sq,
                       construct="accept path returns inputs", msg="a non-rejected path returns the inputs unchanged", line=e["line"])
    # ---- the arithmetic of the decision is double arithmetic: the functions it calls by bare name are math's / numpy's, as in the C++ helper
    ctx.rule("NUM-BIND", "sqrt (and any other function the decision calls by name) is the floating-point one of math / numpy, not a symbolic one")
    pym = it.p.modules["python"]
    ekf_ = core.need(core.find_class(pym, "ExtendedKalmanFilter"), "python.ExtendedKalmanFilter")
    rfn = core.need(core.find_func(ekf_, "remove_innovation"), "ExtendedKalmanFilter.remove_innovation")
    origin = {}
    for st in pym.body:
        if isinstance(st, ast.ImportFrom) and st.module:
            for a in st.names:
                origin[a.asname or a.name] = (st.module, st.lineno)
        elif isinstance(st, (ast.FunctionDef, ast.ClassDef)):
            origin[st.name] = ("<local>", st.lineno)
        elif isinstance(st, ast.Assign):
            for t in st.targets:
                if isinstance(t, ast.Name):
                    origin[t.id] = ("<assigned>", st.lineno)
    import builtins as _b
    from .. import normast as _nmb
    rfn_n = _nmb.inline_only(rfn, _nmb.class_resolver(pym, ekf_))
    called = sorted({c.func.id for c in ast.walk(rfn_n) if isinstance(c, ast.Call) and isinstance(c.func, ast.Name) and not hasattr(_b, c.func.id)})
    for nm in called:
        mod_, ln_ = origin.get(nm, ("?", None))
        okb = mod_.split(".")[0] in ("math", "numpy", "cmath") if nm in ("sqrt", "floor", "ceil", "fabs", "pow", "hypot", "exp", "log") else mod_ != "?"
        sym = mod_.split(".")[0] == "sympy"
        ctx.oblige("NUM-BIND", f"{PY}:{qual}", f"`{nm}` is {mod_}.{nm}", okb and not sym, file=PY, func=qual, construct=f"binding of {nm}",
                   msg=f"`{nm}` in the decision is `{mod_}.{nm}` (line {ln_}): the bound k*sqrt(2m)+m is then an exact symbolic expression compared in exact "
                       f"arithmetic, while the C++ helper and the generated filter compare doubles -- at the rounding boundary the Python filter decides differently",
                   line=ln_)
    # ---- the decision is a pure function of (innovation, S_inv, configured threshold)
    from .. import effects
    ctx.rule("PURE", "remove_innovation writes nothing (no cached state can leak from one reading / sensor to the next)")
    cls = core.need(core.find_class(it.p.modules["python"], "ExtendedKalmanFilter"), "python.ExtendedKalmanFilter")
    fn = core.need(core.find_func(cls, "remove_innovation"), "ExtendedKalmanFilter.remove_innovation")
    # private helpers (static bound computation) inlined, read-only properties read through: what the decision reads, however it is arranged
    from .. import normast as _nm2
    fn = _nm2.subst_properties(_nm2.inline_only(fn, _nm2.class_resolver(it.p.modules["python"], cls)), _nm2.property_exprs(cls))
    ws = effects.writes(fn)
    ctx.oblige("PURE", f"{PY}:{qual}", f"{len(ws)} write effect(s)", not ws, file=PY, func=qual,
               construct="writes:" + ";".join(sorted(w.kind + " " + w.target for w in ws)),
               msg="the decision function keeps state between calls: " + "; ".join(f"{w.kind} {w.target} (line {w.line})" for w in ws)
                   + " -- the bound depends on the reading dimension and must be computed per call",
               line=ws[0].line if ws else None)
    reads = sorted({n.attr for n in __import__("ast").walk(fn) if isinstance(n, __import__("ast").Attribute)
                    and isinstance(n.value, __import__("ast").Name) and n.value.id == "self"} - {"config"})
    ctx.oblige("PURE", f"{PY}:{qual}", f"reads self.{reads}", not reads, file=PY, func=qual, construct="reads:" + ",".join(reads),
               msg=f"the decision depends on filter state other than the configuration: self.{reads}")
    ctx.extra["forms"] = forms
    config_pass(ctx)
    # ---- C++ siblings (clang AST) -- filled in by cpp side
    try:
        from .. import cppforms
    except ImportError:
        cppforms = None
    if cppforms is not None:
        cppforms.c06(ctx, want_nis, want_thr, forms)
    else:
        ctx.error("C++ side of C06 not available")
    # no module-level / class-level mutable state shared between filters: one filter's construction or update must not reach another's (shared with C01)
    from . import c15 as _c15pp
    ctx.rule("PY-PURE", "no module-level / class-level mutable state shared between filters (shared with C01)")
    _c15pp.gen_pure(ctx, {"python": "py/formak/python.py", "common": "py/formak/common.py"}, rule="PY-PURE", floor=40)
    return core.finish(ctx, explanation="E3 normal forms of the three decision implementations + path/effect facts of the early return",
                       **META)


def config_pass(ctx: core.Ctx):
    """CONFIG-PASS: the configuration the caller gives reaches Config unaltered (a dict is converted by Config(**config) as is; None
    selects Config()).  Dropping / defaulting entries on the way changes documented settings such as innovation_filtering=None."""
    ctx.rule("CONFIG-PASS", "config given by the caller reaches Config(**config) / is used as is; only None selects the defaults")
    sites = [("py/formak/python.py", None, "compile"), ("py/formak/python.py", None, "compile_ekf"), ("py/formak/python.py", "Model", "__init__"),
             ("py/formak/cpp.py", None, "compile"), ("py/formak/cpp.py", None, "compile_ekf"), ("py/formak/cpp.py", "Model", "__init__"),
             ("py/formak/cpp.py", "ExtendedKalmanFilter", "__init__")]
    n = 0
    for rel, cls, name in sites:
        mod = ctx.parse(rel)
        scope = core.find_class(mod, cls) if cls else mod
        fn = core.find_func(scope, name) if scope is not None else None
        qual = f"{cls}.{name}" if cls else name
        if fn is None:
            ctx.error(f"anchor missing: {rel}:{qual}")
            continue
        if "config" not in [a.arg for a in fn.args.args + fn.args.kwonlyargs]:
            ctx.error(f"{rel}:{qual} has no `config` parameter")
            continue
        n += 1
        bad = []
        # a conversion helper (`config = _config_from(config)`, module level or in common.py) is read through
        from .. import normast as _nm3
        fn = _nm3.inline_only(fn, _nm3.class_resolver(mod, scope if cls else None))
        # names the converted configuration passes through on its way back into `config` (the result variable of an inlined helper)
        cfg_names = {"config"}
        for _ in range(3):
            for s_ in ast.walk(fn):
                if isinstance(s_, ast.Assign) and any(isinstance(t, ast.Name) and t.id in cfg_names for t in s_.targets) and isinstance(s_.value, ast.Name):
                    cfg_names.add(s_.value.id)
        cfg_names -= {a.arg for a in fn.args.args + fn.args.kwonlyargs if a.arg != "config"}
        for s_ in ast.walk(fn):
            if isinstance(s_, ast.Assign) and any(isinstance(t, ast.Name) and t.id in cfg_names for t in s_.targets):
                v = ast.unparse(s_.value).replace(" ", "")
                if v not in ("Config()", "Config(**config)") and v not in cfg_names:
                    bad.append((s_.lineno, f"config = {ast.unparse(s_.value)[:80]}"))
            if isinstance(s_, ast.Call) and isinstance(s_.func, ast.Attribute) and isinstance(s_.func.value, ast.Name) and s_.func.value.id == "config" \
                    and s_.func.attr in ("pop", "popitem", "clear", "update", "setdefault"):
                bad.append((s_.lineno, ast.unparse(s_)[:80]))
            if isinstance(s_, ast.Delete) and any("config" in ast.unparse(t) for t in s_.targets):
                bad.append((s_.lineno, ast.unparse(s_)[:80]))
            if isinstance(s_, ast.Assign) and any(isinstance(t, ast.Subscript) and ast.unparse(t.value) == "config" for t in s_.targets):
                bad.append((s_.lineno, ast.unparse(s_)[:80]))
        # the guards of the two conversions: defaults only for an absent config, Config(**config) only for a dict
        from .. import estflow, rtmodel, normast
        from .c17 import _paths
        fnn = normast.Normaliser(None).function(fn)
        for s_ in ast.walk(fnn):
            if isinstance(s_, ast.Assign) and any(isinstance(t, ast.Name) and t.id in cfg_names for t in s_.targets) and isinstance(s_.value, ast.Name):
                cfg_names.add(s_.value.id)
        for path in _paths(fnn.body):
            conds = []
            for e in path:
                if e[0] == "cond":
                    conds.append((rtmodel.py_expr(e[1]), e[2]))
                elif e[0] == "stmt" and isinstance(e[1], ast.Assign) and any(isinstance(t, ast.Name) and t.id in cfg_names for t in e[1].targets):
                    v = ast.unparse(e[1].value).replace(" ", "")
                    lits = estflow.literals(conds)
                    if v == "Config()":
                        okg = lits is not None and any(estflow.is_none_test(l, ("ref", "config")) for l in lits)
                        if not okg:
                            bad.append((e[1].lineno, "config = Config() not guarded by `config is None`"))
                    elif v == "Config(**config)":
                        okg = lits is not None and any(l[1] and l[0][0] == "call" and l[0][1] == "isinstance" and len(l[0][2]) == 2
                                                       and l[0][2][0] == ("ref", "config") and l[0][2][1] == ("ref", "dict") for l in lits)
                        if not okg:
                            bad.append((e[1].lineno, "config = Config(**config) not guarded by `isinstance(config, dict)`"))
        # the same for the calibration map: only an absent map is read as empty
        if "calibration_map" in [a.arg for a in fn.args.args + fn.args.kwonlyargs]:
            for path in _paths(fnn.body):
                conds = []
                for e in path:
                    if e[0] == "cond":
                        conds.append((rtmodel.py_expr(e[1]), e[2]))
                    elif e[0] == "stmt" and isinstance(e[1], ast.Assign) and any(isinstance(t, ast.Name) and t.id == "calibration_map" for t in e[1].targets):
                        v = ast.unparse(e[1].value).replace(" ", "")
                        lits = estflow.literals(conds)
                        okg = v in ("{}", "dict()") and lits is not None and any(estflow.is_none_test(l, ("ref", "calibration_map")) for l in lits)
                        if not okg:
                            bad.append((e[1].lineno, f"calibration_map = {v[:40]} (other than reading an absent map as empty)"))
        bad = sorted(set(bad))
        ctx.oblige("CONFIG-PASS", f"{rel}:{qual}", "config -> Config() | Config(**config) only", not bad, file=rel, func=qual,
                   construct="config alteration:" + ";".join(b[1] for b in bad),
                   msg=f"{qual} alters the caller's configuration / calibration before it is used ({'; '.join(b[1] + ' (line ' + str(b[0]) + ')' for b in bad)}): "
                       f"a documented setting such as innovation_filtering=None (filtering disabled), or the calibration the caller gave, is silently replaced",
                   line=bad[0][0] if bad else None)
    ctx.floor("CONFIG-PASS", n, 7, "config entry sites")
    from . import c17 as _c17cv
    _c17cv.config_verbatim(ctx, "CONFIG-PASS")


def _is_input(v, name):
    if isinstance(v, NInst):
        if v.origin == name:
            return True
        if v.arr is not None and v.arr.form is not None:
            return v.arr.form == MatForm.atom(name, name == "P")
    return False


def _short(v):
    if isinstance(v, TupleV):
        return "(" + ", ".join(_short(i) for i in v.items) + ")"
    if isinstance(v, NInst):
        if v.arr is not None and v.arr.form is not None:
            return f"{v.cls.name}[{v.arr.form!r}]"
        return f"{v.cls.name}[{v.origin}]"
    return repr(v)[:80]
