"""C12 -- every generated filter can be driven through the C++ managed runtime.

Compile-fail witnesses (E4): for each control x calibration valuation (x innovation filtering on/off; thorough: more
sensor sets) a translation unit is composed from (a) the declaration skeleton the generator emits, derived from the
current ast_fragments.py / cpp._header_body by partial evaluation with placeholder names and pairwise distinct sizes,
(b) the repo's real templates rendered statically, (c) the repo's real ManagedFilter.h and innovation_filtering.h,
(d) a dimension-typed stand-in for Eigen, (e) a driver: static_assert(ManagedFilter<EKF>::compatible), construction,
tick without readings, tick with one reading of every sensor, the same calls by hand, innovations<Reading>().
clang++ -fsyntax-only decides; a diagnostic is the violation.  "Returns what calling by hand returns" is C11's
TickPlan on the C++ overloads (re-checked here on the no-reading and reading overloads) plus Reading::sensor_model's
body delegating to impl.sensor_model(state[, calibration], *this).
"""
from concurrent.futures import ThreadPoolExecutor

from .. import core, witness, minieval
from . import c10, c11

META = dict(level="other",
            trusted_base=["clang++-14 type checker", "the stand-in Eigen enforces exactly Eigen's fixed-size dimension rules",
                          "fv.minieval's printer mirrors ast_tools' output for the node kinds used (pinned by the passing ast_test suite)"],
            assumptions=["sympy-printed function bodies are not part of a witness (C02)", "linking / real Eigen are not decided"])


def valuations(tier):
    out = []
    for ctl in (False, True):
        for cal in (False, True):
            for flt in (True, False):
                out.append(witness.Valuation(ctl, cal, flt))
            out.append(witness.Valuation(ctl, cal, True, sensors=()))          # "for any number of sensors": none at all
    if tier == "thorough":
        for ctl in (False, True):
            for cal in (False, True):
                out.append(witness.Valuation(ctl, cal, False, sensors=()))
                out.append(witness.Valuation(ctl, cal, True, sensors=(("gamma", 2),), n_state=1, n_control=1, n_calib=1))
                out.append(witness.Valuation(ctl, cal, False, sensors=(("a", 1), ("b", 2), ("c", 6)), n_state=7, n_control=3, n_calib=2))
    return out


def run(ctx: core.Ctx) -> int:
    ctx.rule("WITNESS", "the witness TU of the valuation type-checks (compatible, construct, tick, tick with readings, by-hand calls)")
    ctx.rule("DELEGATE", "Reading::sensor_model(impl, state[, calibration]) returns impl.sensor_model(state[, calibration], *this)")
    ctx.rule("MAG", "the configured max step reaches Tag::max_dt_sec losslessly (compatible requires max_dt_sec > 0)")
    w = witness.Witness(ctx)
    vals = valuations(ctx.tier)
    results = []

    def one(v):
        try:
            return v, w.compile(v)
        except core.AnalysisError as e:
            return v, e
    with ThreadPoolExecutor(8) as ex:
        results = list(ex.map(one, vals))
    samples = []
    ok_n = 0
    for v, res in results:
        if isinstance(res, core.AnalysisError):
            ctx.error(f"witness {v.tag}: {res}")
            continue
        rc, diag, src = res
        first = diag[0] if diag else {"where": "?", "message": "clang failed without a parsed diagnostic", "text": ""}
        where = first["where"]
        ctx.oblige("WITNESS", f"witness {v.tag}", f"clang++ -fsyntax-only rc={rc}", rc == 0, file=where.split(":")[0], func=v.tag,
                   construct=(first["message"] + " | " + first["text"])[:200],
                   msg=f"valuation {v.tag} does not type-check: {where}: {first['message']}" + (f"   [{first['text']}]" if first["text"] else "")
                       + (f"  (+{len(diag) - 1} more)" if len(diag) > 1 else ""))
        ok_n += rc == 0
        samples.append({"valuation": v.tag, "rc": rc, "tu_lines": src.count("\n"), "diagnostics": diag[:3]})
    ctx.floor("WITNESS", len(results), 12 if ctx.tier == "quick" else 24, "witness translation units")
    # DELEGATE: evaluated body of the Reading::sensor_model override, per calibration flag
    nd = 0
    for cal in (False, True):
        ev = w.evaluator()
        gen = witness.FakeGenerator(witness.Valuation(True, cal), w)
        header = ev.call_named("cpp", "_header_body", generator=gen)
        found = []

        def walk(nodes, cls=None):
            for nd_ in nodes or []:
                if not isinstance(nd_, minieval.Node):
                    continue
                if nd_.kind == "FunctionDef" and nd_.name == "sensor_model" and cls is not None and "override" in str(nd_.modifier or ""):
                    found.append((cls, nd_))
                for f in ("body", "namespaces", "templated"):
                    v = getattr(nd_, f, None)
                    if isinstance(v, list) and nd_.kind != "FunctionDef":
                        walk(v, nd_.name if nd_.kind == "ClassDef" else cls)
                    elif isinstance(v, minieval.Node):
                        walk([v], cls)
        walk(header)
        want = "impl.sensor_model(state, calibration, *this)" if cal else "impl.sensor_model(state, *this)"
        if len(found) != len(gen.reading_types()):
            ctx.error(f"{witness.FRAG}: {len(found)} `sensor_model ... override` definitions in the derived header for {len(gen.reading_types())} reading types")
        for cls_, fd in found:
            nd += 1
            got = [str(b.value) for b in (fd.body or []) if isinstance(b, minieval.Node) and b.kind == "Return"]
            okd = len(fd.body or []) == 1 and [g.replace(" ", "") for g in got] == [want.replace(" ", "")]
            ctx.oblige("DELEGATE", f"{witness.FRAG}:{cls_}::sensor_model [cal={cal}]", f"returns {got}", okd,
                       file=witness.FRAG, func="Reading", construct=f"delegate cal={cal}",
                       msg=f"{cls_}::sensor_model returns {got}; required `{want}` (the update of this very reading on the given state)")
    ctx.floor("DELEGATE", nd, 2, "Reading::sensor_model bodies")
    # FLAG-DEF: which of the four control x calibration shapes is generated is decided by "has at least one control / calibration symbol"
    from .. import estflow, rtmodel
    import ast as _ast
    ctx.rule("FLAG-DEF", "enable_control() <=> control_size > 0 and enable_calibration() <=> calibration_size > 0, in both generator classes")
    nfd = 0
    for cname in ("Model", "ExtendedKalmanFilter"):
        c = core.find_class(w.cpp, cname)
        for meth, fld in (("enable_control", "control_size"), ("enable_calibration", "calibration_size")):
            fn = core.find_func(c, meth) if c is not None else None
            if fn is None:
                ctx.error(f"anchor missing: cpp.{cname}.{meth}")
                continue
            rets = [r for r in _ast.walk(fn) if isinstance(r, _ast.Return) and r.value is not None]
            okf = False
            if len(rets) == 1:
                lits = estflow.literals([(rtmodel.py_expr(rets[0].value), True)])
                okf = lits is not None and len(lits) == 1 and estflow.is_positive_test(
                    next(iter(lits)), lambda x, fld=fld: isinstance(x, tuple) and x and x[0] == "field" and x[2] == fld and x[1] == ("this",))
            nfd += 1
            ctx.oblige("FLAG-DEF", f"{witness.CPP}:{cname}.{meth}", f"returns `{_ast.unparse(rets[0].value) if rets else None}`", okf, file=witness.CPP,
                       func=f"{cname}.{meth}", construct=f"{meth} definition",
                       msg=f"{cname}.{meth} returns `{_ast.unparse(rets[0].value) if rets else None}`, not `self.{fld} > 0`: a model with exactly one (or with no) "
                           f"such symbol gets the wrong one of the four generated shapes", line=fn.lineno)
    ctx.floor("FLAG-DEF", nfd, 4, "enable_* definitions")
    c10.mag_gen(ctx)
    # "returns what calling the prediction and update functions by hand in the same order returns": the C++ step and
    # tick plans (C10 / C11 rules, C++ instantiations only)
    for rid, t in (("DIR", "C10"), ("TEMPLATE", "C10"), ("READ-ONLY", "C10/C11"), ("ORDER", "C11"), ("CONTROL", "C11")):
        ctx.rule(rid, f"see {t}")
    c10.cpp_part(ctx)
    c11.cpp_part(ctx, {})
    ctx.extra["witnesses"] = samples
    return core.finish(ctx, explanation="compile-fail witnesses: clang++ -fsyntax-only on TUs composed from the derived generator skeleton, "
                                        "the repo's templates and runtime headers, a dimension-typed Eigen stand-in and a driver",
                       samples=samples[:6], **META)
