"""C01 -- the compiled Python model computes exactly the user's symbolic state model.

Decided: the glue around sympy preserves name <-> slot binding, ordering and the temporaries protocol, for
every model at once:
  LAY-KEY    state / calibration / control are each sorted by symbol name; arglist = [dt] + state + calibration + control
  LAY-BUILD  the block is compiled over that arglist with statements [state_model[a] for a in sorted states];
             the frozen calibration vector is indexed by the sorted calibration symbols (not dict order)
  LAY-CALL   execute(dt, *state, *calibration_vector, *control) flattens to exactly the arglist
  LAY-ZIP    results are zipped with the sorted state list the statements were built from
  LAY-SLOT   results are bound by keyword str(symbol) into the State class whose layout is that list
  TMP-1, TMP-2, TMP-4, TRUST-SIG   (python.BasicBlock; shared with C08)
Not decided: that cse / simplify / lambdify preserve value (trusted base); floating-point accuracy.
"""
import ast

from .. import core, scenarios, tmprules
from ..values import *  # noqa

META = dict(level="other",
            trusted_base=["sympy.cse / simplify / lambdify preserve the value of an expression (default contracts)",
                          "lambdify binds positional arguments in list order; named_vector iteration yields rows in index order"],
            assumptions=["ast of python.py / common.py is the program that runs"])

F = "py/formak/python.py"


def seg(role, key="name"):
    return ("SORT", role, key)


def py_float_buffers(ctx: core.Ctx, py: ast.Module, F_: str):
    """PY-DTYPE: arrays that receive computed values are allocated as float arrays of a given shape -- never as `*_like` / copies of an input,
    whose dtype (an integer array handed to from_data) would silently truncate every stored result.  Shared with C19."""
    ctx.rule("PY-DTYPE", "result buffers are np.zeros/eye/empty(<shape>) (float64), not *_like(input) / astype of an input dtype")
    bad = []
    for c in ast.walk(py):
        if isinstance(c, ast.Call):
            f = ast.unparse(c.func)
            if f.split(".")[-1] in ("zeros_like", "empty_like", "ones_like", "full_like") and not any(
                    k.arg == "dtype" and ast.unparse(k.value) in ("float", "np.float64", "numpy.float64", "'float64'") for k in c.keywords):
                bad.append(c)
            if f.split(".")[-1] in ("zeros", "empty", "ones", "eye", "identity", "full") and f.split(".")[0] in ("np", "numpy"):
                for k in c.keywords:
                    if k.arg == "dtype" and ast.unparse(k.value) not in ("float", "np.float64", "numpy.float64", "'float64'", "np.double"):
                        bad.append(c)
    pos = ast.parse("b = np.zeros_like(state.data)")
    if not any(isinstance(c, ast.Call) and ast.unparse(c.func).endswith("zeros_like") for c in ast.walk(pos)):
        ctx.error("PY-DTYPE: built-in positive example not recognised")
    ctx.floors["PY-DTYPE"] = {"count": 1, "floor": 1, "what": "built-in positive example recognised; expected count in python.py is zero"}
    ctx.oblige("PY-DTYPE", F_, f"{len(bad)} result buffer(s) with an inherited / non-float dtype", not bad, file=F_, func="<module>",
               construct="dtype:" + ";".join(sorted(ast.unparse(c)[:40] for c in bad)),
               msg="a result buffer takes its dtype from an input or is not float: " + "; ".join(f"`{ast.unparse(c)[:60]}` (line {c.lineno})" for c in bad)
                   + " -- with an integer-typed input array every value stored into it is truncated",
               line=bad[0].lineno if bad else None)


def run(ctx: core.Ctx) -> int:
    for rid, t in (("LAY-KEY", "each role sorted by symbol name; arglist = [dt] + state + calibration + control"),
                   ("LAY-BUILD", "block statements follow the sorted states; calibration vector indexed by sorted calibration symbols"),
                   ("LAY-CALL", "execute() actuals == block arglist"), ("LAY-ZIP", "results zipped with the sorted state list"),
                   ("LAY-SLOT", "results bound by name into the State layout"),
                   ("TMP-1", "python prefix/body lambdify protocol"), ("TMP-2", "python execute protocol"),
                   ("TMP-4", "CSE flag gates only cse() and simplify()"), ("TRUST-SIG", "trusted sympy call signatures")):
        ctx.rule(rid, t)
    sc = scenarios.PyEKF(ctx, run=("model",))
    it = sc.it
    m = sc.ekf.attrs["_state_model"]
    a = m.attrs
    S, C, K = Layout((seg("STATE"),)), Layout((seg("CONTROL"),)), Layout((seg("CALIB"),))
    DT = Layout((("DT",),))
    q = "Model.__init__"
    for attr, want in (("arglist_state", S), ("arglist_calibration", K), ("arglist_control", C), ("arglist", DT + S + K + C)):
        v = a.get(attr)
        ok = isinstance(v, SeqV) and v.layout == want
        ctx.oblige("LAY-KEY", f"{F}:{q}", f"self.{attr} : {v!r}", ok, file=F, func=q, construct=f"self.{attr}",
                   msg=f"Model.{attr} is {v!r}; required layout {want}")
    for attr, lay in (("State", S), ("Control", C), ("Calibration", K)):
        v = a.get(attr)
        ok = isinstance(v, NCls) and v.kind == "vec" and v.layout == lay
        ctx.oblige("LAY-KEY", f"{F}:{q}", f"self.{attr} : {v!r}", ok, file=F, func=q, construct=f"self.{attr}",
                   msg=f"Model.{attr} is {v!r}; required a named vector over {lay}")
    blk = a.get("_impl")
    ok = isinstance(blk, BlockV) and blk.formals == DT + S + K + C and blk.outputs == S
    ctx.oblige("LAY-BUILD", f"{F}:{q}", f"self._impl : {blk!r}", ok, file=F, func=q, construct="self._impl",
               msg=f"the model block is {blk!r}; required formals {DT + S + K + C} and one statement per sorted state {S}")
    cv = a.get("calibration_vector")
    ok = isinstance(cv, ArrV) and cv.rows == K and cv.cols == ONE
    ctx.oblige("LAY-BUILD", f"{F}:{q}", f"self.calibration_vector : {cv!r}", ok, file=F, func=q, construct="self.calibration_vector",
               msg=f"the frozen calibration vector is {cv!r}; required a column indexed by the sorted calibration symbols {K}")
    scenarios.transfer(it, ctx, rules={"LAY-CALL", "LAY-ZIP", "LAY-SLOT"}, funcs=["Model.model"])
    r = sc.results["model"]
    ok = isinstance(r, NInst) and r.cls.layout == S
    ctx.oblige("LAY-SLOT", f"{F}:Model.model", f"returns {r!r}", ok, file=F, func="Model.model", construct="return",
               msg=f"Model.model returns {r!r}; required a State over {S}")
    ctx.floor("LAY-CALL", scenarios.count(it, "LAY-CALL", "Model.model"), 1, "execute() site in Model.model")
    # however the results are carried into the State (keywords by name, or a slot-by-slot fill of a column): every output meets the slot of its name
    raw = next((c_["result"] for c_ in it.calls if c_["callee"] == "Model.model" and "result" in c_), r)      # before the result is given its opaque name
    by_kw = isinstance(raw, NInst) and raw.origin == "constructed" and scenarios.count(it, "LAY-SLOT", "Model.model") >= 1
    by_fill = isinstance(raw, NInst) and raw.origin == "from_data" and raw.arr is not None and isinstance(raw.arr.rows, Layout) and raw.arr.rows.unprime() == S
    if not (by_kw or by_fill) and ok:
        ctx.error(f"{F}:Model.model: how the block outputs reach the returned State is not an enumerated idiom ({r!r})")
    for u in it.undecided_sites:
        ctx.note(f"undecided: {u}")
    py = it.p.modules["python"]
    tmprules.check_python_block(ctx, py)
    # compiling is a function of the definition alone: no module-level caches (a cached block compiled for another argument layout
    # binds inputs to the wrong symbols), and the user's expressions are not rewritten on the way to BasicBlock
    from . import c15 as _c15
    ctx.rule("PY-PURE", "python.py / common.py keep no module-level mutable state written by functions")
    _c15.gen_pure(ctx, {"python": F, "common": "py/formak/common.py"}, rule="PY-PURE", floor=40)
    ctx.rule("PY-NO-REWRITE", "the Python back-end passes the user's expressions to cse/simplify/lambdify unrewritten (no subs / xreplace / rewrite / symbol re-creation)")
    rewrites = []
    for c in ast.walk(py):
        if isinstance(c, ast.Call) and isinstance(c.func, ast.Attribute) and c.func.attr in ("subs", "xreplace", "replace", "rewrite", "doit", "expand", "evalf") \
                and not (isinstance(c.func.value, ast.Constant)) and "str" not in ast.unparse(c.func.value)[:4]:
            if c.func.attr == "replace" and (not c.args or isinstance(c.args[0], ast.Constant)):
                continue        # str.replace
            rewrites.append(c)
    pos = ast.parse("e = symbolic_model.state_model[a].subs(symbolic_model.dt, Symbol('dt', positive=True))")
    fired = any(isinstance(c, ast.Call) and isinstance(c.func, ast.Attribute) and c.func.attr == "subs" for c in ast.walk(pos))
    if not fired:
        ctx.error("PY-NO-REWRITE: built-in positive example not recognised")
    ctx.floors["PY-NO-REWRITE"] = {"count": 1, "floor": 1, "what": "built-in positive example recognised; expected count in python.py is zero"}
    ctx.oblige("PY-NO-REWRITE", F, f"{len(rewrites)} expression-rewriting call(s) in python.py", not rewrites, file=F, func="<module>",
               construct="rewrites:" + ";".join(sorted(ast.unparse(c.func)[-40:] for c in rewrites)),
               msg="the Python back-end rewrites the user's expressions before compiling them: "
                   + "; ".join(f"`{ast.unparse(c)[:70]}` (line {c.lineno})" for c in rewrites)
                   + " -- e.g. substituting a symbol that carries assumptions changes what Abs / sqrt / sign evaluate to",
               line=rewrites[0].lineno if rewrites else None)
    py_float_buffers(ctx, py, F)
    return core.finish(ctx, explanation="E2 layout interpretation of python.Model + symbolic evaluation of python.BasicBlock "
                                        "against the temporaries protocol", **META)
