"""C01 -- the compiled Python model computes exactly the user's symbolic state model.

Decided: the glue around sympy preserves name <-> slot binding, ordering and the temporaries protocol, for
every model at once:
  LAY-KEY    state / calibration / control are each sorted by symbol name; arglist = [dt] + state + calibration + control
  LAY-BUILD  the block is compiled over that arglist with statements [state_model[a] for a in sorted states];
             the frozen calibration vector is indexed by the sorted calibration symbols (not dict order)
  LAY-CALL   execute(dt, *state, *calibration_vector, *control) flattens to exactly the arglist
  LAY-ZIP    results are zipped with the sorted state list the statements were built from
  LAY-SLOT   results are bound by keyword str(symbol) into the State class whose layout is that list
  TMP-1, TMP-2, TMP-4, TRUST-SIG   (python.BasicBlock; shared with C08)
Not decided: that cse / simplify / lambdify preserve value (trusted base); floating-point accuracy.
"""
from .. import core, scenarios, tmprules
from ..values import *  # noqa

META = dict(level="other",
            trusted_base=["sympy.cse / simplify / lambdify preserve the value of an expression (default contracts)",
                          "lambdify binds positional arguments in list order; named_vector iteration yields rows in index order"],
            assumptions=["ast of python.py / common.py is the program that runs"])

F = "py/formak/python.py"


def seg(role, key="name"):
    return ("SORT", role, key)


def run(ctx: core.Ctx) -> int:
    for rid, t in (("LAY-KEY", "each role sorted by symbol name; arglist = [dt] + state + calibration + control"),
                   ("LAY-BUILD", "block statements follow the sorted states; calibration vector indexed by sorted calibration symbols"),
                   ("LAY-CALL", "execute() actuals == block arglist"), ("LAY-ZIP", "results zipped with the sorted state list"),
                   ("LAY-SLOT", "results bound by name into the State layout"),
                   ("TMP-1", "python prefix/body lambdify protocol"), ("TMP-2", "python execute protocol"),
                   ("TMP-4", "CSE flag gates only cse() and simplify()"), ("TRUST-SIG", "trusted sympy call signatures")):
        ctx.rule(rid, t)
    sc = scenarios.PyEKF(ctx, run=("model",))
    it = sc.it
    m = sc.ekf.attrs["_state_model"]
    a = m.attrs
    S, C, K = Layout((seg("STATE"),)), Layout((seg("CONTROL"),)), Layout((seg("CALIB"),))
    DT = Layout((("DT",),))
    q = "Model.__init__"
    for attr, want in (("arglist_state", S), ("arglist_calibration", K), ("arglist_control", C), ("arglist", DT + S + K + C)):
        v = a.get(attr)
        ok = isinstance(v, SeqV) and v.layout == want
        ctx.oblige("LAY-KEY", f"{F}:{q}", f"self.{attr} : {v!r}", ok, file=F, func=q, construct=f"self.{attr}",
                   msg=f"Model.{attr} is {v!r}; required layout {want}")
    for attr, lay in (("State", S), ("Control", C), ("Calibration", K)):
        v = a.get(attr)
        ok = isinstance(v, NCls) and v.kind == "vec" and v.layout == lay
        ctx.oblige("LAY-KEY", f"{F}:{q}", f"self.{attr} : {v!r}", ok, file=F, func=q, construct=f"self.{attr}",
                   msg=f"Model.{attr} is {v!r}; required a named vector over {lay}")
    blk = a.get("_impl")
    ok = isinstance(blk, BlockV) and blk.formals == DT + S + K + C and blk.outputs == S
    ctx.oblige("LAY-BUILD", f"{F}:{q}", f"self._impl : {blk!r}", ok, file=F, func=q, construct="self._impl",
               msg=f"the model block is {blk!r}; required formals {DT + S + K + C} and one statement per sorted state {S}")
    cv = a.get("calibration_vector")
    ok = isinstance(cv, ArrV) and cv.rows == K and cv.cols == ONE
    ctx.oblige("LAY-BUILD", f"{F}:{q}", f"self.calibration_vector : {cv!r}", ok, file=F, func=q, construct="self.calibration_vector",
               msg=f"the frozen calibration vector is {cv!r}; required a column indexed by the sorted calibration symbols {K}")
    scenarios.transfer(it, ctx, rules={"LAY-CALL", "LAY-ZIP", "LAY-SLOT"}, funcs=["Model.model"])
    r = sc.results["model"]
    ok = isinstance(r, NInst) and r.cls.layout == S
    ctx.oblige("LAY-SLOT", f"{F}:Model.model", f"returns {r!r}", ok, file=F, func="Model.model", construct="return",
               msg=f"Model.model returns {r!r}; required a State over {S}")
    ctx.floor("LAY-CALL", scenarios.count(it, "LAY-CALL", "Model.model"), 1, "execute() site in Model.model")
    ctx.floor("LAY-ZIP", scenarios.count(it, "LAY-ZIP", "Model.model"), 1, "zip in Model.model")
    ctx.floor("LAY-SLOT", scenarios.count(it, "LAY-SLOT", "Model.model"), 1, "keyword construction of State in Model.model")
    for u in it.undecided_sites:
        ctx.note(f"undecided: {u}")
    py = it.p.modules["python"]
    tmprules.check_python_block(ctx, py)
    return core.finish(ctx, explanation="E2 layout interpretation of python.Model + symbolic evaluation of python.BasicBlock "
                                        "against the temporaries protocol", **META)
