"""C01 -- the compiled Python model computes exactly the user's symbolic state model.

Decided: the glue around sympy preserves name <-> slot binding, ordering and the temporaries protocol, for
every model at once:
  LAY-KEY    state / calibration / control are each sorted by symbol name; arglist = [dt] + state + calibration + control
  LAY-BUILD  the block is compiled over that arglist with statements [state_model[a] for a in sorted states];
             the frozen calibration vector is indexed by the sorted calibration symbols (not dict order)
  LAY-CALL   execute(dt, *state, *calibration_vector, *control) flattens to exactly the arglist
  LAY-ZIP    results are zipped with the sorted state list the statements were built from
  LAY-SLOT   results are bound by keyword str(symbol) into the State class whose layout is that list
  TMP-1, TMP-2, TMP-4, TRUST-SIG   (python.BasicBlock; shared with C08)
Not decided: that cse / simplify / lambdify preserve value (trusted base); floating-point accuracy.
"""
import ast

from .. import core, scenarios, tmprules
from ..values import *  # noqa

META = dict(level="other",
            trusted_base=["sympy.cse / simplify / lambdify preserve the value of an expression (default contracts)",
                          "lambdify binds positional arguments in list order; named_vector iteration yields rows in index order"],
            assumptions=["ast of python.py / common.py is the program that runs"])

F = "py/formak/python.py"


def seg(role, key="name"):
    return ("SORT", role, key)


def late_binding(ctx: core.Ctx, py: ast.Module, F_: str):
    """LATE-BIND: a lambda built once per element of a comprehension / loop and kept (it is the element, a dict value, appended, stored) must
    not read the iteration variable as a free variable: all the kept lambdas then see its LAST value.  (`{n: lambda v: 1/f(v) for n, f in T}`
    gives every name the last f.)  Binding it as a default argument (`lambda v, f=f: ...`) is the accepted idiom.
    MOD-TABLE: the user-function table handed to lambdify by default defines sec / csc / cot as the reciprocals of cos / sin / tan."""
    ctx.rule("LATE-BIND", "lambdas kept from a comprehension / loop do not capture the iteration variable by reference")
    ctx.rule("MOD-TABLE", "the default lambdify function table defines each name as the function of that name")
    n = 0

    def free_reads(lam: ast.Lambda):
        own = {a.arg for a in lam.args.posonlyargs + lam.args.args + lam.args.kwonlyargs}
        if lam.args.vararg:
            own.add(lam.args.vararg.arg)
        if lam.args.kwarg:
            own.add(lam.args.kwarg.arg)
        return {x.id for x in ast.walk(lam.body) if isinstance(x, ast.Name) and isinstance(x.ctx, ast.Load) and x.id not in own}
    for comp in ast.walk(py):
        if isinstance(comp, (ast.ListComp, ast.SetComp, ast.DictComp, ast.GeneratorExp)):
            targets = {x.id for g in comp.generators for x in ast.walk(g.target) if isinstance(x, ast.Name)}
            parts = [comp.key, comp.value] if isinstance(comp, ast.DictComp) else [comp.elt]
            for part in parts:
                for lam in [x for x in ast.walk(part) if isinstance(x, ast.Lambda)]:
                    n += 1
                    cap = free_reads(lam) & targets
                    ctx.oblige("LATE-BIND", f"{F_}:{getattr(comp, 'lineno', '?')}", f"lambda kept from a comprehension reads {sorted(free_reads(lam))}", not cap,
                               file=F_, func="<module>", construct="late binding: " + ",".join(sorted(cap)),
                               msg=f"`{ast.unparse(lam)[:70]}` is built once per element of a comprehension and reads the iteration variable(s) {sorted(cap)} "
                                   f"when it is CALLED: every kept lambda sees their last value", line=lam.lineno)
        elif isinstance(comp, ast.For):
            targets = {x.id for x in ast.walk(comp.target) if isinstance(x, ast.Name)}
            for st in ast.walk(comp):
                kept = None
                if isinstance(st, ast.Assign) and any(isinstance(t, (ast.Subscript, ast.Attribute)) for t in st.targets):
                    kept = st.value
                elif isinstance(st, ast.Call) and isinstance(st.func, ast.Attribute) and st.func.attr in ("append", "setdefault", "update", "add", "insert"):
                    kept = st
                if kept is None:
                    continue
                for lam in [x for x in ast.walk(kept) if isinstance(x, ast.Lambda)]:
                    n += 1
                    cap = free_reads(lam) & targets
                    ctx.oblige("LATE-BIND", f"{F_}:{comp.lineno}", f"lambda kept from a loop reads {sorted(free_reads(lam))}", not cap, file=F_, func="<module>",
                               construct="late binding (loop): " + ",".join(sorted(cap)),
                               msg=f"`{ast.unparse(lam)[:70]}` is kept from a loop and reads the loop variable(s) {sorted(cap)} when it is called: every kept "
                                   f"lambda sees their last value", line=lam.lineno)
    # the default function table
    want = {"sec": "1.0/np.cos(v)", "csc": "1.0/np.sin(v)", "cot": "1.0/np.tan(v)"}
    tab = next((s_.value for s_ in py.body if isinstance(s_, ast.Assign) and any(isinstance(t, ast.Name) and t.id == "DEFAULT_MODULES" for t in s_.targets)), None)
    if tab is None:
        ctx.note("MOD-TABLE: no module-level DEFAULT_MODULES")
        return
    dicts = [d for d in ast.walk(tab) if isinstance(d, ast.Dict)]
    for d in dicts:
        for k, v in zip(d.keys, d.values):
            if not (isinstance(k, ast.Constant) and isinstance(k.value, str) and isinstance(v, ast.Lambda) and len(v.args.args) == 1):
                ctx.error(f"{F_}: DEFAULT_MODULES entry `{ast.unparse(k) if k else '**'}` is not `name: lambda v: <expr>` (cannot be judged)")
                continue
            p0 = v.args.args[0].arg

            class RN(ast.NodeTransformer):
                def visit_Name(self, n_):
                    return ast.copy_location(ast.Name("v", n_.ctx), n_) if n_.id == p0 else n_
            import copy as _copy
            body = ast.unparse(RN().visit(_copy.deepcopy(v.body))).replace(" ", "")
            if k.value not in want:
                ctx.error(f"{F_}: DEFAULT_MODULES defines `{k.value}`, a function this check has no definition for (trusted base left)")
                continue
            ok = body in (want[k.value], want[k.value].replace("1.0/", "1/"), want[k.value].replace("1.0/", "1.0/(") + ")")
            ctx.oblige("MOD-TABLE", f"{F_}:DEFAULT_MODULES", f"{k.value}(v) = {body}", ok, file=F_, func="<module>", construct=f"default function {k.value}",
                       msg=f"the default lambdify table defines {k.value}(v) as `{body}`; required `{want[k.value]}`", line=v.lineno)
    if not dicts:
        # built by a comprehension / call: LATE-BIND above judges the lambdas; the entries themselves cannot be read off
        ctx.note("MOD-TABLE: DEFAULT_MODULES holds no dict literal; its entries are judged by LATE-BIND only")


def py_once(ctx: core.Ctx, py: ast.Module, F_: str):
    """PY-ONCE: Model.model is ONE evaluation of the compiled state model at the caller's (dt, state, control).  The compiled block is executed
    exactly once, outside any loop, with the method's own `dt` first and its own state / control starred in -- a model() that cuts dt into
    sub-steps, iterates, or evaluates at a modified time step returns something other than the user's f(dt, x, u)."""
    ctx.rule("PY-ONCE", "Model.model executes the compiled block exactly once, outside any loop, at the caller's own dt, state and control")
    cls = core.find_class(py, "Model")
    fn = core.find_func(cls, "model") if cls is not None else None
    if fn is None:
        ctx.error("anchor missing: python.Model.model")
        return
    from .. import normast
    fn = normast.inline_only(fn, normast.class_resolver(py, cls, module_funcs="small"))
    params = [a.arg for a in fn.args.args if a.arg != "self"]
    if len(params) < 2:
        ctx.error(f"python.Model.model parameters {params}: expected (dt, state[, control])")
        return
    par = {}
    for p_ in ast.walk(fn):
        for ch in ast.iter_child_nodes(p_):
            par[ch] = p_
    execs = [c for c in ast.walk(fn) if isinstance(c, ast.Call) and isinstance(c.func, ast.Attribute) and c.func.attr == "execute"]
    rebound = {t.id for a in ast.walk(fn) if isinstance(a, (ast.Assign, ast.AugAssign, ast.For, ast.comprehension))
               for t in ast.walk(a.targets[0] if isinstance(a, ast.Assign) else a.target) if isinstance(t, ast.Name)}
    # `if control is None: control = <default>` is the default-argument idiom, not a replacement of what the caller gave
    for i_ in ast.walk(fn):
        if isinstance(i_, ast.If) and isinstance(i_.test, ast.Compare) and len(i_.test.ops) == 1 and isinstance(i_.test.ops[0], ast.Is) \
                and isinstance(i_.test.left, ast.Name) and isinstance(i_.test.comparators[0], ast.Constant) and i_.test.comparators[0].value is None:
            nm = i_.test.left.id
            inside = [a for b_ in i_.body for a in ast.walk(b_) if isinstance(a, ast.Assign) and any(isinstance(t, ast.Name) and t.id == nm for t in a.targets)]
            allb = [a for a in ast.walk(fn) if isinstance(a, ast.Assign) and any(isinstance(t, ast.Name) and t.id == nm for t in a.targets)]
            if inside and len(inside) == len(allb):
                rebound.discard(nm)
    where = f"{F_}:Model.model"
    ok = len(execs) == 1
    why = f"{len(execs)} execute() call(s)"
    if ok:
        c = execs[0]
        node, in_loop = c, False
        while node in par:
            node = par[node]
            if isinstance(node, (ast.For, ast.While)):
                in_loop = True
            if isinstance(node, (ast.ListComp, ast.GeneratorExp, ast.DictComp, ast.SetComp)) and any(
                    any(x is c for x in ast.walk(e_)) for e_ in ([node.elt] if not isinstance(node, ast.DictComp) else [node.key, node.value])):
                in_loop = True          # evaluated once per element of the comprehension (being its outermost iterable is fine)
        a0 = c.args[0] if c.args else None
        dt_ok = isinstance(a0, ast.Name) and a0.id == params[0] and params[0] not in rebound
        starred = [ast.unparse(a.value) for a in c.args[1:] if isinstance(a, ast.Starred)]
        st_ok = params[1] in starred and params[1] not in rebound and (len(params) < 3 or (params[2] in starred and params[2] not in rebound))
        # every value the method returns comes after that evaluation: the call is not under a condition, and no `return` precedes it
        node, conditional = c, False
        while node in par:
            child, node = node, par[node]
            if isinstance(node, (ast.If, ast.IfExp, ast.ExceptHandler, ast.BoolOp, ast.Match if hasattr(ast, "Match") else ast.If)):
                conditional = True
            if isinstance(node, ast.Try) and child not in node.body:
                conditional = True
        early = [r for r in core.own_walk(fn) if isinstance(r, ast.Return) and (r.lineno, r.col_offset) < (c.lineno, c.col_offset)]
        ret_ok = not conditional and not early
        ok = not in_loop and dt_ok and st_ok and ret_ok
        why = ("inside a loop; " if in_loop else "") + ("" if ret_ok else (f"a `return` at line {early[0].lineno} leaves before the compiled model is evaluated; " if early
                                                                           else "the evaluation is under a condition; ")) + ("" if dt_ok else f"time step argument `{ast.unparse(a0) if a0 is not None else None}` is not the caller's `{params[0]}`; ") + \
              ("" if st_ok else f"state / control actuals {starred} are not the caller's own {params[1:]}")
    ctx.oblige("PY-ONCE", where, f"execute({', '.join(ast.unparse(a) for a in execs[0].args) if execs else ''})", ok, file=F_, func="Model.model",
               construct="single evaluation", msg=f"Model.model does not evaluate the compiled model once at its own arguments: {why}",
               line=execs[0].lineno if execs else fn.lineno)


REWRITE_FUNCS = {"powdenest", "powsimp", "expand", "expand_trig", "expand_log", "expand_power_base", "expand_power_exp", "expand_mul", "expand_multinomial",
                 "expand_complex", "expand_func", "factor", "factor_terms", "cancel", "apart", "together", "collect", "rcollect", "radsimp", "ratsimp", "trigsimp",
                 "nsimplify", "posify", "logcombine", "sqrtdenest", "combsimp", "gammasimp", "besselsimp", "hypersimp", "refine", "signsimp", "separatevars",
                 "N", "series", "limit", "piecewise_fold", "fraction", "numer", "denom", "nfloat", "exptrigsimp", "fu", "TR8", "horner", "evalf", "simplify_logic",
                 "sympify", "parse_expr", "S", "unpolarify", "polarify", "real_root", "cbrt_denest", "rad_rationalize", "rationalize", "bottom_up", "use"}


def py_no_rewrite(ctx, py, F):
    """PY-NO-REWRITE (shared by C01 / C03 / C04 / C05): what is compiled is the user's expression (or its exact derivative): python.py applies no
    sympy rewriting to it outside the CSE gate."""
    ctx.rule("PY-NO-REWRITE", "the Python back-end passes the user's expressions to cse/simplify/lambdify unrewritten (no subs / xreplace / rewrite / symbol re-creation)")
    rewrites = []
    for c in ast.walk(py):
        if isinstance(c, ast.Call) and isinstance(c.func, ast.Attribute) and c.func.attr in ("subs", "xreplace", "replace", "rewrite", "doit", "expand", "evalf") \
                and not (isinstance(c.func.value, ast.Constant)) and "str" not in ast.unparse(c.func.value)[:4]:
            if c.func.attr == "replace" and (not c.args or isinstance(c.args[0], ast.Constant)):
                continue        # str.replace
            rewrites.append(c)
    # function-style rewriters imported from sympy (powdenest(e, polar=True), expand(e), cancel(e), nsimplify(e), posify(e), ...): simplify and cse
    # are the two the CSE flag allows (rule TMP-4 holds them to that gate)
    from_sympy = {}
    for n in ast.walk(py):
        if isinstance(n, ast.ImportFrom) and (n.module or "").split(".")[0] == "sympy":
            for a_ in n.names:
                from_sympy[a_.asname or a_.name] = a_.name
    for c in ast.walk(py):
        if not isinstance(c, ast.Call) or not c.args:
            continue
        f = c.func
        nm = from_sympy.get(f.id) if isinstance(f, ast.Name) else f.attr if isinstance(f, ast.Attribute) and isinstance(f.value, ast.Name) and f.value.id in ("sympy", "sp", "sym") else None
        if nm in REWRITE_FUNCS:
            rewrites.append(c)
    pos = ast.parse("e = symbolic_model.state_model[a].subs(symbolic_model.dt, Symbol('dt', positive=True))")
    fired = any(isinstance(c, ast.Call) and isinstance(c.func, ast.Attribute) and c.func.attr == "subs" for c in ast.walk(pos))
    if not fired:
        ctx.error("PY-NO-REWRITE: built-in positive example not recognised")
    ctx.floors["PY-NO-REWRITE"] = {"count": 1, "floor": 1, "what": "built-in positive example recognised; expected count in python.py is zero"}
    ctx.oblige("PY-NO-REWRITE", F, f"{len(rewrites)} expression-rewriting call(s) in python.py", not rewrites, file=F, func="<module>",
               construct="rewrites:" + ";".join(sorted(ast.unparse(c.func)[-40:] for c in rewrites)),
               msg="the Python back-end rewrites the user's expressions before compiling them: "
                   + "; ".join(f"`{ast.unparse(c)[:70]}` (line {c.lineno})" for c in rewrites)
                   + " -- e.g. substituting a symbol that carries assumptions changes what Abs / sqrt / sign evaluate to",
               line=rewrites[0].lineno if rewrites else None)


def sensor_calibration_vector(ctx, sc=None):
    """LAY-BUILD for the sensor side (shared by C05 / C13): every SensorModel's frozen calibration vector is a column indexed by the sorted
    calibration symbols -- the order its compiled block takes them in -- not by the order of the user's calibration_map"""
    F_ = "py/formak/python.py"
    ctx.rule("LAY-BUILD", "the frozen calibration vector of a (sensor) model is indexed by the sorted calibration symbols")
    if sc is None:
        sc = scenarios.PyEKF(ctx, run=("sensor_model",))
    K = Layout((seg("CALIB"),))
    smo = getattr(sc, "sensor_model_obj", None)
    cv = getattr(smo, "attrs", {}).get("calibration_vector") if smo is not None else None
    if cv is None:
        ctx.error("SensorModel.calibration_vector could not be derived")
        return
    if not isinstance(cv, ArrV):
        ctx.error(f"{F_}:SensorModel.__init__: self.calibration_vector evaluates to {cv!r}: how it is built is not an enumerated idiom (its order cannot be decided)")
        return
    ok = isinstance(cv, ArrV) and cv.rows == K and cv.cols == ONE
    ctx.oblige("LAY-BUILD", f"{F_}:SensorModel.__init__", f"self.calibration_vector : {cv!r}", ok, file=F_, func="SensorModel.__init__", construct="self.calibration_vector",
               msg=f"the sensor model's frozen calibration vector is {cv!r}; required a column indexed by the sorted calibration symbols {K} "
                   f"(its compiled block takes them in that order: another order binds calibration values to the wrong symbols)")


def py_stmt_source(ctx, py, F):
    """STMT-SOURCE: the statements handed to a compiled block are the user's expressions themselves, chosen by name -- never by their VALUE.  An
    element `model[a] or a`, `x if model[a] else y`, `model.get(a, fallback)` makes what is compiled depend on the truth value of a sympy
    expression (an update expression that is exactly zero is falsy) or silently supplies an expression the user never wrote."""
    ctx.rule("STMT-SOURCE", "block statements are the user's expressions selected by name: no truth-value test of an expression, no fallback expression")
    n = 0
    for c in ast.walk(py):
        if not (isinstance(c, ast.Call) and ast.unparse(c.func).split(".")[-1] == "BasicBlock"):
            continue
        for k in c.keywords:
            if k.arg != "statements":
                continue
            n += 1
            elts = [k.value.elt] if isinstance(k.value, (ast.ListComp, ast.GeneratorExp)) else (list(k.value.elts) if isinstance(k.value, (ast.List, ast.Tuple)) else [])
            bad = []
            for e in elts:
                for x in ast.walk(e):
                    if isinstance(x, ast.BoolOp) or isinstance(x, ast.IfExp):
                        bad.append(x)
                    elif isinstance(x, ast.Call) and isinstance(x.func, ast.Attribute) and x.func.attr in ("get", "setdefault", "pop") and len(x.args) + len(x.keywords) >= 2:
                        bad.append(x)
            ctx.oblige("STMT-SOURCE", f"{F}:{c.lineno}", f"statements=`{ast.unparse(k.value)[:60]}`", not bad, file=F, func="<block construction>",
                       construct="statement source:" + (ast.unparse(bad[0])[:50] if bad else "by name"), line=c.lineno,
                       msg=f"a compiled statement is chosen by `{ast.unparse(bad[0])[:70]}`: the truth value of the user's expression (zero is falsy) or a fallback "
                           f"decides what is compiled, so a state whose update is exactly 0 is compiled as something else" if bad else "")
    ctx.floor("STMT-SOURCE", n, 2, "BasicBlock(statements=...) construction sites in python.py")


def py_eval_pure(ctx: core.Ctx, py: ast.Module, F_: str):
    """EVAL-PURE: evaluating the compiled model writes nothing into the model object -- the returned State owns its storage.  A result built in a
    buffer kept on `self` (allocated once, filled per call, handed out through from_data) is the same array for every call: the State returned
    earlier changes when the model is evaluated again."""
    from .. import effects
    ctx.rule("EVAL-PURE", "Model.model / SensorModel.model write no instance state (the returned value does not alias a buffer kept on self)")
    n = 0
    for cname in ("Model", "SensorModel"):
        cls = core.find_class(py, cname)
        fn = core.find_func(cls, "model") if cls is not None else None
        if fn is None:
            continue
        n += 1
        ws = [w for w in effects.writes(fn) if w.target.split("[")[0].split(".")[0] == "self"]
        aliased = [ast.unparse(c)[:60] for c in ast.walk(fn) if isinstance(c, ast.Call) and isinstance(c.func, ast.Attribute) and c.func.attr == "from_data"
                   and c.args and isinstance(c.args[0], ast.Attribute) and isinstance(c.args[0].value, ast.Name) and c.args[0].value.id == "self"]
        ctx.oblige("EVAL-PURE", f"{F_}:{cname}.model", f"{len(ws)} write(s) to self, {len(aliased)} result(s) aliasing an attribute", not ws and not aliased, file=F_,
                   func=f"{cname}.model", construct="eval writes:" + ";".join(sorted(w.target for w in ws)) + ";".join(aliased),
                   msg=f"{cname}.model writes instance state ({'; '.join(f'{w.kind} {w.target} (line {w.line})' for w in ws)}"
                       f"{'; returns ' + ', '.join(aliased) if aliased else ''}): the value it returned for an earlier call is overwritten by the next one",
                   line=ws[0].line if ws else fn.lineno)
    ctx.floor("EVAL-PURE", n, 2, "model evaluation methods examined")


def py_float_buffers(ctx: core.Ctx, py: ast.Module, F_: str):
    """PY-DTYPE: arrays that receive computed values are allocated as float arrays of a given shape -- never as `*_like` / copies of an input,
    whose dtype (an integer array handed to from_data) would silently truncate every stored result.  Shared with C19."""
    ctx.rule("PY-DTYPE", "result buffers are np.zeros/eye/empty(<shape>) (float64), not *_like(input) / astype of an input dtype")
    bad = []
    for c in ast.walk(py):
        if isinstance(c, ast.Call):
            f = ast.unparse(c.func)
            if f.split(".")[-1] in ("zeros_like", "empty_like", "ones_like", "full_like") and not any(
                    k.arg == "dtype" and ast.unparse(k.value) in ("float", "np.float64", "numpy.float64", "'float64'") for k in c.keywords):
                bad.append(c)
            if f.split(".")[-1] in ("zeros", "empty", "ones", "eye", "identity", "full") and f.split(".")[0] in ("np", "numpy"):
                for k in c.keywords:
                    if k.arg == "dtype" and ast.unparse(k.value) not in ("float", "np.float64", "numpy.float64", "'float64'", "np.double"):
                        bad.append(c)
    pos = ast.parse("b = np.zeros_like(state.data)")
    if not any(isinstance(c, ast.Call) and ast.unparse(c.func).endswith("zeros_like") for c in ast.walk(pos)):
        ctx.error("PY-DTYPE: built-in positive example not recognised")
    ctx.floors["PY-DTYPE"] = {"count": 1, "floor": 1, "what": "built-in positive example recognised; expected count in python.py is zero"}
    ctx.oblige("PY-DTYPE", F_, f"{len(bad)} result buffer(s) with an inherited / non-float dtype", not bad, file=F_, func="<module>",
               construct="dtype:" + ";".join(sorted(ast.unparse(c)[:40] for c in bad)),
               msg="a result buffer takes its dtype from an input or is not float: " + "; ".join(f"`{ast.unparse(c)[:60]}` (line {c.lineno})" for c in bad)
                   + " -- with an integer-typed input array every value stored into it is truncated",
               line=bad[0].lineno if bad else None)


def run(ctx: core.Ctx) -> int:
    for rid, t in (("LAY-KEY", "each role sorted by symbol name; arglist = [dt] + state + calibration + control"),
                   ("LAY-BUILD", "block statements follow the sorted states; calibration vector indexed by sorted calibration symbols"),
                   ("LAY-CALL", "execute() actuals == block arglist"), ("LAY-ZIP", "results zipped with the sorted state list"),
                   ("LAY-SLOT", "results bound by name into the State layout"),
                   ("TMP-1", "python prefix/body lambdify protocol"), ("TMP-2", "python execute protocol"),
                   ("TMP-4", "CSE flag gates only cse() and simplify()"), ("TRUST-SIG", "trusted sympy call signatures")):
        ctx.rule(rid, t)
    sc = scenarios.PyEKF(ctx, run=("model",))
    it = sc.it
    m = sc.ekf.attrs["_state_model"]
    a = m.attrs
    S, C, K = Layout((seg("STATE"),)), Layout((seg("CONTROL"),)), Layout((seg("CALIB"),))
    DT = Layout((("DT",),))
    q = "Model.__init__"
    for attr, want in (("arglist_state", S), ("arglist_calibration", K), ("arglist_control", C), ("arglist", DT + S + K + C)):
        v = a.get(attr)
        ok = isinstance(v, SeqV) and v.layout == want
        ctx.oblige("LAY-KEY", f"{F}:{q}", f"self.{attr} : {v!r}", ok, file=F, func=q, construct=f"self.{attr}",
                   msg=f"Model.{attr} is {v!r}; required layout {want}")
    for attr, lay in (("State", S), ("Control", C), ("Calibration", K)):
        v = a.get(attr)
        ok = isinstance(v, NCls) and v.kind == "vec" and v.layout == lay
        ctx.oblige("LAY-KEY", f"{F}:{q}", f"self.{attr} : {v!r}", ok, file=F, func=q, construct=f"self.{attr}",
                   msg=f"Model.{attr} is {v!r}; required a named vector over {lay}")
    blk = a.get("_impl")
    ok = isinstance(blk, BlockV) and blk.formals == DT + S + K + C and blk.outputs == S
    ctx.oblige("LAY-BUILD", f"{F}:{q}", f"self._impl : {blk!r}", ok, file=F, func=q, construct="self._impl",
               msg=f"the model block is {blk!r}; required formals {DT + S + K + C} and one statement per sorted state {S}")
    cv = a.get("calibration_vector")
    ok = isinstance(cv, ArrV) and cv.rows == K and cv.cols == ONE
    ctx.oblige("LAY-BUILD", f"{F}:{q}", f"self.calibration_vector : {cv!r}", ok, file=F, func=q, construct="self.calibration_vector",
               msg=f"the frozen calibration vector is {cv!r}; required a column indexed by the sorted calibration symbols {K}")
    scenarios.transfer(it, ctx, rules={"LAY-CALL", "LAY-ZIP", "LAY-SLOT"}, funcs=["Model.model"])
    r = sc.results["model"]
    ok = isinstance(r, NInst) and r.cls.layout == S
    ctx.oblige("LAY-SLOT", f"{F}:Model.model", f"returns {r!r}", ok, file=F, func="Model.model", construct="return",
               msg=f"Model.model returns {r!r}; required a State over {S}")
    ctx.floor("LAY-CALL", scenarios.count(it, "LAY-CALL", "Model.model"), 1, "execute() site in Model.model")
    # however the results are carried into the State (keywords by name, or a slot-by-slot fill of a column): every output meets the slot of its name
    raw = next((c_["result"] for c_ in it.calls if c_["callee"] == "Model.model" and "result" in c_), r)      # before the result is given its opaque name
    by_kw = isinstance(raw, NInst) and raw.origin == "constructed" and scenarios.count(it, "LAY-SLOT", "Model.model") >= 1
    by_fill = isinstance(raw, NInst) and raw.origin == "from_data" and raw.arr is not None and isinstance(raw.arr.rows, Layout) and raw.arr.rows.unprime() == S
    if not (by_kw or by_fill) and ok:
        ctx.error(f"{F}:Model.model: how the block outputs reach the returned State is not an enumerated idiom ({r!r})")
    for u in it.undecided_sites:
        ctx.note(f"undecided: {u}")
    py = it.p.modules["python"]
    tmprules.check_python_block(ctx, py)
    # compiling is a function of the definition alone: no module-level caches (a cached block compiled for another argument layout
    # binds inputs to the wrong symbols), and the user's expressions are not rewritten on the way to BasicBlock
    from . import c15 as _c15
    ctx.rule("PY-PURE", "python.py / common.py keep no module-level mutable state written by functions")
    _c15.gen_pure(ctx, {"python": F, "common": "py/formak/common.py"}, rule="PY-PURE", floor=40)
    py_no_rewrite(ctx, py, F)
    py_stmt_source(ctx, py, F)
    py_float_buffers(ctx, py, F)
    py_eval_pure(ctx, py, F)
    py_once(ctx, py, F)
    late_binding(ctx, py, F)
    from . import c13 as _c13nv
    _c13nv.named_arrays(ctx, ("vec",))
    return core.finish(ctx, explanation="E2 layout interpretation of python.Model + symbolic evaluation of python.BasicBlock "
                                        "against the temporaries protocol", **META)
