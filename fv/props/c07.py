"""C07 -- the Python filter and the generated C++ filter agree step for step.

Decided (pairwise equality of normal forms + shared layouts; no value is computed):
  PRED-EQ    C++ process_model.cpp: covariance == G.P.G^T + V.M.V^T == Python's; state = ProcessModel::model on the same argument list
             as the Jacobian / noise calls (for every control x calibration valuation)
  UPD-EQ     C++ sensor_model.hpp: posterior state / covariance and the stored innovation have Python's normal forms
  DECIDE-EQ  the accept / reject decision (C06's NIS-FORM / THRESH-FORM / CMP / ARGS / EARLY on both sides)
  LAY-KEY    python.py and cpp.py give each role the same layout (sorted by the same key); readings in natural key order on both
             sides; hence a named field denotes the same slot on both sides (with genlayout's SLOT rules for the C++ text)
  WITNESS    the templates' calls pass arguments in the order the declared signatures have, and every product / sum / assignment
             conforms on the declared (dimension-typed) matrix types, for all four valuations
Not decided: values of the sympy-printed bodies (C01/C02 + trusted base); rounding.
"""
from concurrent.futures import ThreadPoolExecutor

from .. import core, cppforms, genlayout, scenarios, witness
from ..matform import MatForm, Scalar
from ..values import *  # noqa
from . import c06

META = dict(level="other",
            trusted_base=["clang++-14 front end / type checker", "numpy and Eigen implement the same matrix algebra",
                          "sympy lambdify / ccode print the same expression (C01/C02 glue checked separately)"],
            assumptions=["P, M, Q symmetric"])

A = cppforms.A
PY = "py/formak/python.py"


def run(ctx: core.Ctx) -> int:
    for rid, t in (("PRED-EQ", "prediction: same covariance normal form and same argument lists on both sides"),
                   ("UPD-EQ", "update: same posterior state / covariance / stored innovation normal forms"),
                   ("DECIDE-EQ", "accept/reject decision equal (forms, arguments, early return)"),
                   ("LAY-KEY", "each role has the same layout in python.py and cpp.py"),
                   ("WITNESS", "templates type-check against the generated declarations (4 valuations)")):
        ctx.rule(rid, t)
    prog = scenarios.program(ctx)
    sc = scenarios.PyEKF(ctx, prog)
    # ---- Python forms
    py = {}
    for r in sc.alts(sc.results["process_model"]):
        if isinstance(r, TupleV) and len(r.items) == 2 and isinstance(r.items[1], NInst) and r.items[1].arr is not None:
            py["pred_cov"] = r.items[1].arr.form
            py["pred_state"] = r.items[0].origin if isinstance(r.items[0], NInst) else None
    for r in sc.alts(sc.results["sensor_model"]):
        if isinstance(r, TupleV) and len(r.items) == 2:
            st, cov = r.items
            if isinstance(st, NInst) and st.arr is not None and st.arr.form is not None:
                py["upd_state"], py["upd_cov"] = st.arr.form, cov.arr.form if isinstance(cov, NInst) and cov.arr is not None else None
    rec = sc.ekf.attrs.get("innovations")
    v = rec.attrs.get("__fam__") if isinstance(rec, ObjV) else None
    py["innovation"] = v.form if isinstance(v, ArrV) else None
    for k in ("pred_cov", "upd_state", "upd_cov", "innovation"):
        if py.get(k) is None:
            ctx.error(f"python side: no normal form derived for {k}")
    w = witness.Witness(ctx)
    w.prefetch([witness.Valuation(ctl, cal) for ctl in (False, True) for cal in (False, True)] + [witness.Valuation(True, True, False)])
    n_pairs = 0
    for ctl in (False, True):
        for cal in (False, True):
            v = witness.Valuation(ctl, cal)
            rc, diag, _ = w.compile(v)
            first = diag[0] if diag else {"where": "?", "message": "", "text": ""}
            ctx.oblige("WITNESS", f"witness {v.tag}", f"rc={rc}", rc == 0, file=first["where"].split(":")[0], func=v.tag,
                       construct=(first["message"] + " | " + first["text"])[:200],
                       msg=f"valuation {v.tag} does not type-check: {first['where']}: {first['message']}   [{first['text']}]")
            gf = cppforms.generated_filter_forms(ctx, w, v)
            tplp, tpls = "py/formak/templates/process_model.cpp", "py/formak/templates/sensor_model.hpp"
            if "process" not in gf or not gf.get("sensor"):
                ctx.error(f"witness {v.tag}: generated process_model / sensor_model bodies not found in clang's AST")
                continue
            ev, params = gf["process"]
            for p in ev.problems:
                ctx.error(f"{tplp} [{v.tag}]: {p}")
            rets = [e for e in ev.events if e["kind"] == "return"]
            where = f"{tplp} [{v.tag}]"
            if len(rets) != 1 or not isinstance(rets[0]["value"], dict):
                ctx.error(f"{where}: expected a single `return {{state, covariance}}`")
            else:
                val = rets[0]["value"]
                n_pairs += 1
                if py.get("pred_cov") is None:
                    continue
                ctx.oblige("PRED-EQ", where, f"C++ covariance = {val.get('covariance')!r}", val.get("covariance") == py.get("pred_cov"), file=tplp,
                           func="process_model", construct="covariance form",
                           msg=f"generated C++ predicts covariance  {val.get('covariance')!r} ; Python predicts  {py.get('pred_cov')!r}")
                ctx.oblige("PRED-EQ", where, f"C++ state = {val.get('state')!r}", val.get("state") == "f(dt,x,u)", file=tplp, func="process_model",
                           construct="state provenance", msg=f"generated C++ returns state {val.get('state')!r}, not ProcessModel::model(...)")
            want_args = ["dt", "state"] + (["calibration"] if cal else []) + (["control"] if ctl else [])
            for c in ev.calls:
                n_pairs += 1
                ctx.oblige("PRED-EQ", where, f"{c['callee']}({', '.join(c['args'])})", c["args"] == want_args, file=tplp, func="process_model",
                           construct=f"arguments of {c['callee']}",
                           msg=f"{c['callee']} is called with ({', '.join(c['args'])}); the declared signature and the other calls use ({', '.join(want_args)})")
            got_atoms = sorted({c["atom"] for c in ev.calls})
            ctx.oblige("PRED-EQ", where, f"calls {got_atoms}", got_atoms == ["G", "M", "V", "f(dt,x,u)"], file=tplp, func="process_model",
                       construct="callee set", msg=f"the generated prediction evaluates {got_atoms}; required G, V, M and the state model")
            # ---- sensor
            for targ, sev, sparams in gf["sensor"][:1]:
                wheres = f"{tpls} [{v.tag}, {targ}]"
                for p in sev.problems:
                    ctx.error(f"{wheres}: {p}")
                late = [e for e in sev.events if e["kind"] == "return" and "removeInnovation" not in e["guard"]]
                if len(late) != 1 or not isinstance(late[0]["value"], dict):
                    ctx.error(f"{wheres}: expected a single update return")
                    continue
                val = late[0]["value"]
                n_pairs += 1
                if py.get("upd_state") is None or py.get("upd_cov") is None or py.get("innovation") is None:
                    continue
                ctx.oblige("UPD-EQ", wheres, f"C++ posterior state = {val.get('state')!r}", val.get("state") == py.get("upd_state"), file=tpls,
                           func="sensor_model", construct="posterior state form",
                           msg=f"generated C++ posterior state  {val.get('state')!r} ; Python  {py.get('upd_state')!r}")
                ctx.oblige("UPD-EQ", wheres, f"C++ posterior covariance = {val.get('covariance')!r}", val.get("covariance") == py.get("upd_cov"),
                           file=tpls, func="sensor_model", construct="posterior covariance form",
                           msg=f"generated C++ posterior covariance  {val.get('covariance')!r} ; Python  {py.get('upd_cov')!r}")
                recs = [e for e in sev.events if e["kind"] == "store" and "_innovations" in (e["target"] or "")]
                ctx.oblige("UPD-EQ", wheres, f"{len(recs)} innovation store(s)", len(recs) == 1 and recs[0]["form"] == py.get("innovation")
                           and not recs[0]["guard"], file=tpls, func="sensor_model", construct="stored innovation",
                           msg=f"generated C++ stores innovation {[repr(r['form']) + (' under ' + str(r['guard']) if r['guard'] else '') for r in recs]}; "
                               f"Python records {py.get('innovation')!r} unconditionally")
                want_sargs = ["state"] + (["calibration"] if cal else []) + ["reading"]
                for c in sev.calls:
                    ctx.oblige("UPD-EQ", wheres, f"{c['callee']}({', '.join(c['args'])})", c["args"] == want_sargs, file=tpls, func="sensor_model",
                               construct=f"arguments of {c['callee']}",
                               msg=f"SensorModel::{c['callee']} is called with ({', '.join(c['args'])}); declared ({', '.join(want_sargs)})")
    ctx.floor("PRED-EQ", n_pairs, 20, "formula / argument-list pairs compared (4 valuations)")
    # ---- DECIDE-EQ: C06's rules on both sides
    d = c06.py_decision(ctx, sc)
    y, Sinv = MatForm.atom("y"), MatForm.atom("Sinv", True)
    want_nis = y.T() * Sinv * y
    k, m = Scalar.atom("config.innovation_filtering"), Scalar.atom("|READ(k)|")
    want_thr = k * (Scalar.const(2) * m).sqrt() + m
    forms = {}
    if d is not None:
        forms["python"] = (repr(d[0]), repr(d[1]), d[2])
        ctx.oblige("DECIDE-EQ", f"{PY}:ExtendedKalmanFilter.remove_innovation", f"python decision {forms['python']}",
                   d[0] == want_nis and d[1] == want_thr and d[2] == "Gt", file=PY, func="ExtendedKalmanFilter.remove_innovation",
                   construct="python decision", msg=f"Python decides by {forms['python']}")
    for rid in ("NIS-FORM", "THRESH-FORM", "CMP", "SIBLINGS", "ARGS", "EARLY", "DISABLED"):
        ctx.rule(rid, "see C06")
    cppforms.c06(ctx, want_nis, want_thr, forms)
    # ---- LAY-KEY across modules
    g = genlayout.GenInfo(ctx, prog)
    pa, ca = sc.ekf.attrs, g.ekf.attrs
    for attr in ("arglist_state", "arglist_control", "arglist_calibration"):
        a, b = pa.get(attr), ca.get(attr)
        ok = isinstance(a, SeqV) and isinstance(b, SeqV) and a.layout == b.layout and a.layout.ordered()
        ctx.oblige("LAY-KEY", "python.py vs cpp.py", f"{attr}: python {a!r} / cpp {b!r}", ok, file="py/formak/cpp.py", func="ExtendedKalmanFilter.__init__",
                   construct=f"role layout {attr}", msg=f"{attr} is {a!r} in python.ExtendedKalmanFilter but {b!r} in cpp.ExtendedKalmanFilter: "
                   f"a named field denotes different slots on the two sides")
    pr = sc.sensor_model_obj.attrs.get("readings")
    rt = g.reading_type
    R = Layout((("SORT", ("READ", "k"), "natural"),))
    ctx.oblige("LAY-KEY", "python.py vs cpp.py", f"readings: python {pr!r}", isinstance(pr, SeqV) and pr.layout == R, file=PY, func="SensorModel.__init__",
               construct="reading layout python", msg=f"python SensorModel orders readings as {pr!r}; the C++ side uses {R}")
    cs = ca.get("sensorlist")
    ctx.oblige("LAY-KEY", "python.py vs cpp.py", f"sensors: cpp {cs!r}", isinstance(cs, SeqV) and cs.layout == Layout((("SORT", "SENSOR", "natural"),)),
               file="py/formak/cpp.py", func="ExtendedKalmanFilter.__init__", construct="sensor order cpp",
               msg=f"cpp orders sensors as {cs!r}, not by natural key order")
    genlayout.check_all(ctx, g)
    # the Python side's own layout obligations (H, G, V, h, f are read back through them)
    for _rid, _t in (("LAY-CALL", "execute() actuals == block arglist"), ("LAY-FLAT", "un-flatten by the compiled stride"), ("LAY-ZIP", "zip partners share a layout"),
                     ("LAY-SLOT", "slot stores by enumeration index"), ("LAY-DICT", "from_dict into the matching layout"), ("ARR-MM", "products conform"),
                     ("ARR-EW", "sums conform")):
        ctx.rule(_rid, _t)
    scenarios.transfer(sc.it, ctx, rules={"LAY-CALL", "LAY-FLAT", "LAY-ZIP", "LAY-SLOT", "LAY-DICT", "ARR-MM", "ARR-EW"}, files={PY})
    from . import c13 as _c13nv
    _c13nv.named_arrays(ctx, ("vec", "cov"))
    # no module-level / class-level mutable state shared between filters: one filter's construction or update must not reach another's (shared with C01)
    from . import c15 as _c15pp
    ctx.rule("PY-PURE", "no module-level / class-level mutable state shared between filters (shared with C01)")
    _c15pp.gen_pure(ctx, {"python": "py/formak/python.py", "common": "py/formak/common.py"}, rule="PY-PURE", floor=40)
    # every generated C++ expression (noise tables, Jacobians, models) goes through cpp.BasicBlock: its temporaries protocol, the CSE gate and the trusted
    # sympy signatures (shared with C02 / C08)
    from .. import tmprules as _tmpcpp
    for _rid, _t in (("TMP-3", "cpp.BasicBlock temporaries protocol"), ("TMP-4", "CSE flag gates only cse()/simplify()"), ("TRUST-SIG", "trusted sympy call signatures")):
        ctx.rule(_rid, _t)
    _tmpcpp.check_cpp_block(ctx, ctx.parse("py/formak/cpp.py"))
    return core.finish(ctx, explanation="pairwise equality of E3 normal forms (Python interpreter vs clang AST of the rendered templates), "
                                        "shared role layouts, compile witnesses", **META)
